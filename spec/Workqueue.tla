------------------------------ MODULE Workqueue ------------------------------
(***************************************************************************)
(* The generic work queue of src/workqueue.c (+ include/urcu/ref.h and the *)
(* wfcqueue primitives it uses), one action per shared-memory access or    *)
(* blocking call, under SC or x86-TSO store buffers.  Used by C09 (lazy    *)
(* resize / destroy of rculfhash go through one work queue; cds_lfht_exit  *)
(* = flush + destroy) and C16 (pause / resume of the worker around fork).  *)
(*                                                                         *)
(* Objects.  One struct urcu_workqueue "wq": wq.flags (RT 1, STOP 2,       *)
(* PAUSE 4, PAUSED 8), wq.futex, wq.qlen, the queue wq.cbs_tail /          *)
(* wq.cbs_head.next (the head node is the pointer value "wq.cbs_head");    *)
(* wfcqueue at its own granularity: enqueue = xchg of tail + link store,   *)
(* splice = emptiness loads, xchg of head.next, xchg of tail).  The worker *)
(* threads are "h1", "h2", .. in creation order.  Work items of the        *)
(* scenario "w1".. (w.next); a flush op named "c1" allocates the           *)
(* completion c1 (c1.barrier_count / c1.futex / c1.ref) and its            *)
(* completion_work item "c1w" (c1w.next).  The worker's temporary queue    *)
(* cbs_tmp_head / cbs_tmp_tail is thread-private (ordinary variables).     *)
(*                                                                         *)
(* Scenario programs (Prog[t], records [op, n]):                           *)
(*   create        urcu_workqueue_create(Flags, -1, ...)                   *)
(*   queue n       urcu_workqueue_queue_work(wq, &n, F(n));  F(n) = "cb",  *)
(*                 or "re": the callback queues Re[n]                      *)
(*   flush k       urcu_workqueue_flush_queued_work(wq)  (completion k)    *)
(*   pause/resume  urcu_workqueue_pause_worker / resume_worker             *)
(*   destroy       urcu_workqueue_destroy(wq)                              *)
(*   join t        application-level pthread_join of scenario thread t     *)
(* Operations other than create wait (application-level hand-off of the    *)
(* pointer) until the work queue exists.                                   *)
(*                                                                         *)
(* Ghosts: cnt (invocations per item), queued (items whose queue_work      *)
(* returned), fin (callback returned), fsnap (queued when flush was        *)
(* called), alive (wq / completion / completion_work: no, yes, freed),     *)
(* uaf, errs.  Mut: model-level mutants (negative controls), {} for claims.*)
(***************************************************************************)
EXTENDS Naturals, Integers, Sequences, FiniteSets, TLC

CONSTANTS Threads,    \* set of scenario thread ids (strings)
          Prog,       \* [Threads -> Seq([op, n])]
          TSO,        \* TRUE: stores are buffered (x86-TSO); FALSE: sequential consistency
          Tracing,    \* TRUE: maintain acc (last event)
          SBMax,      \* capacity of a store buffer
          Flags,      \* flags passed to urcu_workqueue_create: 0 (what rculfhash uses) or 1 (URCU_WORKQUEUE_RT)
          Pre,        \* TRUE: the work queue was created (by the main thread) before the scenario threads start
          Re,         \* [work item -> item its callback passes to urcu_workqueue_queue_work, or "-"]
          Spurious,   \* budget of spurious / EINTR returns of FUTEX_WAIT
          Mut         \* model-level mutants: subset of {"wakefirst", "skipwake", "latedec", "noref", "nocount", "latecount", "countfirst", "plaindec", "nombwait",
                      \*   "putfirst", "unsafeiter", "stopfirst", "nojoin", "nostopwake", "nopausewake"}

NULL == "NULL"
RT == 1  STOP == 2  PAUSE == 4  PAUSED == 8
Has(v, b) == (v \div b) % 2 = 1
SetB(v, b) == IF Has(v, b) THEN v ELSE v + b
ClrB(v, b) == IF Has(v, b) THEN v - b ELSE v

OpsOf(t) == {Prog[t][j] : j \in DOMAIN Prog[t]}
AllOps == UNION {OpsOf(t) : t \in Threads}
UWorks == {o.n : o \in {x \in AllOps : x.op = "queue"}} \cup ({Re[n] : n \in DOMAIN Re} \ {"-"})
Comps == {o.n : o \in {x \in AllOps : x.op = "flush"}}
CW(k) == k \o "w"
CWorks == {CW(k) : k \in Comps}
Items == UWorks \cup CWorks
CompOf == [w \in CWorks |-> CHOOSE k \in Comps : CW(k) = w]
NCreate == (IF Pre THEN 1 ELSE 0) + Cardinality({<<t, j>> \in Threads \X (1..8) : j \in DOMAIN Prog[t] /\ Prog[t][j].op = "create"})
HName(k) == "h" \o ToString(k)
Workers == {HName(k) : k \in 1..NCreate}
Procs == Threads \cup Workers

WQ == "wq"
HD == "wq.cbs_head"
HN == "wq.cbs_head.next"
TL == "wq.cbs_tail"
FL == "wq.flags"
FX == "wq.futex"
QL == "wq.qlen"
NextOf(n) == n \o ".next"
CountOf(k) == k \o ".barrier_count"
FutexOf(k) == k \o ".futex"
RefOf(k) == k \o ".ref"
WqLocs == {HN, TL, FL, FX, QL}
KLocs(k) == {CountOf(k), FutexOf(k), RefOf(k)}
PtrLocs == {HN, TL} \cup {NextOf(n) : n \in Items}
IntLocs == {FL, FX, QL} \cup UNION {KLocs(k) : k \in Comps}
Locs == PtrLocs \cup IntLocs
Objs == {WQ} \cup Comps \cup CWorks
ObjOf(l) == IF l \in WqLocs THEN WQ
            ELSE IF \E k \in Comps : l \in KLocs(k) THEN CHOOSE k \in Comps : l \in KLocs(k)
            ELSE IF \E w \in CWorks : l = NextOf(w) THEN CHOOSE w \in CWorks : l = NextOf(w)
            ELSE "static"
LocObj == [l \in Locs |-> ObjOf(l)]
WqInit(l) == IF l = TL THEN HD ELSE IF l = HN THEN NULL ELSE IF l = FL THEN Flags ELSE 0

FlId(t) == "F:" \o t
Flushers == {FlId(t) : t \in Procs}
FlOf == [f \in Flushers |-> CHOOSE t \in Procs : FlId(t) = f]
NoOp == [op |-> "none", n |-> "-"]
FName(n) == IF n \in CWorks THEN "wait_complete" ELSE IF Re[n] = "-" THEN "cb" ELSE "re"

(* --algorithm workqueue {
variables
  mem = [l \in Locs |-> IF l \in WqLocs THEN WqInit(l) ELSE IF l \in IntLocs THEN 0 ELSE NULL],
  sb = [t \in Procs |-> <<>>],
  acc = [k |-> 0],
  fsleep = {},                              \* processes blocked in FUTEX_WAIT
  wloc = [t \in Procs |-> "-"],             \* ... and the futex word each of them sleeps on
  spur = Spurious,
  wkind = [t \in Procs |-> "WAKE"],         \* how the FUTEX_WAIT of t ends: "WAKE", or "SPURIOUS" / "EINTR" (environment)
  started = [h \in Workers |-> Pre /\ h = HName(1)],   \* pthread_create done
  nspawn = IF Pre THEN 1 ELSE 0,            \* workers created so far
  wtid = IF Pre THEN HName(1) ELSE "-",     \* workqueue->tid
  wqready = Pre,                            \* the scenario threads have the pointer returned by urcu_workqueue_create
  func = [n \in Items |-> "-"],             \* work->func
  \* ghosts of the properties
  cnt = [n \in UWorks |-> 0],               \* invocations of n's callback
  queued = {},                              \* items whose urcu_workqueue_queue_work() has returned
  fin = {},                                 \* items whose callback has returned
  fsnap = [t \in Threads |-> {}],           \* queued at the call of the flush in progress
  alive = [o \in Objs |-> IF o = WQ /\ Pre THEN "yes" ELSE "no"],   \* "no" (not allocated yet), "yes", "freed"
  uaf = FALSE,                              \* a location of a freed object was accessed
  errs = {},                                \* violated clauses
  \* per-process temporaries (procedures have no locals)
  pci = [t \in Threads |-> 1],
  opx = [t \in Threads |-> NoOp],
  iv = [t \in Procs |-> 0],                 \* integer loaded (urcu_ref_get: old; plaindec mutant)
  rv = [t \in Procs |-> 0],                 \* urcu_ref_get: result of cmpxchg
  hd = [t \in Procs |-> NULL],              \* splice: head
  tl = [t \in Procs |-> NULL],              \* splice: tail
  old = [t \in Procs |-> NULL],             \* append: old tail
  cur = [t \in Procs |-> NULL],             \* worker iteration: current node
  nx = [t \in Procs |-> NULL],              \* worker iteration: next node
  cbc = [t \in Procs |-> 0],                \* cbcount
  isrt = [t \in Procs |-> FALSE],           \* worker: rt
  en = [t \in Procs |-> NULL],              \* urcu_workqueue_queue_work: work
  fx = [t \in Procs |-> "-"],               \* futex_wait / futex_wake_up: futex word
  bk = [t \in Procs |-> NULL],              \* completion (flush / _urcu_workqueue_wait_complete)
  cz = [t \in Procs |-> FALSE];             \* _urcu_workqueue_wait_complete: barrier_count reached zero (mutant putfirst)

define {
  LastIdx(t, loc) == LET S == {i \in DOMAIN sb[t] : sb[t][i][1] = loc} IN
                     IF S = {} THEN 0 ELSE CHOOSE i \in S : \A j \in S : j <= i
  Rd(t, loc) == IF LastIdx(t, loc) = 0 THEN mem[loc] ELSE sb[t][LastIdx(t, loc)][2]
  Drained(t) == sb[t] = <<>>
  Ev(t, op, var, a, b, r) == IF Tracing THEN [k |-> acc.k + 1, t |-> t, op |-> op, var |-> var, a |-> a, b |-> b, r |-> r] ELSE acc
  Dead(loc) == LocObj[loc] # "static" /\ alive[LocObj[loc]] # "yes"
  Sleepers(loc) == {p \in fsleep : wloc[p] = loc}
}

macro Ld(dst, loc)    { dst := Rd(self, loc); uaf := uaf \/ Dead(loc); acc := Ev(self, "ld", loc, "-", "-", Rd(self, loc)); }
\* load whose value is only used by the test that follows in the same step
macro Ldx(loc)        { uaf := uaf \/ Dead(loc); acc := Ev(self, "ld", loc, "-", "-", Rd(self, loc)); }
macro St(loc, v)      { if (TSO) { await Len(sb[self]) < SBMax; sb[self] := Append(sb[self], <<loc, v>>) } else { mem[loc] := v };
                        uaf := uaf \/ Dead(loc); acc := Ev(self, "st", loc, v, "-", "-"); }
\* plain store (no event): buffered like any store under TSO when model checking; the executed runtime commits a plain
\* store at once, after draining the thread's buffer
macro PlainSt(loc, v) { if (TSO /\ ~Tracing) { await Len(sb[self]) < SBMax; sb[self] := Append(sb[self], <<loc, v>>) }
                        else { await Drained(self); mem[loc] := v };
                        uaf := uaf \/ Dead(loc); }
macro Xchg(dst, loc, v) { await Drained(self); dst := mem[loc]; mem[loc] := v; uaf := uaf \/ Dead(loc); acc := Ev(self, "xchg", loc, v, "-", dst); }
\* compare-and-swap: dst receives the value found
macro Cas(dst, loc, o, n) { await Drained(self); dst := mem[loc]; uaf := uaf \/ Dead(loc); acc := Ev(self, "cas", loc, o, n, mem[loc]);
                            if (mem[loc] = o) { mem[loc] := n }; }
\* locked read-modify-write; `new` is evaluated in the state before the step (acc is assigned first)
macro Rmw(opn, loc, a, new) { await Drained(self); acc := Ev(self, opn, loc, a, "-", new); uaf := uaf \/ Dead(loc); mem[loc] := new; }
macro Mb()            { await Drained(self); acc := Ev(self, "mb", "-", "-", "-", "-"); }
macro FWake(loc)      { await Drained(self); uaf := uaf \/ Dead(loc); acc := Ev(self, "fwake", loc, "-", "-", Cardinality(Sleepers(loc)));
                        fsleep := fsleep \ Sleepers(loc); }
macro Fail(what)      { errs := errs \cup {what} }

\* ------------------------------------------------------------------ futex_wait(fx)
procedure futex_wait() {
fw_mb:  Mb();                                                    \* cmm_smp_mb(): read condition before read futex
fw_ld:  Ldx(fx[self]);                                           \* while (uatomic_read(futex) == -1)
        if (Rd(self, fx[self]) # -1) { fx[self] := "-"; return };
fw_fwait: await Drained(self);                                   \*   futex_async(futex, FUTEX_WAIT, -1, NULL, NULL, 0)
        uaf := uaf \/ Dead(fx[self]);
        if (mem[fx[self]] = -1) { fsleep := fsleep \cup {self}; wloc[self] := fx[self];
                                  acc := Ev(self, "fwait", fx[self], -1, "-", "SLEEP") }
        else { acc := Ev(self, "fwait", fx[self], -1, "-", "EAGAIN"); fx[self] := "-"; return };   \* EAGAIN: value already changed: return
fw_fwoke: await self \notin fsleep;                              \*   woken by FUTEX_WAKE, or spuriously (0) / by a signal (EINTR): check again
        acc := Ev(self, "fwoke", fx[self], "-", "-", wkind[self]);
        wkind[self] := "WAKE"; wloc[self] := "-";
        goto fw_ld;
}

\* ------------------------------------------------------------------ futex_wake_up(fx)
procedure futex_wake_up() {
fu_mb:  Mb();                                                    \* cmm_smp_mb(): write to condition before reading/writing futex
fu_ld:  Ldx(fx[self]);                                           \* if (uatomic_read(futex) == -1)
        if (Rd(self, fx[self]) # -1) { fx[self] := "-"; return };
fu_st:  St(fx[self], 0);                                         \*   uatomic_store(futex, 0)
fu_fw:  FWake(fx[self]);                                         \*   futex_async(futex, FUTEX_WAKE, 1, NULL, NULL, 0)
        fx[self] := "-";
        return;
}

\* ------------------------------------------------------------------ wake_worker_thread(workqueue)
procedure wake_worker() {
wk_fl:  Ldx(FL);                                                 \* if (!(uatomic_load(&workqueue->flags) & URCU_WORKQUEUE_RT))
        if (Has(Rd(self, FL), RT)) { return }
        else { fx[self] := FX; call futex_wake_up(); return };   \*   futex_wake_up(&workqueue->futex)
}

\* ------------------------------------------------------------------ urcu_workqueue_queue_work(workqueue, en, func)
procedure queue_work() {
e_mb:   Mb();                                                    \* cds_wfcq_node_init(&work->next); work->func = func; cds_wfcq_enqueue: cmm_emit_legacy_smp_mb()
e_xchg: Xchg(old[self], TL, en[self]);                           \* old_tail = uatomic_xchg(&tail->p, new_tail)
e_link: St(NextOf(old[self]), en[self]);                         \* uatomic_store(&old_tail->next, new_head, RELEASE)
        old[self] := NULL;
e_qlen: Rmw("inc", QL, 1, mem[QL] + 1);                          \* uatomic_inc(&workqueue->qlen)
        en[self] := NULL;
        \* (mem[QL] below is the NEW value.)  mutants: wake issued before the enqueue / skipped when qlen was non-zero
        if ("wakefirst" \in Mut \/ ("skipwake" \in Mut /\ mem[QL] # 1)) { return }
        else { call wake_worker(); return };                     \* wake_worker_thread(workqueue)
}

\* ------------------------------------------------------------------ _urcu_workqueue_wait_complete(work = cur): completion = bk
procedure wait_complete() {
bc_sub: Rmw("addret", CountOf(bk[self]), -1, mem[CountOf(bk[self])] - 1);   \* if (!uatomic_sub_return(&completion->barrier_count, 1))
        cz[self] := (mem[CountOf(bk[self])] = 0);
        if (mem[CountOf(bk[self])] # 0 \/ "putfirst" \in Mut) { goto bc_put }
        else { fx[self] := FutexOf(bk[self]); call futex_wake_up() };        \*   futex_wake_up(&completion->futex)
bc_put: Rmw("addret", RefOf(bk[self]), -1, mem[RefOf(bk[self])] - 1);       \* urcu_ref_put(&completion->ref, free_completion)
        if (mem[RefOf(bk[self])] < 0) { Fail("RefUnderflow") };             \*   urcu_posix_assert(res >= 0)
        if (mem[RefOf(bk[self])] # 0) { goto bc_pw };
bc_frk: if (alive[bk[self]] # "yes") { Fail("completion freed twice") };    \*   free_completion(): free(completion)
        alive[bk[self]] := "freed";
        acc := Ev(self, "free", bk[self], "-", "-", "-");
bc_pw:  if ("putfirst" \in Mut /\ cz[self]) { fx[self] := FutexOf(bk[self]); call futex_wake_up() };   \* (mutant only: wake after the put)
bc_frw: if (alive[cur[self]] # "yes") { Fail("completion_work freed twice") };   \* free(completion_work)
        alive[cur[self]] := "freed";
        acc := Ev(self, "free", cur[self], "-", "-", "-");
        bk[self] := NULL; cz[self] := FALSE;
        return;
}

\* ------------------------------------------------------------------ urcu_workqueue_flush_queued_work(workqueue): completion = bk
procedure flush() {
fl_ref: St(RefOf(bk[self]), 1);                                  \* urcu_workqueue_create_completion(): completion = calloc(); urcu_ref_set(&completion->ref, 1); barrier_count = 0
qc_ld:  if ("noref" \in Mut) { goto qc_inc }                      \* urcu_workqueue_queue_completion(): work = calloc(); work->completion = completion
        else { Ld(iv[self], RefOf(bk[self])) };                  \*   urcu_ref_get(): old = uatomic_load(&ref->refcount)
qc_cas: Cas(rv[self], RefOf(bk[self]), iv[self], iv[self] + 1);  \*     res = uatomic_cmpxchg(&ref->refcount, old, old + 1)
        if (rv[self] # iv[self]) { iv[self] := rv[self]; goto qc_cas }
        else { iv[self] := 0 };
qc_inc: if ("nocount" \notin Mut /\ "latecount" \notin Mut) {
          Rmw("inc", CountOf(bk[self]), 1, mem[CountOf(bk[self])] + 1) };   \*   uatomic_inc(&completion->barrier_count)
qc_q:   en[self] := CW(bk[self]); func[CW(bk[self])] := "wait_complete"; rv[self] := 0;
        call queue_work();                                       \*   urcu_workqueue_queue_work(workqueue, &work->work, _urcu_workqueue_wait_complete)
wc_dec: if ("latecount" \in Mut /\ ~cz[self]) {                  \* (mutant: barrier_count incremented after the work was queued)
          Rmw("inc", CountOf(bk[self]), 1, mem[CountOf(bk[self])] + 1); cz[self] := TRUE; goto wc_dec }
        else if ("countfirst" \in Mut) { goto wc_ldc }           \* (mutant: barrier_count read before the futex decrement)
        else if ("plaindec" \in Mut) { Ld(iv[self], FutexOf(bk[self])) }   \* (mutant: load + store instead of the locked decrement)
        else { Rmw("dec", FutexOf(bk[self]), 1, mem[FutexOf(bk[self])] - 1); goto wc_mb };   \* urcu_workqueue_wait_completion(): for (;;) { uatomic_dec(&completion->futex)
wc_dst: St(FutexOf(bk[self]), iv[self] - 1);
        iv[self] := 0;
wc_mb:  if ("nombwait" \notin Mut) { Mb() };                     \*   cmm_smp_mb(): decrement futex before reading barrier_count
wc_ldc: Ldx(CountOf(bk[self]));                                  \*   if (!uatomic_read(&completion->barrier_count)) break
        if (Rd(self, CountOf(bk[self])) = 0) { goto dc_put }
        else if ("countfirst" \in Mut) { goto wc_cfd }
        else { goto wc_wait };
wc_cfd: Rmw("dec", FutexOf(bk[self]), 1, mem[FutexOf(bk[self])] - 1);
wc_wait: fx[self] := FutexOf(bk[self]);
        call futex_wait();                                       \*   futex_wait(&completion->futex) }
        goto wc_dec;
dc_put: Rmw("addret", RefOf(bk[self]), -1, mem[RefOf(bk[self])] - 1);   \* urcu_workqueue_destroy_completion(): urcu_ref_put(&completion->ref, free_completion)
        cz[self] := FALSE;
        if (mem[RefOf(bk[self])] < 0) { Fail("RefUnderflow") };
        if (mem[RefOf(bk[self])] # 0) { bk[self] := NULL; return };
dc_free: if (alive[bk[self]] # "yes") { Fail("completion freed twice") };   \*   free(completion)
        alive[bk[self]] := "freed";
        acc := Ev(self, "free", bk[self], "-", "-", "-");
        bk[self] := NULL;
        return;
}

\* ------------------------------------------------------------------ urcu_workqueue_pause_worker / urcu_workqueue_resume_worker
procedure pause() {
pa_or:  Rmw("or", FL, PAUSE, SetB(mem[FL], PAUSE));              \* uatomic_or(&workqueue->flags, URCU_WORKQUEUE_PAUSE); cmm_smp_mb__after_uatomic_or()
        if ("nopausewake" \in Mut) { goto pa_wait }
        else { call wake_worker() };                             \* wake_worker_thread(workqueue)
pa_wait: Ldx(FL);                                                \* while ((uatomic_read(&workqueue->flags) & URCU_WORKQUEUE_PAUSED) == 0) poll(NULL, 0, 1)
        if (~Has(Rd(self, FL), PAUSED)) { goto pa_wait };
pa_ret: return;
}
procedure resume() {
rs_and: Rmw("and", FL, "xfffffffb", ClrB(mem[FL], PAUSE));       \* uatomic_and(&workqueue->flags, ~URCU_WORKQUEUE_PAUSE)
rs_wait: Ldx(FL);                                                \* while ((uatomic_read(&workqueue->flags) & URCU_WORKQUEUE_PAUSED) != 0) poll(NULL, 0, 1)
        if (Has(Rd(self, FL), PAUSED)) { goto rs_wait };
rs_ret: return;
}

\* ------------------------------------------------------------------ urcu_workqueue_create(Flags, -1, ...)
procedure create() {
cr_init: if (alive[WQ] = "yes") { Fail("SCENARIO second work queue") };   \* malloc(); memset(); cds_wfcq_init(); qlen = futex = 0; flags = flags; ...
        alive[WQ] := "yes";
        mem := [l \in Locs |-> IF l \in WqLocs THEN WqInit(l) ELSE mem[l]];
cr_mb:  Mb();                                                    \* cmm_smp_mb(): structure initialized before pointer is planted
cr_spawn: await Drained(self) /\ nspawn < NCreate;               \* pthread_create(&workqueue->tid, NULL, workqueue_thread, workqueue)
        acc := Ev(self, "spawn", HName(nspawn + 1), "-", "-", "-");
        started[HName(nspawn + 1)] := TRUE;
        wtid := HName(nspawn + 1);
        nspawn := nspawn + 1;
        return;
}

\* ------------------------------------------------------------------ urcu_workqueue_destroy(workqueue)
procedure destroy() {
ds_or:  Rmw("or", FL, STOP, SetB(mem[FL], STOP));                \* urcu_workqueue_destroy_worker(): uatomic_or(&workqueue->flags, URCU_WORKQUEUE_STOP)
        if ("nostopwake" \in Mut) { goto ds_join }
        else { call wake_worker() };                             \*   wake_worker_thread(workqueue)
ds_join: await "nojoin" \in Mut \/ pc[wtid] = "Done";            \*   pthread_join(workqueue->tid, &retval)
        acc := Ev(self, "join", wtid, "-", "-", "-");
ds_clr: PlainSt(FL, ClrB(Rd(self, FL), STOP));                   \*   workqueue->flags &= ~URCU_WORKQUEUE_STOP; workqueue->tid = 0   (plain)
        wtid := "-";
ds_e1:  Ldx(HN);                                                 \* urcu_posix_assert(cds_wfcq_empty(&workqueue->cbs_head, &workqueue->cbs_tail))
        if (Rd(self, HN) # NULL) { Fail("DestroyNonEmpty"); goto ds_free };
ds_e2:  Ldx(TL);
        if (Rd(self, TL) # HD) { Fail("DestroyNonEmpty") };
ds_free: errs := errs \cup (IF alive[WQ] # "yes" THEN {"workqueue freed twice"} ELSE {})          \* free(workqueue)
                     \cup (IF pc[HName(nspawn)] # "Done" THEN {"WorkerAliveAtFree"} ELSE {})
                     \cup (IF Rd(self, QL) # 0 THEN {"QlenAtDestroy"} ELSE {});
        alive[WQ] := "freed";
        acc := Ev(self, "free", WQ, "-", "-", "-");
        return;
}

fair process (flusher \in Flushers) {
fl: while (TRUE) {
      await sb[FlOf[self]] # <<>>;
      mem[Head(sb[FlOf[self]])[1]] := Head(sb[FlOf[self]])[2] || sb[FlOf[self]] := Tail(sb[FlOf[self]])
      || acc := IF Tracing THEN [k |-> acc.k + 1, t |-> FlOf[self], op |-> "flush", var |-> Head(sb[FlOf[self]])[1],
                               a |-> Head(sb[FlOf[self]])[2], b |-> "-", r |-> "-"] ELSE acc;
    }
}

\* environment: FUTEX_WAIT returns 0 although nobody called FUTEX_WAKE, or fails with EINTR (budget Spurious)
process (spurw \in {"W:env"}) {
sw: while (TRUE) {
      await spur > 0;
      with (p \in fsleep) { with (k \in {"SPURIOUS", "EINTR"}) {
        fsleep := fsleep \ {p}; wkind[p] := k; spur := spur - 1 } };
    }
}

\* ------------------------------------------------------------------ workqueue_thread(workqueue)
fair process (worker \in Workers) {
w_idle: await started[self];
wt_flags: Ldx(FL);                                               \* rt = !!(uatomic_read(&workqueue->flags) & URCU_WORKQUEUE_RT); set_thread_cpu_affinity(); initialize_worker_fct
        isrt[self] := Has(Rd(self, FL), RT);
        if (Has(Rd(self, FL), RT) \/ "latedec" \in Mut) { goto wt_top };
wt_dec0: Rmw("dec", FX, 1, mem[FX] - 1);                         \* if (!rt) { uatomic_dec(&workqueue->futex)
wt_mb0: Mb();                                                    \*   cmm_smp_mb() }: decrement futex before reading workqueue
wt_top: Ldx(FL);                                                 \* for (;;) { if (uatomic_read(&workqueue->flags) & URCU_WORKQUEUE_PAUSE)
        if (~Has(Rd(self, FL), PAUSE)) { if ("stopfirst" \in Mut) { goto wm_stop } else { goto s_e1 } };
wp_or:  Rmw("or", FL, PAUSED, SetB(mem[FL], PAUSED));            \*   cmm_smp_mb__before_uatomic_or(); uatomic_or(&workqueue->flags, URCU_WORKQUEUE_PAUSED)
wp_wait: Ldx(FL);                                                \*   while ((uatomic_read(&workqueue->flags) & URCU_WORKQUEUE_PAUSE) != 0) poll(NULL, 0, 1)
        if (Has(Rd(self, FL), PAUSE)) { goto wp_wait };
wp_and: Rmw("and", FL, "xfffffff7", ClrB(mem[FL], PAUSED));      \*   uatomic_and(&workqueue->flags, ~URCU_WORKQUEUE_PAUSED); cmm_smp_mb__after_uatomic_and()
        if ("stopfirst" \notin Mut) { goto s_e1 };
wm_stop: Ldx(FL);                                                \* (mutant stopfirst only: STOP tested before the splice)
        if (Has(Rd(self, FL), STOP)) { if (isrt[self]) { goto wt_exit } else { goto wx_mb } };
s_e1:   Ldx(HN);                                                 \* __cds_wfcq_splice_blocking(&cbs_tmp, &workqueue->cbs): _cds_wfcq_empty(src): head->node.next
        if (Rd(self, HN) # NULL) { goto s_xh };
s_e2:   Ldx(TL);                                                 \*   ... && tail->p == &head->node: CDS_WFCQ_RET_SRC_EMPTY
        if (Rd(self, TL) = HD) { goto wt_stop };
s_xh:   Xchg(hd[self], HN, NULL);                                \*   head = uatomic_xchg(&src_q_head->node.next, NULL)
        if (hd[self] # NULL) { goto s_mb };
s_lt:   Ldx(TL);                                                 \*   if (uatomic_load(&src_q_tail->p) == &src_q_head->node) return SRC_EMPTY; else busy-wait
        if (Rd(self, TL) = HD) { goto wt_stop } else { goto s_xh };
s_mb:   Mb();                                                    \*   cmm_emit_legacy_smp_mb()
s_xt:   Xchg(tl[self], TL, HD);                                  \*   tail = uatomic_xchg(&src_q_tail->p, &src_q_head->node); append to the private cbs_tmp
        cur[self] := hd[self]; cbc[self] := 0;
        if ("unsafeiter" \in Mut) { goto it_inv };
it_ld:  Ld(nx[self], NextOf(cur[self]));                         \* __cds_wfcq_for_each_blocking_safe: ___cds_wfcq_next(cbs): next = uatomic_load(&node->next);
        if (nx[self] = NULL /\ cur[self] # tl[self]) { goto it_ld }   \*   NULL: cbs_tmp_tail.p == node ? end : ___cds_wfcq_node_sync_next (enqueuer has not linked yet)
        else if ("unsafeiter" \in Mut) { goto it_nxt }
        else { goto it_inv };
it_re:  en[self] := Re[cur[self]];                               \* the callback passes another item to urcu_workqueue_queue_work()
        func[Re[cur[self]]] := FName(Re[cur[self]]);
        acc := Ev(self, "call", Re[cur[self]], "queue", "-", "-");
        call queue_work();
it_rr:  queued := queued \cup {Re[cur[self]]};
        acc := Ev(self, "ret", "-", "-", "-", "-");
it_end: fin := fin \cup {cur[self]};                             \* the callback returns
        acc := Ev(self, "cbend", cur[self], "-", "-", "-");
        goto it_cnt;
it_inv: if (cur[self] \in CWorks) {                              \* uwp->func(uwp)
          if (func[cur[self]] # "wait_complete") { Fail("RightFunc") };
          bk[self] := CompOf[cur[self]];
          call wait_complete();
        } else {
          if (cnt[cur[self]] >= 1) { Fail("AtMostOnce") }
          else if (func[cur[self]] # FName(cur[self])) { Fail("RightFunc") };
          cnt[cur[self]] := cnt[cur[self]] + 1;
          acc := Ev(self, "cb", cur[self], func[cur[self]], "-", "-");
          if (Re[cur[self]] = "-") { goto it_end } else { goto it_re };
        };
it_cnt: if ("unsafeiter" \in Mut) { goto it_ld };
it_nxt: cbc[self] := cbc[self] + 1;                              \* cbcount++
        cur[self] := nx[self];
        if (nx[self] # NULL) { if ("unsafeiter" \in Mut) { goto it_inv } else { goto it_ld } };
wt_sub: Rmw("add", QL, -cbc[self], mem[QL] - cbc[self]);         \* uatomic_sub(&workqueue->qlen, cbcount)
wt_stop: Ldx(FL);                                                \* if (uatomic_read(&workqueue->flags) & URCU_WORKQUEUE_STOP) break
        hd[self] := NULL; tl[self] := NULL; cur[self] := NULL; nx[self] := NULL; cbc[self] := 0;
        if (Has(Rd(self, FL), STOP) /\ "stopfirst" \notin Mut) { if (isrt[self]) { goto wt_exit } else { goto wx_mb } };
wt_e1:  Ldx(HN);                                                 \* if (cds_wfcq_empty(&workqueue->cbs_head, &workqueue->cbs_tail))
        if (Rd(self, HN) # NULL) { goto wt_top };
wt_e2:  Ldx(TL);
        if (Rd(self, TL) # HD \/ isrt[self]) { goto wt_top }     \*   rt: (void) poll(NULL, 0, 10)
        else if ("latedec" \in Mut) { goto wm_dec }
        else { fx[self] := FX; call futex_wait() };              \*   !rt: futex_wait(&workqueue->futex)
wt_dec: Rmw("dec", FX, 1, mem[FX] - 1);                          \*   uatomic_dec(&workqueue->futex)
wt_mb2: Mb();                                                    \*   cmm_smp_mb(): decrement futex before reading urcu_work list
        goto wt_top;
wm_dec: Rmw("dec", FX, 1, mem[FX] - 1);                          \* (mutant latedec only: futex decremented after the emptiness test, just before sleeping)
        fx[self] := FX;
        call futex_wait();
wm_top: goto wt_top;
wx_mb:  Mb();                                                    \* if (!rt) { cmm_smp_mb(): read urcu_work list before write futex
wx_st:  St(FX, 0);                                               \*   uatomic_store(&workqueue->futex, 0) }
wt_exit: await Drained(self);                                    \* finalize_worker_fct; return NULL
        acc := Ev(self, "exit", "-", "-", "-", "-");
}

\* ------------------------------------------------------------------ scenario threads
fair process (thr \in Threads) {
t_top:  while (pci[self] <= Len(Prog[self])) {
          opx[self] := Prog[self][pci[self]];
          if (Prog[self][pci[self]].op = "join") {               \* application: pthread_join(thread n)
            await pc[Prog[self][pci[self]].n] = "Done";
            acc := Ev(self, "join", Prog[self][pci[self]].n, "-", "-", "-");
            pci[self] := pci[self] + 1;
            goto t_top
          } else {
            await wqready \/ Prog[self][pci[self]].op = "create";   \* application: the pointer returned by urcu_workqueue_create() is handed over
            if (Prog[self][pci[self]].op = "queue") {
              en[self] := Prog[self][pci[self]].n; func[Prog[self][pci[self]].n] := FName(Prog[self][pci[self]].n) }
            else if (Prog[self][pci[self]].op = "flush") {         \* (the two calloc()s of the flush are folded into the call step)
              bk[self] := Prog[self][pci[self]].n; fsnap[self] := queued;
              alive[Prog[self][pci[self]].n] := "yes" || alive[CW(Prog[self][pci[self]].n)] := "yes" };
            acc := Ev(self, "call", Prog[self][pci[self]].n, Prog[self][pci[self]].op, "-", "-");
          };
t_disp:   if (opx[self].op = "queue") { call queue_work() }
          else if (opx[self].op = "flush") { call flush() }
          else if (opx[self].op = "pause") { call pause() }
          else if (opx[self].op = "resume") { call resume() }
          else if (opx[self].op = "create") { call create() }
          else { call destroy() };
t_ret:    if (opx[self].op = "queue") { queued := queued \cup {opx[self].n} }
          else if (opx[self].op = "flush") {
            if (fsnap[self] \ fin # {}) { Fail("FlushGuarantee") }; fsnap[self] := {} }
          else if (opx[self].op = "create") { wqready := TRUE };
          acc := Ev(self, "ret", "-", "-", "-", "-");
          pci[self] := pci[self] + 1;
          opx[self] := NoOp;
        };
t_exit: await Drained(self);
        acc := Ev(self, "exit", "-", "-", "-", "-");
}
} *)
\* BEGIN TRANSLATION
VARIABLES pc, mem, sb, acc, fsleep, wloc, spur, wkind, started, nspawn, wtid, 
          wqready, func, cnt, queued, fin, fsnap, alive, uaf, errs, pci, opx, 
          iv, rv, hd, tl, old, cur, nx, cbc, isrt, en, fx, bk, cz, stack

(* define statement *)
LastIdx(t, loc) == LET S == {i \in DOMAIN sb[t] : sb[t][i][1] = loc} IN
                   IF S = {} THEN 0 ELSE CHOOSE i \in S : \A j \in S : j <= i
Rd(t, loc) == IF LastIdx(t, loc) = 0 THEN mem[loc] ELSE sb[t][LastIdx(t, loc)][2]
Drained(t) == sb[t] = <<>>
Ev(t, op, var, a, b, r) == IF Tracing THEN [k |-> acc.k + 1, t |-> t, op |-> op, var |-> var, a |-> a, b |-> b, r |-> r] ELSE acc
Dead(loc) == LocObj[loc] # "static" /\ alive[LocObj[loc]] # "yes"
Sleepers(loc) == {p \in fsleep : wloc[p] = loc}


vars == << pc, mem, sb, acc, fsleep, wloc, spur, wkind, started, nspawn, wtid, 
           wqready, func, cnt, queued, fin, fsnap, alive, uaf, errs, pci, opx, 
           iv, rv, hd, tl, old, cur, nx, cbc, isrt, en, fx, bk, cz, stack >>

ProcSet == (Flushers) \cup ({"W:env"}) \cup (Workers) \cup (Threads)

Init == (* Global variables *)
        /\ mem = [l \in Locs |-> IF l \in WqLocs THEN WqInit(l) ELSE IF l \in IntLocs THEN 0 ELSE NULL]
        /\ sb = [t \in Procs |-> <<>>]
        /\ acc = [k |-> 0]
        /\ fsleep = {}
        /\ wloc = [t \in Procs |-> "-"]
        /\ spur = Spurious
        /\ wkind = [t \in Procs |-> "WAKE"]
        /\ started = [h \in Workers |-> Pre /\ h = HName(1)]
        /\ nspawn = IF Pre THEN 1 ELSE 0
        /\ wtid = IF Pre THEN HName(1) ELSE "-"
        /\ wqready = Pre
        /\ func = [n \in Items |-> "-"]
        /\ cnt = [n \in UWorks |-> 0]
        /\ queued = {}
        /\ fin = {}
        /\ fsnap = [t \in Threads |-> {}]
        /\ alive = [o \in Objs |-> IF o = WQ /\ Pre THEN "yes" ELSE "no"]
        /\ uaf = FALSE
        /\ errs = {}
        /\ pci = [t \in Threads |-> 1]
        /\ opx = [t \in Threads |-> NoOp]
        /\ iv = [t \in Procs |-> 0]
        /\ rv = [t \in Procs |-> 0]
        /\ hd = [t \in Procs |-> NULL]
        /\ tl = [t \in Procs |-> NULL]
        /\ old = [t \in Procs |-> NULL]
        /\ cur = [t \in Procs |-> NULL]
        /\ nx = [t \in Procs |-> NULL]
        /\ cbc = [t \in Procs |-> 0]
        /\ isrt = [t \in Procs |-> FALSE]
        /\ en = [t \in Procs |-> NULL]
        /\ fx = [t \in Procs |-> "-"]
        /\ bk = [t \in Procs |-> NULL]
        /\ cz = [t \in Procs |-> FALSE]
        /\ stack = [self \in ProcSet |-> << >>]
        /\ pc = [self \in ProcSet |-> CASE self \in Flushers -> "fl"
                                        [] self \in {"W:env"} -> "sw"
                                        [] self \in Workers -> "w_idle"
                                        [] self \in Threads -> "t_top"]

fw_mb(self) == /\ pc[self] = "fw_mb"
               /\ Drained(self)
               /\ acc' = Ev(self, "mb", "-", "-", "-", "-")
               /\ pc' = [pc EXCEPT ![self] = "fw_ld"]
               /\ UNCHANGED << mem, sb, fsleep, wloc, spur, wkind, started, 
                               nspawn, wtid, wqready, func, cnt, queued, fin, 
                               fsnap, alive, uaf, errs, pci, opx, iv, rv, hd, 
                               tl, old, cur, nx, cbc, isrt, en, fx, bk, cz, 
                               stack >>

fw_ld(self) == /\ pc[self] = "fw_ld"
               /\ uaf' = (uaf \/ Dead((fx[self])))
               /\ acc' = Ev(self, "ld", (fx[self]), "-", "-", Rd(self, (fx[self])))
               /\ IF Rd(self, fx[self]) # -1
                     THEN /\ fx' = [fx EXCEPT ![self] = "-"]
                          /\ pc' = [pc EXCEPT ![self] = Head(stack[self]).pc]
                          /\ stack' = [stack EXCEPT ![self] = Tail(stack[self])]
                     ELSE /\ pc' = [pc EXCEPT ![self] = "fw_fwait"]
                          /\ UNCHANGED << fx, stack >>
               /\ UNCHANGED << mem, sb, fsleep, wloc, spur, wkind, started, 
                               nspawn, wtid, wqready, func, cnt, queued, fin, 
                               fsnap, alive, errs, pci, opx, iv, rv, hd, tl, 
                               old, cur, nx, cbc, isrt, en, bk, cz >>

fw_fwait(self) == /\ pc[self] = "fw_fwait"
                  /\ Drained(self)
                  /\ uaf' = (uaf \/ Dead(fx[self]))
                  /\ IF mem[fx[self]] = -1
                        THEN /\ fsleep' = (fsleep \cup {self})
                             /\ wloc' = [wloc EXCEPT ![self] = fx[self]]
                             /\ acc' = Ev(self, "fwait", fx[self], -1, "-", "SLEEP")
                             /\ pc' = [pc EXCEPT ![self] = "fw_fwoke"]
                             /\ UNCHANGED << fx, stack >>
                        ELSE /\ acc' = Ev(self, "fwait", fx[self], -1, "-", "EAGAIN")
                             /\ fx' = [fx EXCEPT ![self] = "-"]
                             /\ pc' = [pc EXCEPT ![self] = Head(stack[self]).pc]
                             /\ stack' = [stack EXCEPT ![self] = Tail(stack[self])]
                             /\ UNCHANGED << fsleep, wloc >>
                  /\ UNCHANGED << mem, sb, spur, wkind, started, nspawn, wtid, 
                                  wqready, func, cnt, queued, fin, fsnap, 
                                  alive, errs, pci, opx, iv, rv, hd, tl, old, 
                                  cur, nx, cbc, isrt, en, bk, cz >>

fw_fwoke(self) == /\ pc[self] = "fw_fwoke"
                  /\ self \notin fsleep
                  /\ acc' = Ev(self, "fwoke", fx[self], "-", "-", wkind[self])
                  /\ wkind' = [wkind EXCEPT ![self] = "WAKE"]
                  /\ wloc' = [wloc EXCEPT ![self] = "-"]
                  /\ pc' = [pc EXCEPT ![self] = "fw_ld"]
                  /\ UNCHANGED << mem, sb, fsleep, spur, started, nspawn, wtid, 
                                  wqready, func, cnt, queued, fin, fsnap, 
                                  alive, uaf, errs, pci, opx, iv, rv, hd, tl, 
                                  old, cur, nx, cbc, isrt, en, fx, bk, cz, 
                                  stack >>

futex_wait(self) == fw_mb(self) \/ fw_ld(self) \/ fw_fwait(self)
                       \/ fw_fwoke(self)

fu_mb(self) == /\ pc[self] = "fu_mb"
               /\ Drained(self)
               /\ acc' = Ev(self, "mb", "-", "-", "-", "-")
               /\ pc' = [pc EXCEPT ![self] = "fu_ld"]
               /\ UNCHANGED << mem, sb, fsleep, wloc, spur, wkind, started, 
                               nspawn, wtid, wqready, func, cnt, queued, fin, 
                               fsnap, alive, uaf, errs, pci, opx, iv, rv, hd, 
                               tl, old, cur, nx, cbc, isrt, en, fx, bk, cz, 
                               stack >>

fu_ld(self) == /\ pc[self] = "fu_ld"
               /\ uaf' = (uaf \/ Dead((fx[self])))
               /\ acc' = Ev(self, "ld", (fx[self]), "-", "-", Rd(self, (fx[self])))
               /\ IF Rd(self, fx[self]) # -1
                     THEN /\ fx' = [fx EXCEPT ![self] = "-"]
                          /\ pc' = [pc EXCEPT ![self] = Head(stack[self]).pc]
                          /\ stack' = [stack EXCEPT ![self] = Tail(stack[self])]
                     ELSE /\ pc' = [pc EXCEPT ![self] = "fu_st"]
                          /\ UNCHANGED << fx, stack >>
               /\ UNCHANGED << mem, sb, fsleep, wloc, spur, wkind, started, 
                               nspawn, wtid, wqready, func, cnt, queued, fin, 
                               fsnap, alive, errs, pci, opx, iv, rv, hd, tl, 
                               old, cur, nx, cbc, isrt, en, bk, cz >>

fu_st(self) == /\ pc[self] = "fu_st"
               /\ IF TSO
                     THEN /\ Len(sb[self]) < SBMax
                          /\ sb' = [sb EXCEPT ![self] = Append(sb[self], <<(fx[self]), 0>>)]
                          /\ mem' = mem
                     ELSE /\ mem' = [mem EXCEPT ![(fx[self])] = 0]
                          /\ sb' = sb
               /\ uaf' = (uaf \/ Dead((fx[self])))
               /\ acc' = Ev(self, "st", (fx[self]), 0, "-", "-")
               /\ pc' = [pc EXCEPT ![self] = "fu_fw"]
               /\ UNCHANGED << fsleep, wloc, spur, wkind, started, nspawn, 
                               wtid, wqready, func, cnt, queued, fin, fsnap, 
                               alive, errs, pci, opx, iv, rv, hd, tl, old, cur, 
                               nx, cbc, isrt, en, fx, bk, cz, stack >>

fu_fw(self) == /\ pc[self] = "fu_fw"
               /\ Drained(self)
               /\ uaf' = (uaf \/ Dead((fx[self])))
               /\ acc' = Ev(self, "fwake", (fx[self]), "-", "-", Cardinality(Sleepers((fx[self]))))
               /\ fsleep' = fsleep \ Sleepers((fx[self]))
               /\ fx' = [fx EXCEPT ![self] = "-"]
               /\ pc' = [pc EXCEPT ![self] = Head(stack[self]).pc]
               /\ stack' = [stack EXCEPT ![self] = Tail(stack[self])]
               /\ UNCHANGED << mem, sb, wloc, spur, wkind, started, nspawn, 
                               wtid, wqready, func, cnt, queued, fin, fsnap, 
                               alive, errs, pci, opx, iv, rv, hd, tl, old, cur, 
                               nx, cbc, isrt, en, bk, cz >>

futex_wake_up(self) == fu_mb(self) \/ fu_ld(self) \/ fu_st(self)
                          \/ fu_fw(self)

wk_fl(self) == /\ pc[self] = "wk_fl"
               /\ uaf' = (uaf \/ Dead(FL))
               /\ acc' = Ev(self, "ld", FL, "-", "-", Rd(self, FL))
               /\ IF Has(Rd(self, FL), RT)
                     THEN /\ pc' = [pc EXCEPT ![self] = Head(stack[self]).pc]
                          /\ stack' = [stack EXCEPT ![self] = Tail(stack[self])]
                          /\ fx' = fx
                     ELSE /\ fx' = [fx EXCEPT ![self] = FX]
                          /\ stack' = [stack EXCEPT ![self] = << [ procedure |->  "futex_wake_up",
                                                                   pc        |->  Head(stack[self]).pc ] >>
                                                               \o Tail(stack[self])]
                          /\ pc' = [pc EXCEPT ![self] = "fu_mb"]
               /\ UNCHANGED << mem, sb, fsleep, wloc, spur, wkind, started, 
                               nspawn, wtid, wqready, func, cnt, queued, fin, 
                               fsnap, alive, errs, pci, opx, iv, rv, hd, tl, 
                               old, cur, nx, cbc, isrt, en, bk, cz >>

wake_worker(self) == wk_fl(self)

e_mb(self) == /\ pc[self] = "e_mb"
              /\ Drained(self)
              /\ acc' = Ev(self, "mb", "-", "-", "-", "-")
              /\ pc' = [pc EXCEPT ![self] = "e_xchg"]
              /\ UNCHANGED << mem, sb, fsleep, wloc, spur, wkind, started, 
                              nspawn, wtid, wqready, func, cnt, queued, fin, 
                              fsnap, alive, uaf, errs, pci, opx, iv, rv, hd, 
                              tl, old, cur, nx, cbc, isrt, en, fx, bk, cz, 
                              stack >>

e_xchg(self) == /\ pc[self] = "e_xchg"
                /\ Drained(self)
                /\ old' = [old EXCEPT ![self] = mem[TL]]
                /\ mem' = [mem EXCEPT ![TL] = en[self]]
                /\ uaf' = (uaf \/ Dead(TL))
                /\ acc' = Ev(self, "xchg", TL, (en[self]), "-", (old'[self]))
                /\ pc' = [pc EXCEPT ![self] = "e_link"]
                /\ UNCHANGED << sb, fsleep, wloc, spur, wkind, started, nspawn, 
                                wtid, wqready, func, cnt, queued, fin, fsnap, 
                                alive, errs, pci, opx, iv, rv, hd, tl, cur, nx, 
                                cbc, isrt, en, fx, bk, cz, stack >>

e_link(self) == /\ pc[self] = "e_link"
                /\ IF TSO
                      THEN /\ Len(sb[self]) < SBMax
                           /\ sb' = [sb EXCEPT ![self] = Append(sb[self], <<(NextOf(old[self])), (en[self])>>)]
                           /\ mem' = mem
                      ELSE /\ mem' = [mem EXCEPT ![(NextOf(old[self]))] = en[self]]
                           /\ sb' = sb
                /\ uaf' = (uaf \/ Dead((NextOf(old[self]))))
                /\ acc' = Ev(self, "st", (NextOf(old[self])), (en[self]), "-", "-")
                /\ old' = [old EXCEPT ![self] = NULL]
                /\ pc' = [pc EXCEPT ![self] = "e_qlen"]
                /\ UNCHANGED << fsleep, wloc, spur, wkind, started, nspawn, 
                                wtid, wqready, func, cnt, queued, fin, fsnap, 
                                alive, errs, pci, opx, iv, rv, hd, tl, cur, nx, 
                                cbc, isrt, en, fx, bk, cz, stack >>

e_qlen(self) == /\ pc[self] = "e_qlen"
                /\ Drained(self)
                /\ acc' = Ev(self, "inc", QL, 1, "-", (mem[QL] + 1))
                /\ uaf' = (uaf \/ Dead(QL))
                /\ mem' = [mem EXCEPT ![QL] = mem[QL] + 1]
                /\ en' = [en EXCEPT ![self] = NULL]
                /\ IF "wakefirst" \in Mut \/ ("skipwake" \in Mut /\ mem'[QL] # 1)
                      THEN /\ pc' = [pc EXCEPT ![self] = Head(stack[self]).pc]
                           /\ stack' = [stack EXCEPT ![self] = Tail(stack[self])]
                      ELSE /\ stack' = [stack EXCEPT ![self] = << [ procedure |->  "wake_worker",
                                                                    pc        |->  Head(stack[self]).pc ] >>
                                                                \o Tail(stack[self])]
                           /\ pc' = [pc EXCEPT ![self] = "wk_fl"]
                /\ UNCHANGED << sb, fsleep, wloc, spur, wkind, started, nspawn, 
                                wtid, wqready, func, cnt, queued, fin, fsnap, 
                                alive, errs, pci, opx, iv, rv, hd, tl, old, 
                                cur, nx, cbc, isrt, fx, bk, cz >>

queue_work(self) == e_mb(self) \/ e_xchg(self) \/ e_link(self)
                       \/ e_qlen(self)

bc_sub(self) == /\ pc[self] = "bc_sub"
                /\ Drained(self)
                /\ acc' = Ev(self, "addret", (CountOf(bk[self])), (-1), "-", (mem[CountOf(bk[self])] - 1))
                /\ uaf' = (uaf \/ Dead((CountOf(bk[self]))))
                /\ mem' = [mem EXCEPT ![(CountOf(bk[self]))] = mem[CountOf(bk[self])] - 1]
                /\ cz' = [cz EXCEPT ![self] = (mem'[CountOf(bk[self])] = 0)]
                /\ IF mem'[CountOf(bk[self])] # 0 \/ "putfirst" \in Mut
                      THEN /\ pc' = [pc EXCEPT ![self] = "bc_put"]
                           /\ UNCHANGED << fx, stack >>
                      ELSE /\ fx' = [fx EXCEPT ![self] = FutexOf(bk[self])]
                           /\ stack' = [stack EXCEPT ![self] = << [ procedure |->  "futex_wake_up",
                                                                    pc        |->  "bc_put" ] >>
                                                                \o stack[self]]
                           /\ pc' = [pc EXCEPT ![self] = "fu_mb"]
                /\ UNCHANGED << sb, fsleep, wloc, spur, wkind, started, nspawn, 
                                wtid, wqready, func, cnt, queued, fin, fsnap, 
                                alive, errs, pci, opx, iv, rv, hd, tl, old, 
                                cur, nx, cbc, isrt, en, bk >>

bc_put(self) == /\ pc[self] = "bc_put"
                /\ Drained(self)
                /\ acc' = Ev(self, "addret", (RefOf(bk[self])), (-1), "-", (mem[RefOf(bk[self])] - 1))
                /\ uaf' = (uaf \/ Dead((RefOf(bk[self]))))
                /\ mem' = [mem EXCEPT ![(RefOf(bk[self]))] = mem[RefOf(bk[self])] - 1]
                /\ IF mem'[RefOf(bk[self])] < 0
                      THEN /\ errs' = (errs \cup {"RefUnderflow"})
                      ELSE /\ TRUE
                           /\ errs' = errs
                /\ IF mem'[RefOf(bk[self])] # 0
                      THEN /\ pc' = [pc EXCEPT ![self] = "bc_pw"]
                      ELSE /\ pc' = [pc EXCEPT ![self] = "bc_frk"]
                /\ UNCHANGED << sb, fsleep, wloc, spur, wkind, started, nspawn, 
                                wtid, wqready, func, cnt, queued, fin, fsnap, 
                                alive, pci, opx, iv, rv, hd, tl, old, cur, nx, 
                                cbc, isrt, en, fx, bk, cz, stack >>

bc_frk(self) == /\ pc[self] = "bc_frk"
                /\ IF alive[bk[self]] # "yes"
                      THEN /\ errs' = (errs \cup {"completion freed twice"})
                      ELSE /\ TRUE
                           /\ errs' = errs
                /\ alive' = [alive EXCEPT ![bk[self]] = "freed"]
                /\ acc' = Ev(self, "free", bk[self], "-", "-", "-")
                /\ pc' = [pc EXCEPT ![self] = "bc_pw"]
                /\ UNCHANGED << mem, sb, fsleep, wloc, spur, wkind, started, 
                                nspawn, wtid, wqready, func, cnt, queued, fin, 
                                fsnap, uaf, pci, opx, iv, rv, hd, tl, old, cur, 
                                nx, cbc, isrt, en, fx, bk, cz, stack >>

bc_pw(self) == /\ pc[self] = "bc_pw"
               /\ IF "putfirst" \in Mut /\ cz[self]
                     THEN /\ fx' = [fx EXCEPT ![self] = FutexOf(bk[self])]
                          /\ stack' = [stack EXCEPT ![self] = << [ procedure |->  "futex_wake_up",
                                                                   pc        |->  "bc_frw" ] >>
                                                               \o stack[self]]
                          /\ pc' = [pc EXCEPT ![self] = "fu_mb"]
                     ELSE /\ pc' = [pc EXCEPT ![self] = "bc_frw"]
                          /\ UNCHANGED << fx, stack >>
               /\ UNCHANGED << mem, sb, acc, fsleep, wloc, spur, wkind, 
                               started, nspawn, wtid, wqready, func, cnt, 
                               queued, fin, fsnap, alive, uaf, errs, pci, opx, 
                               iv, rv, hd, tl, old, cur, nx, cbc, isrt, en, bk, 
                               cz >>

bc_frw(self) == /\ pc[self] = "bc_frw"
                /\ IF alive[cur[self]] # "yes"
                      THEN /\ errs' = (errs \cup {"completion_work freed twice"})
                      ELSE /\ TRUE
                           /\ errs' = errs
                /\ alive' = [alive EXCEPT ![cur[self]] = "freed"]
                /\ acc' = Ev(self, "free", cur[self], "-", "-", "-")
                /\ bk' = [bk EXCEPT ![self] = NULL]
                /\ cz' = [cz EXCEPT ![self] = FALSE]
                /\ pc' = [pc EXCEPT ![self] = Head(stack[self]).pc]
                /\ stack' = [stack EXCEPT ![self] = Tail(stack[self])]
                /\ UNCHANGED << mem, sb, fsleep, wloc, spur, wkind, started, 
                                nspawn, wtid, wqready, func, cnt, queued, fin, 
                                fsnap, uaf, pci, opx, iv, rv, hd, tl, old, cur, 
                                nx, cbc, isrt, en, fx >>

wait_complete(self) == bc_sub(self) \/ bc_put(self) \/ bc_frk(self)
                          \/ bc_pw(self) \/ bc_frw(self)

fl_ref(self) == /\ pc[self] = "fl_ref"
                /\ IF TSO
                      THEN /\ Len(sb[self]) < SBMax
                           /\ sb' = [sb EXCEPT ![self] = Append(sb[self], <<(RefOf(bk[self])), 1>>)]
                           /\ mem' = mem
                      ELSE /\ mem' = [mem EXCEPT ![(RefOf(bk[self]))] = 1]
                           /\ sb' = sb
                /\ uaf' = (uaf \/ Dead((RefOf(bk[self]))))
                /\ acc' = Ev(self, "st", (RefOf(bk[self])), 1, "-", "-")
                /\ pc' = [pc EXCEPT ![self] = "qc_ld"]
                /\ UNCHANGED << fsleep, wloc, spur, wkind, started, nspawn, 
                                wtid, wqready, func, cnt, queued, fin, fsnap, 
                                alive, errs, pci, opx, iv, rv, hd, tl, old, 
                                cur, nx, cbc, isrt, en, fx, bk, cz, stack >>

qc_ld(self) == /\ pc[self] = "qc_ld"
               /\ IF "noref" \in Mut
                     THEN /\ pc' = [pc EXCEPT ![self] = "qc_inc"]
                          /\ UNCHANGED << acc, uaf, iv >>
                     ELSE /\ iv' = [iv EXCEPT ![self] = Rd(self, (RefOf(bk[self])))]
                          /\ uaf' = (uaf \/ Dead((RefOf(bk[self]))))
                          /\ acc' = Ev(self, "ld", (RefOf(bk[self])), "-", "-", Rd(self, (RefOf(bk[self]))))
                          /\ pc' = [pc EXCEPT ![self] = "qc_cas"]
               /\ UNCHANGED << mem, sb, fsleep, wloc, spur, wkind, started, 
                               nspawn, wtid, wqready, func, cnt, queued, fin, 
                               fsnap, alive, errs, pci, opx, rv, hd, tl, old, 
                               cur, nx, cbc, isrt, en, fx, bk, cz, stack >>

qc_cas(self) == /\ pc[self] = "qc_cas"
                /\ Drained(self)
                /\ rv' = [rv EXCEPT ![self] = mem[(RefOf(bk[self]))]]
                /\ uaf' = (uaf \/ Dead((RefOf(bk[self]))))
                /\ acc' = Ev(self, "cas", (RefOf(bk[self])), (iv[self]), (iv[self] + 1), mem[(RefOf(bk[self]))])
                /\ IF mem[(RefOf(bk[self]))] = (iv[self])
                      THEN /\ mem' = [mem EXCEPT ![(RefOf(bk[self]))] = iv[self] + 1]
                      ELSE /\ TRUE
                           /\ mem' = mem
                /\ IF rv'[self] # iv[self]
                      THEN /\ iv' = [iv EXCEPT ![self] = rv'[self]]
                           /\ pc' = [pc EXCEPT ![self] = "qc_cas"]
                      ELSE /\ iv' = [iv EXCEPT ![self] = 0]
                           /\ pc' = [pc EXCEPT ![self] = "qc_inc"]
                /\ UNCHANGED << sb, fsleep, wloc, spur, wkind, started, nspawn, 
                                wtid, wqready, func, cnt, queued, fin, fsnap, 
                                alive, errs, pci, opx, hd, tl, old, cur, nx, 
                                cbc, isrt, en, fx, bk, cz, stack >>

qc_inc(self) == /\ pc[self] = "qc_inc"
                /\ IF "nocount" \notin Mut /\ "latecount" \notin Mut
                      THEN /\ Drained(self)
                           /\ acc' = Ev(self, "inc", (CountOf(bk[self])), 1, "-", (mem[CountOf(bk[self])] + 1))
                           /\ uaf' = (uaf \/ Dead((CountOf(bk[self]))))
                           /\ mem' = [mem EXCEPT ![(CountOf(bk[self]))] = mem[CountOf(bk[self])] + 1]
                      ELSE /\ TRUE
                           /\ UNCHANGED << mem, acc, uaf >>
                /\ pc' = [pc EXCEPT ![self] = "qc_q"]
                /\ UNCHANGED << sb, fsleep, wloc, spur, wkind, started, nspawn, 
                                wtid, wqready, func, cnt, queued, fin, fsnap, 
                                alive, errs, pci, opx, iv, rv, hd, tl, old, 
                                cur, nx, cbc, isrt, en, fx, bk, cz, stack >>

qc_q(self) == /\ pc[self] = "qc_q"
              /\ en' = [en EXCEPT ![self] = CW(bk[self])]
              /\ func' = [func EXCEPT ![CW(bk[self])] = "wait_complete"]
              /\ rv' = [rv EXCEPT ![self] = 0]
              /\ stack' = [stack EXCEPT ![self] = << [ procedure |->  "queue_work",
                                                       pc        |->  "wc_dec" ] >>
                                                   \o stack[self]]
              /\ pc' = [pc EXCEPT ![self] = "e_mb"]
              /\ UNCHANGED << mem, sb, acc, fsleep, wloc, spur, wkind, started, 
                              nspawn, wtid, wqready, cnt, queued, fin, fsnap, 
                              alive, uaf, errs, pci, opx, iv, hd, tl, old, cur, 
                              nx, cbc, isrt, fx, bk, cz >>

wc_dec(self) == /\ pc[self] = "wc_dec"
                /\ IF "latecount" \in Mut /\ ~cz[self]
                      THEN /\ Drained(self)
                           /\ acc' = Ev(self, "inc", (CountOf(bk[self])), 1, "-", (mem[CountOf(bk[self])] + 1))
                           /\ uaf' = (uaf \/ Dead((CountOf(bk[self]))))
                           /\ mem' = [mem EXCEPT ![(CountOf(bk[self]))] = mem[CountOf(bk[self])] + 1]
                           /\ cz' = [cz EXCEPT ![self] = TRUE]
                           /\ pc' = [pc EXCEPT ![self] = "wc_dec"]
                           /\ iv' = iv
                      ELSE /\ IF "countfirst" \in Mut
                                 THEN /\ pc' = [pc EXCEPT ![self] = "wc_ldc"]
                                      /\ UNCHANGED << mem, acc, uaf, iv >>
                                 ELSE /\ IF "plaindec" \in Mut
                                            THEN /\ iv' = [iv EXCEPT ![self] = Rd(self, (FutexOf(bk[self])))]
                                                 /\ uaf' = (uaf \/ Dead((FutexOf(bk[self]))))
                                                 /\ acc' = Ev(self, "ld", (FutexOf(bk[self])), "-", "-", Rd(self, (FutexOf(bk[self]))))
                                                 /\ pc' = [pc EXCEPT ![self] = "wc_dst"]
                                                 /\ mem' = mem
                                            ELSE /\ Drained(self)
                                                 /\ acc' = Ev(self, "dec", (FutexOf(bk[self])), 1, "-", (mem[FutexOf(bk[self])] - 1))
                                                 /\ uaf' = (uaf \/ Dead((FutexOf(bk[self]))))
                                                 /\ mem' = [mem EXCEPT ![(FutexOf(bk[self]))] = mem[FutexOf(bk[self])] - 1]
                                                 /\ pc' = [pc EXCEPT ![self] = "wc_mb"]
                                                 /\ iv' = iv
                           /\ cz' = cz
                /\ UNCHANGED << sb, fsleep, wloc, spur, wkind, started, nspawn, 
                                wtid, wqready, func, cnt, queued, fin, fsnap, 
                                alive, errs, pci, opx, rv, hd, tl, old, cur, 
                                nx, cbc, isrt, en, fx, bk, stack >>

wc_dst(self) == /\ pc[self] = "wc_dst"
                /\ IF TSO
                      THEN /\ Len(sb[self]) < SBMax
                           /\ sb' = [sb EXCEPT ![self] = Append(sb[self], <<(FutexOf(bk[self])), (iv[self] - 1)>>)]
                           /\ mem' = mem
                      ELSE /\ mem' = [mem EXCEPT ![(FutexOf(bk[self]))] = iv[self] - 1]
                           /\ sb' = sb
                /\ uaf' = (uaf \/ Dead((FutexOf(bk[self]))))
                /\ acc' = Ev(self, "st", (FutexOf(bk[self])), (iv[self] - 1), "-", "-")
                /\ iv' = [iv EXCEPT ![self] = 0]
                /\ pc' = [pc EXCEPT ![self] = "wc_mb"]
                /\ UNCHANGED << fsleep, wloc, spur, wkind, started, nspawn, 
                                wtid, wqready, func, cnt, queued, fin, fsnap, 
                                alive, errs, pci, opx, rv, hd, tl, old, cur, 
                                nx, cbc, isrt, en, fx, bk, cz, stack >>

wc_mb(self) == /\ pc[self] = "wc_mb"
               /\ IF "nombwait" \notin Mut
                     THEN /\ Drained(self)
                          /\ acc' = Ev(self, "mb", "-", "-", "-", "-")
                     ELSE /\ TRUE
                          /\ acc' = acc
               /\ pc' = [pc EXCEPT ![self] = "wc_ldc"]
               /\ UNCHANGED << mem, sb, fsleep, wloc, spur, wkind, started, 
                               nspawn, wtid, wqready, func, cnt, queued, fin, 
                               fsnap, alive, uaf, errs, pci, opx, iv, rv, hd, 
                               tl, old, cur, nx, cbc, isrt, en, fx, bk, cz, 
                               stack >>

wc_ldc(self) == /\ pc[self] = "wc_ldc"
                /\ uaf' = (uaf \/ Dead((CountOf(bk[self]))))
                /\ acc' = Ev(self, "ld", (CountOf(bk[self])), "-", "-", Rd(self, (CountOf(bk[self]))))
                /\ IF Rd(self, CountOf(bk[self])) = 0
                      THEN /\ pc' = [pc EXCEPT ![self] = "dc_put"]
                      ELSE /\ IF "countfirst" \in Mut
                                 THEN /\ pc' = [pc EXCEPT ![self] = "wc_cfd"]
                                 ELSE /\ pc' = [pc EXCEPT ![self] = "wc_wait"]
                /\ UNCHANGED << mem, sb, fsleep, wloc, spur, wkind, started, 
                                nspawn, wtid, wqready, func, cnt, queued, fin, 
                                fsnap, alive, errs, pci, opx, iv, rv, hd, tl, 
                                old, cur, nx, cbc, isrt, en, fx, bk, cz, stack >>

wc_cfd(self) == /\ pc[self] = "wc_cfd"
                /\ Drained(self)
                /\ acc' = Ev(self, "dec", (FutexOf(bk[self])), 1, "-", (mem[FutexOf(bk[self])] - 1))
                /\ uaf' = (uaf \/ Dead((FutexOf(bk[self]))))
                /\ mem' = [mem EXCEPT ![(FutexOf(bk[self]))] = mem[FutexOf(bk[self])] - 1]
                /\ pc' = [pc EXCEPT ![self] = "wc_wait"]
                /\ UNCHANGED << sb, fsleep, wloc, spur, wkind, started, nspawn, 
                                wtid, wqready, func, cnt, queued, fin, fsnap, 
                                alive, errs, pci, opx, iv, rv, hd, tl, old, 
                                cur, nx, cbc, isrt, en, fx, bk, cz, stack >>

wc_wait(self) == /\ pc[self] = "wc_wait"
                 /\ fx' = [fx EXCEPT ![self] = FutexOf(bk[self])]
                 /\ stack' = [stack EXCEPT ![self] = << [ procedure |->  "futex_wait",
                                                          pc        |->  "wc_dec" ] >>
                                                      \o stack[self]]
                 /\ pc' = [pc EXCEPT ![self] = "fw_mb"]
                 /\ UNCHANGED << mem, sb, acc, fsleep, wloc, spur, wkind, 
                                 started, nspawn, wtid, wqready, func, cnt, 
                                 queued, fin, fsnap, alive, uaf, errs, pci, 
                                 opx, iv, rv, hd, tl, old, cur, nx, cbc, isrt, 
                                 en, bk, cz >>

dc_put(self) == /\ pc[self] = "dc_put"
                /\ Drained(self)
                /\ acc' = Ev(self, "addret", (RefOf(bk[self])), (-1), "-", (mem[RefOf(bk[self])] - 1))
                /\ uaf' = (uaf \/ Dead((RefOf(bk[self]))))
                /\ mem' = [mem EXCEPT ![(RefOf(bk[self]))] = mem[RefOf(bk[self])] - 1]
                /\ cz' = [cz EXCEPT ![self] = FALSE]
                /\ IF mem'[RefOf(bk[self])] < 0
                      THEN /\ errs' = (errs \cup {"RefUnderflow"})
                      ELSE /\ TRUE
                           /\ errs' = errs
                /\ IF mem'[RefOf(bk[self])] # 0
                      THEN /\ bk' = [bk EXCEPT ![self] = NULL]
                           /\ pc' = [pc EXCEPT ![self] = Head(stack[self]).pc]
                           /\ stack' = [stack EXCEPT ![self] = Tail(stack[self])]
                      ELSE /\ pc' = [pc EXCEPT ![self] = "dc_free"]
                           /\ UNCHANGED << bk, stack >>
                /\ UNCHANGED << sb, fsleep, wloc, spur, wkind, started, nspawn, 
                                wtid, wqready, func, cnt, queued, fin, fsnap, 
                                alive, pci, opx, iv, rv, hd, tl, old, cur, nx, 
                                cbc, isrt, en, fx >>

dc_free(self) == /\ pc[self] = "dc_free"
                 /\ IF alive[bk[self]] # "yes"
                       THEN /\ errs' = (errs \cup {"completion freed twice"})
                       ELSE /\ TRUE
                            /\ errs' = errs
                 /\ alive' = [alive EXCEPT ![bk[self]] = "freed"]
                 /\ acc' = Ev(self, "free", bk[self], "-", "-", "-")
                 /\ bk' = [bk EXCEPT ![self] = NULL]
                 /\ pc' = [pc EXCEPT ![self] = Head(stack[self]).pc]
                 /\ stack' = [stack EXCEPT ![self] = Tail(stack[self])]
                 /\ UNCHANGED << mem, sb, fsleep, wloc, spur, wkind, started, 
                                 nspawn, wtid, wqready, func, cnt, queued, fin, 
                                 fsnap, uaf, pci, opx, iv, rv, hd, tl, old, 
                                 cur, nx, cbc, isrt, en, fx, cz >>

flush(self) == fl_ref(self) \/ qc_ld(self) \/ qc_cas(self) \/ qc_inc(self)
                  \/ qc_q(self) \/ wc_dec(self) \/ wc_dst(self)
                  \/ wc_mb(self) \/ wc_ldc(self) \/ wc_cfd(self)
                  \/ wc_wait(self) \/ dc_put(self) \/ dc_free(self)

pa_or(self) == /\ pc[self] = "pa_or"
               /\ Drained(self)
               /\ acc' = Ev(self, "or", FL, PAUSE, "-", (SetB(mem[FL], PAUSE)))
               /\ uaf' = (uaf \/ Dead(FL))
               /\ mem' = [mem EXCEPT ![FL] = SetB(mem[FL], PAUSE)]
               /\ IF "nopausewake" \in Mut
                     THEN /\ pc' = [pc EXCEPT ![self] = "pa_wait"]
                          /\ stack' = stack
                     ELSE /\ stack' = [stack EXCEPT ![self] = << [ procedure |->  "wake_worker",
                                                                   pc        |->  "pa_wait" ] >>
                                                               \o stack[self]]
                          /\ pc' = [pc EXCEPT ![self] = "wk_fl"]
               /\ UNCHANGED << sb, fsleep, wloc, spur, wkind, started, nspawn, 
                               wtid, wqready, func, cnt, queued, fin, fsnap, 
                               alive, errs, pci, opx, iv, rv, hd, tl, old, cur, 
                               nx, cbc, isrt, en, fx, bk, cz >>

pa_wait(self) == /\ pc[self] = "pa_wait"
                 /\ uaf' = (uaf \/ Dead(FL))
                 /\ acc' = Ev(self, "ld", FL, "-", "-", Rd(self, FL))
                 /\ IF ~Has(Rd(self, FL), PAUSED)
                       THEN /\ pc' = [pc EXCEPT ![self] = "pa_wait"]
                       ELSE /\ pc' = [pc EXCEPT ![self] = "pa_ret"]
                 /\ UNCHANGED << mem, sb, fsleep, wloc, spur, wkind, started, 
                                 nspawn, wtid, wqready, func, cnt, queued, fin, 
                                 fsnap, alive, errs, pci, opx, iv, rv, hd, tl, 
                                 old, cur, nx, cbc, isrt, en, fx, bk, cz, 
                                 stack >>

pa_ret(self) == /\ pc[self] = "pa_ret"
                /\ pc' = [pc EXCEPT ![self] = Head(stack[self]).pc]
                /\ stack' = [stack EXCEPT ![self] = Tail(stack[self])]
                /\ UNCHANGED << mem, sb, acc, fsleep, wloc, spur, wkind, 
                                started, nspawn, wtid, wqready, func, cnt, 
                                queued, fin, fsnap, alive, uaf, errs, pci, opx, 
                                iv, rv, hd, tl, old, cur, nx, cbc, isrt, en, 
                                fx, bk, cz >>

pause(self) == pa_or(self) \/ pa_wait(self) \/ pa_ret(self)

rs_and(self) == /\ pc[self] = "rs_and"
                /\ Drained(self)
                /\ acc' = Ev(self, "and", FL, "xfffffffb", "-", (ClrB(mem[FL], PAUSE)))
                /\ uaf' = (uaf \/ Dead(FL))
                /\ mem' = [mem EXCEPT ![FL] = ClrB(mem[FL], PAUSE)]
                /\ pc' = [pc EXCEPT ![self] = "rs_wait"]
                /\ UNCHANGED << sb, fsleep, wloc, spur, wkind, started, nspawn, 
                                wtid, wqready, func, cnt, queued, fin, fsnap, 
                                alive, errs, pci, opx, iv, rv, hd, tl, old, 
                                cur, nx, cbc, isrt, en, fx, bk, cz, stack >>

rs_wait(self) == /\ pc[self] = "rs_wait"
                 /\ uaf' = (uaf \/ Dead(FL))
                 /\ acc' = Ev(self, "ld", FL, "-", "-", Rd(self, FL))
                 /\ IF Has(Rd(self, FL), PAUSED)
                       THEN /\ pc' = [pc EXCEPT ![self] = "rs_wait"]
                       ELSE /\ pc' = [pc EXCEPT ![self] = "rs_ret"]
                 /\ UNCHANGED << mem, sb, fsleep, wloc, spur, wkind, started, 
                                 nspawn, wtid, wqready, func, cnt, queued, fin, 
                                 fsnap, alive, errs, pci, opx, iv, rv, hd, tl, 
                                 old, cur, nx, cbc, isrt, en, fx, bk, cz, 
                                 stack >>

rs_ret(self) == /\ pc[self] = "rs_ret"
                /\ pc' = [pc EXCEPT ![self] = Head(stack[self]).pc]
                /\ stack' = [stack EXCEPT ![self] = Tail(stack[self])]
                /\ UNCHANGED << mem, sb, acc, fsleep, wloc, spur, wkind, 
                                started, nspawn, wtid, wqready, func, cnt, 
                                queued, fin, fsnap, alive, uaf, errs, pci, opx, 
                                iv, rv, hd, tl, old, cur, nx, cbc, isrt, en, 
                                fx, bk, cz >>

resume(self) == rs_and(self) \/ rs_wait(self) \/ rs_ret(self)

cr_init(self) == /\ pc[self] = "cr_init"
                 /\ IF alive[WQ] = "yes"
                       THEN /\ errs' = (errs \cup {"SCENARIO second work queue"})
                       ELSE /\ TRUE
                            /\ errs' = errs
                 /\ alive' = [alive EXCEPT ![WQ] = "yes"]
                 /\ mem' = [l \in Locs |-> IF l \in WqLocs THEN WqInit(l) ELSE mem[l]]
                 /\ pc' = [pc EXCEPT ![self] = "cr_mb"]
                 /\ UNCHANGED << sb, acc, fsleep, wloc, spur, wkind, started, 
                                 nspawn, wtid, wqready, func, cnt, queued, fin, 
                                 fsnap, uaf, pci, opx, iv, rv, hd, tl, old, 
                                 cur, nx, cbc, isrt, en, fx, bk, cz, stack >>

cr_mb(self) == /\ pc[self] = "cr_mb"
               /\ Drained(self)
               /\ acc' = Ev(self, "mb", "-", "-", "-", "-")
               /\ pc' = [pc EXCEPT ![self] = "cr_spawn"]
               /\ UNCHANGED << mem, sb, fsleep, wloc, spur, wkind, started, 
                               nspawn, wtid, wqready, func, cnt, queued, fin, 
                               fsnap, alive, uaf, errs, pci, opx, iv, rv, hd, 
                               tl, old, cur, nx, cbc, isrt, en, fx, bk, cz, 
                               stack >>

cr_spawn(self) == /\ pc[self] = "cr_spawn"
                  /\ Drained(self) /\ nspawn < NCreate
                  /\ acc' = Ev(self, "spawn", HName(nspawn + 1), "-", "-", "-")
                  /\ started' = [started EXCEPT ![HName(nspawn + 1)] = TRUE]
                  /\ wtid' = HName(nspawn + 1)
                  /\ nspawn' = nspawn + 1
                  /\ pc' = [pc EXCEPT ![self] = Head(stack[self]).pc]
                  /\ stack' = [stack EXCEPT ![self] = Tail(stack[self])]
                  /\ UNCHANGED << mem, sb, fsleep, wloc, spur, wkind, wqready, 
                                  func, cnt, queued, fin, fsnap, alive, uaf, 
                                  errs, pci, opx, iv, rv, hd, tl, old, cur, nx, 
                                  cbc, isrt, en, fx, bk, cz >>

create(self) == cr_init(self) \/ cr_mb(self) \/ cr_spawn(self)

ds_or(self) == /\ pc[self] = "ds_or"
               /\ Drained(self)
               /\ acc' = Ev(self, "or", FL, STOP, "-", (SetB(mem[FL], STOP)))
               /\ uaf' = (uaf \/ Dead(FL))
               /\ mem' = [mem EXCEPT ![FL] = SetB(mem[FL], STOP)]
               /\ IF "nostopwake" \in Mut
                     THEN /\ pc' = [pc EXCEPT ![self] = "ds_join"]
                          /\ stack' = stack
                     ELSE /\ stack' = [stack EXCEPT ![self] = << [ procedure |->  "wake_worker",
                                                                   pc        |->  "ds_join" ] >>
                                                               \o stack[self]]
                          /\ pc' = [pc EXCEPT ![self] = "wk_fl"]
               /\ UNCHANGED << sb, fsleep, wloc, spur, wkind, started, nspawn, 
                               wtid, wqready, func, cnt, queued, fin, fsnap, 
                               alive, errs, pci, opx, iv, rv, hd, tl, old, cur, 
                               nx, cbc, isrt, en, fx, bk, cz >>

ds_join(self) == /\ pc[self] = "ds_join"
                 /\ "nojoin" \in Mut \/ pc[wtid] = "Done"
                 /\ acc' = Ev(self, "join", wtid, "-", "-", "-")
                 /\ pc' = [pc EXCEPT ![self] = "ds_clr"]
                 /\ UNCHANGED << mem, sb, fsleep, wloc, spur, wkind, started, 
                                 nspawn, wtid, wqready, func, cnt, queued, fin, 
                                 fsnap, alive, uaf, errs, pci, opx, iv, rv, hd, 
                                 tl, old, cur, nx, cbc, isrt, en, fx, bk, cz, 
                                 stack >>

ds_clr(self) == /\ pc[self] = "ds_clr"
                /\ IF TSO /\ ~Tracing
                      THEN /\ Len(sb[self]) < SBMax
                           /\ sb' = [sb EXCEPT ![self] = Append(sb[self], <<FL, (ClrB(Rd(self, FL), STOP))>>)]
                           /\ mem' = mem
                      ELSE /\ Drained(self)
                           /\ mem' = [mem EXCEPT ![FL] = ClrB(Rd(self, FL), STOP)]
                           /\ sb' = sb
                /\ uaf' = (uaf \/ Dead(FL))
                /\ wtid' = "-"
                /\ pc' = [pc EXCEPT ![self] = "ds_e1"]
                /\ UNCHANGED << acc, fsleep, wloc, spur, wkind, started, 
                                nspawn, wqready, func, cnt, queued, fin, fsnap, 
                                alive, errs, pci, opx, iv, rv, hd, tl, old, 
                                cur, nx, cbc, isrt, en, fx, bk, cz, stack >>

ds_e1(self) == /\ pc[self] = "ds_e1"
               /\ uaf' = (uaf \/ Dead(HN))
               /\ acc' = Ev(self, "ld", HN, "-", "-", Rd(self, HN))
               /\ IF Rd(self, HN) # NULL
                     THEN /\ errs' = (errs \cup {"DestroyNonEmpty"})
                          /\ pc' = [pc EXCEPT ![self] = "ds_free"]
                     ELSE /\ pc' = [pc EXCEPT ![self] = "ds_e2"]
                          /\ errs' = errs
               /\ UNCHANGED << mem, sb, fsleep, wloc, spur, wkind, started, 
                               nspawn, wtid, wqready, func, cnt, queued, fin, 
                               fsnap, alive, pci, opx, iv, rv, hd, tl, old, 
                               cur, nx, cbc, isrt, en, fx, bk, cz, stack >>

ds_e2(self) == /\ pc[self] = "ds_e2"
               /\ uaf' = (uaf \/ Dead(TL))
               /\ acc' = Ev(self, "ld", TL, "-", "-", Rd(self, TL))
               /\ IF Rd(self, TL) # HD
                     THEN /\ errs' = (errs \cup {"DestroyNonEmpty"})
                     ELSE /\ TRUE
                          /\ errs' = errs
               /\ pc' = [pc EXCEPT ![self] = "ds_free"]
               /\ UNCHANGED << mem, sb, fsleep, wloc, spur, wkind, started, 
                               nspawn, wtid, wqready, func, cnt, queued, fin, 
                               fsnap, alive, pci, opx, iv, rv, hd, tl, old, 
                               cur, nx, cbc, isrt, en, fx, bk, cz, stack >>

ds_free(self) == /\ pc[self] = "ds_free"
                 /\ errs' = (errs \cup (IF alive[WQ] # "yes" THEN {"workqueue freed twice"} ELSE {})
                                 \cup (IF pc[HName(nspawn)] # "Done" THEN {"WorkerAliveAtFree"} ELSE {})
                                 \cup (IF Rd(self, QL) # 0 THEN {"QlenAtDestroy"} ELSE {}))
                 /\ alive' = [alive EXCEPT ![WQ] = "freed"]
                 /\ acc' = Ev(self, "free", WQ, "-", "-", "-")
                 /\ pc' = [pc EXCEPT ![self] = Head(stack[self]).pc]
                 /\ stack' = [stack EXCEPT ![self] = Tail(stack[self])]
                 /\ UNCHANGED << mem, sb, fsleep, wloc, spur, wkind, started, 
                                 nspawn, wtid, wqready, func, cnt, queued, fin, 
                                 fsnap, uaf, pci, opx, iv, rv, hd, tl, old, 
                                 cur, nx, cbc, isrt, en, fx, bk, cz >>

destroy(self) == ds_or(self) \/ ds_join(self) \/ ds_clr(self)
                    \/ ds_e1(self) \/ ds_e2(self) \/ ds_free(self)

fl(self) == /\ pc[self] = "fl"
            /\ sb[FlOf[self]] # <<>>
            /\ /\ acc' = IF Tracing THEN [k |-> acc.k + 1, t |-> FlOf[self], op |-> "flush", var |-> Head(sb[FlOf[self]])[1],
                                        a |-> Head(sb[FlOf[self]])[2], b |-> "-", r |-> "-"] ELSE acc
               /\ mem' = [mem EXCEPT ![Head(sb[FlOf[self]])[1]] = Head(sb[FlOf[self]])[2]]
               /\ sb' = [sb EXCEPT ![FlOf[self]] = Tail(sb[FlOf[self]])]
            /\ pc' = [pc EXCEPT ![self] = "fl"]
            /\ UNCHANGED << fsleep, wloc, spur, wkind, started, nspawn, wtid, 
                            wqready, func, cnt, queued, fin, fsnap, alive, uaf, 
                            errs, pci, opx, iv, rv, hd, tl, old, cur, nx, cbc, 
                            isrt, en, fx, bk, cz, stack >>

flusher(self) == fl(self)

sw(self) == /\ pc[self] = "sw"
            /\ spur > 0
            /\ \E p \in fsleep:
                 \E k \in {"SPURIOUS", "EINTR"}:
                   /\ fsleep' = fsleep \ {p}
                   /\ wkind' = [wkind EXCEPT ![p] = k]
                   /\ spur' = spur - 1
            /\ pc' = [pc EXCEPT ![self] = "sw"]
            /\ UNCHANGED << mem, sb, acc, wloc, started, nspawn, wtid, wqready, 
                            func, cnt, queued, fin, fsnap, alive, uaf, errs, 
                            pci, opx, iv, rv, hd, tl, old, cur, nx, cbc, isrt, 
                            en, fx, bk, cz, stack >>

spurw(self) == sw(self)

w_idle(self) == /\ pc[self] = "w_idle"
                /\ started[self]
                /\ pc' = [pc EXCEPT ![self] = "wt_flags"]
                /\ UNCHANGED << mem, sb, acc, fsleep, wloc, spur, wkind, 
                                started, nspawn, wtid, wqready, func, cnt, 
                                queued, fin, fsnap, alive, uaf, errs, pci, opx, 
                                iv, rv, hd, tl, old, cur, nx, cbc, isrt, en, 
                                fx, bk, cz, stack >>

wt_flags(self) == /\ pc[self] = "wt_flags"
                  /\ uaf' = (uaf \/ Dead(FL))
                  /\ acc' = Ev(self, "ld", FL, "-", "-", Rd(self, FL))
                  /\ isrt' = [isrt EXCEPT ![self] = Has(Rd(self, FL), RT)]
                  /\ IF Has(Rd(self, FL), RT) \/ "latedec" \in Mut
                        THEN /\ pc' = [pc EXCEPT ![self] = "wt_top"]
                        ELSE /\ pc' = [pc EXCEPT ![self] = "wt_dec0"]
                  /\ UNCHANGED << mem, sb, fsleep, wloc, spur, wkind, started, 
                                  nspawn, wtid, wqready, func, cnt, queued, 
                                  fin, fsnap, alive, errs, pci, opx, iv, rv, 
                                  hd, tl, old, cur, nx, cbc, en, fx, bk, cz, 
                                  stack >>

wt_dec0(self) == /\ pc[self] = "wt_dec0"
                 /\ Drained(self)
                 /\ acc' = Ev(self, "dec", FX, 1, "-", (mem[FX] - 1))
                 /\ uaf' = (uaf \/ Dead(FX))
                 /\ mem' = [mem EXCEPT ![FX] = mem[FX] - 1]
                 /\ pc' = [pc EXCEPT ![self] = "wt_mb0"]
                 /\ UNCHANGED << sb, fsleep, wloc, spur, wkind, started, 
                                 nspawn, wtid, wqready, func, cnt, queued, fin, 
                                 fsnap, alive, errs, pci, opx, iv, rv, hd, tl, 
                                 old, cur, nx, cbc, isrt, en, fx, bk, cz, 
                                 stack >>

wt_mb0(self) == /\ pc[self] = "wt_mb0"
                /\ Drained(self)
                /\ acc' = Ev(self, "mb", "-", "-", "-", "-")
                /\ pc' = [pc EXCEPT ![self] = "wt_top"]
                /\ UNCHANGED << mem, sb, fsleep, wloc, spur, wkind, started, 
                                nspawn, wtid, wqready, func, cnt, queued, fin, 
                                fsnap, alive, uaf, errs, pci, opx, iv, rv, hd, 
                                tl, old, cur, nx, cbc, isrt, en, fx, bk, cz, 
                                stack >>

wt_top(self) == /\ pc[self] = "wt_top"
                /\ uaf' = (uaf \/ Dead(FL))
                /\ acc' = Ev(self, "ld", FL, "-", "-", Rd(self, FL))
                /\ IF ~Has(Rd(self, FL), PAUSE)
                      THEN /\ IF "stopfirst" \in Mut
                                 THEN /\ pc' = [pc EXCEPT ![self] = "wm_stop"]
                                 ELSE /\ pc' = [pc EXCEPT ![self] = "s_e1"]
                      ELSE /\ pc' = [pc EXCEPT ![self] = "wp_or"]
                /\ UNCHANGED << mem, sb, fsleep, wloc, spur, wkind, started, 
                                nspawn, wtid, wqready, func, cnt, queued, fin, 
                                fsnap, alive, errs, pci, opx, iv, rv, hd, tl, 
                                old, cur, nx, cbc, isrt, en, fx, bk, cz, stack >>

wp_or(self) == /\ pc[self] = "wp_or"
               /\ Drained(self)
               /\ acc' = Ev(self, "or", FL, PAUSED, "-", (SetB(mem[FL], PAUSED)))
               /\ uaf' = (uaf \/ Dead(FL))
               /\ mem' = [mem EXCEPT ![FL] = SetB(mem[FL], PAUSED)]
               /\ pc' = [pc EXCEPT ![self] = "wp_wait"]
               /\ UNCHANGED << sb, fsleep, wloc, spur, wkind, started, nspawn, 
                               wtid, wqready, func, cnt, queued, fin, fsnap, 
                               alive, errs, pci, opx, iv, rv, hd, tl, old, cur, 
                               nx, cbc, isrt, en, fx, bk, cz, stack >>

wp_wait(self) == /\ pc[self] = "wp_wait"
                 /\ uaf' = (uaf \/ Dead(FL))
                 /\ acc' = Ev(self, "ld", FL, "-", "-", Rd(self, FL))
                 /\ IF Has(Rd(self, FL), PAUSE)
                       THEN /\ pc' = [pc EXCEPT ![self] = "wp_wait"]
                       ELSE /\ pc' = [pc EXCEPT ![self] = "wp_and"]
                 /\ UNCHANGED << mem, sb, fsleep, wloc, spur, wkind, started, 
                                 nspawn, wtid, wqready, func, cnt, queued, fin, 
                                 fsnap, alive, errs, pci, opx, iv, rv, hd, tl, 
                                 old, cur, nx, cbc, isrt, en, fx, bk, cz, 
                                 stack >>

wp_and(self) == /\ pc[self] = "wp_and"
                /\ Drained(self)
                /\ acc' = Ev(self, "and", FL, "xfffffff7", "-", (ClrB(mem[FL], PAUSED)))
                /\ uaf' = (uaf \/ Dead(FL))
                /\ mem' = [mem EXCEPT ![FL] = ClrB(mem[FL], PAUSED)]
                /\ IF "stopfirst" \notin Mut
                      THEN /\ pc' = [pc EXCEPT ![self] = "s_e1"]
                      ELSE /\ pc' = [pc EXCEPT ![self] = "wm_stop"]
                /\ UNCHANGED << sb, fsleep, wloc, spur, wkind, started, nspawn, 
                                wtid, wqready, func, cnt, queued, fin, fsnap, 
                                alive, errs, pci, opx, iv, rv, hd, tl, old, 
                                cur, nx, cbc, isrt, en, fx, bk, cz, stack >>

wm_stop(self) == /\ pc[self] = "wm_stop"
                 /\ uaf' = (uaf \/ Dead(FL))
                 /\ acc' = Ev(self, "ld", FL, "-", "-", Rd(self, FL))
                 /\ IF Has(Rd(self, FL), STOP)
                       THEN /\ IF isrt[self]
                                  THEN /\ pc' = [pc EXCEPT ![self] = "wt_exit"]
                                  ELSE /\ pc' = [pc EXCEPT ![self] = "wx_mb"]
                       ELSE /\ pc' = [pc EXCEPT ![self] = "s_e1"]
                 /\ UNCHANGED << mem, sb, fsleep, wloc, spur, wkind, started, 
                                 nspawn, wtid, wqready, func, cnt, queued, fin, 
                                 fsnap, alive, errs, pci, opx, iv, rv, hd, tl, 
                                 old, cur, nx, cbc, isrt, en, fx, bk, cz, 
                                 stack >>

s_e1(self) == /\ pc[self] = "s_e1"
              /\ uaf' = (uaf \/ Dead(HN))
              /\ acc' = Ev(self, "ld", HN, "-", "-", Rd(self, HN))
              /\ IF Rd(self, HN) # NULL
                    THEN /\ pc' = [pc EXCEPT ![self] = "s_xh"]
                    ELSE /\ pc' = [pc EXCEPT ![self] = "s_e2"]
              /\ UNCHANGED << mem, sb, fsleep, wloc, spur, wkind, started, 
                              nspawn, wtid, wqready, func, cnt, queued, fin, 
                              fsnap, alive, errs, pci, opx, iv, rv, hd, tl, 
                              old, cur, nx, cbc, isrt, en, fx, bk, cz, stack >>

s_e2(self) == /\ pc[self] = "s_e2"
              /\ uaf' = (uaf \/ Dead(TL))
              /\ acc' = Ev(self, "ld", TL, "-", "-", Rd(self, TL))
              /\ IF Rd(self, TL) = HD
                    THEN /\ pc' = [pc EXCEPT ![self] = "wt_stop"]
                    ELSE /\ pc' = [pc EXCEPT ![self] = "s_xh"]
              /\ UNCHANGED << mem, sb, fsleep, wloc, spur, wkind, started, 
                              nspawn, wtid, wqready, func, cnt, queued, fin, 
                              fsnap, alive, errs, pci, opx, iv, rv, hd, tl, 
                              old, cur, nx, cbc, isrt, en, fx, bk, cz, stack >>

s_xh(self) == /\ pc[self] = "s_xh"
              /\ Drained(self)
              /\ hd' = [hd EXCEPT ![self] = mem[HN]]
              /\ mem' = [mem EXCEPT ![HN] = NULL]
              /\ uaf' = (uaf \/ Dead(HN))
              /\ acc' = Ev(self, "xchg", HN, NULL, "-", (hd'[self]))
              /\ IF hd'[self] # NULL
                    THEN /\ pc' = [pc EXCEPT ![self] = "s_mb"]
                    ELSE /\ pc' = [pc EXCEPT ![self] = "s_lt"]
              /\ UNCHANGED << sb, fsleep, wloc, spur, wkind, started, nspawn, 
                              wtid, wqready, func, cnt, queued, fin, fsnap, 
                              alive, errs, pci, opx, iv, rv, tl, old, cur, nx, 
                              cbc, isrt, en, fx, bk, cz, stack >>

s_lt(self) == /\ pc[self] = "s_lt"
              /\ uaf' = (uaf \/ Dead(TL))
              /\ acc' = Ev(self, "ld", TL, "-", "-", Rd(self, TL))
              /\ IF Rd(self, TL) = HD
                    THEN /\ pc' = [pc EXCEPT ![self] = "wt_stop"]
                    ELSE /\ pc' = [pc EXCEPT ![self] = "s_xh"]
              /\ UNCHANGED << mem, sb, fsleep, wloc, spur, wkind, started, 
                              nspawn, wtid, wqready, func, cnt, queued, fin, 
                              fsnap, alive, errs, pci, opx, iv, rv, hd, tl, 
                              old, cur, nx, cbc, isrt, en, fx, bk, cz, stack >>

s_mb(self) == /\ pc[self] = "s_mb"
              /\ Drained(self)
              /\ acc' = Ev(self, "mb", "-", "-", "-", "-")
              /\ pc' = [pc EXCEPT ![self] = "s_xt"]
              /\ UNCHANGED << mem, sb, fsleep, wloc, spur, wkind, started, 
                              nspawn, wtid, wqready, func, cnt, queued, fin, 
                              fsnap, alive, uaf, errs, pci, opx, iv, rv, hd, 
                              tl, old, cur, nx, cbc, isrt, en, fx, bk, cz, 
                              stack >>

s_xt(self) == /\ pc[self] = "s_xt"
              /\ Drained(self)
              /\ tl' = [tl EXCEPT ![self] = mem[TL]]
              /\ mem' = [mem EXCEPT ![TL] = HD]
              /\ uaf' = (uaf \/ Dead(TL))
              /\ acc' = Ev(self, "xchg", TL, HD, "-", (tl'[self]))
              /\ cur' = [cur EXCEPT ![self] = hd[self]]
              /\ cbc' = [cbc EXCEPT ![self] = 0]
              /\ IF "unsafeiter" \in Mut
                    THEN /\ pc' = [pc EXCEPT ![self] = "it_inv"]
                    ELSE /\ pc' = [pc EXCEPT ![self] = "it_ld"]
              /\ UNCHANGED << sb, fsleep, wloc, spur, wkind, started, nspawn, 
                              wtid, wqready, func, cnt, queued, fin, fsnap, 
                              alive, errs, pci, opx, iv, rv, hd, old, nx, isrt, 
                              en, fx, bk, cz, stack >>

it_ld(self) == /\ pc[self] = "it_ld"
               /\ nx' = [nx EXCEPT ![self] = Rd(self, (NextOf(cur[self])))]
               /\ uaf' = (uaf \/ Dead((NextOf(cur[self]))))
               /\ acc' = Ev(self, "ld", (NextOf(cur[self])), "-", "-", Rd(self, (NextOf(cur[self]))))
               /\ IF nx'[self] = NULL /\ cur[self] # tl[self]
                     THEN /\ pc' = [pc EXCEPT ![self] = "it_ld"]
                     ELSE /\ IF "unsafeiter" \in Mut
                                THEN /\ pc' = [pc EXCEPT ![self] = "it_nxt"]
                                ELSE /\ pc' = [pc EXCEPT ![self] = "it_inv"]
               /\ UNCHANGED << mem, sb, fsleep, wloc, spur, wkind, started, 
                               nspawn, wtid, wqready, func, cnt, queued, fin, 
                               fsnap, alive, errs, pci, opx, iv, rv, hd, tl, 
                               old, cur, cbc, isrt, en, fx, bk, cz, stack >>

it_re(self) == /\ pc[self] = "it_re"
               /\ en' = [en EXCEPT ![self] = Re[cur[self]]]
               /\ func' = [func EXCEPT ![Re[cur[self]]] = FName(Re[cur[self]])]
               /\ acc' = Ev(self, "call", Re[cur[self]], "queue", "-", "-")
               /\ stack' = [stack EXCEPT ![self] = << [ procedure |->  "queue_work",
                                                        pc        |->  "it_rr" ] >>
                                                    \o stack[self]]
               /\ pc' = [pc EXCEPT ![self] = "e_mb"]
               /\ UNCHANGED << mem, sb, fsleep, wloc, spur, wkind, started, 
                               nspawn, wtid, wqready, cnt, queued, fin, fsnap, 
                               alive, uaf, errs, pci, opx, iv, rv, hd, tl, old, 
                               cur, nx, cbc, isrt, fx, bk, cz >>

it_rr(self) == /\ pc[self] = "it_rr"
               /\ queued' = (queued \cup {Re[cur[self]]})
               /\ acc' = Ev(self, "ret", "-", "-", "-", "-")
               /\ pc' = [pc EXCEPT ![self] = "it_end"]
               /\ UNCHANGED << mem, sb, fsleep, wloc, spur, wkind, started, 
                               nspawn, wtid, wqready, func, cnt, fin, fsnap, 
                               alive, uaf, errs, pci, opx, iv, rv, hd, tl, old, 
                               cur, nx, cbc, isrt, en, fx, bk, cz, stack >>

it_end(self) == /\ pc[self] = "it_end"
                /\ fin' = (fin \cup {cur[self]})
                /\ acc' = Ev(self, "cbend", cur[self], "-", "-", "-")
                /\ pc' = [pc EXCEPT ![self] = "it_cnt"]
                /\ UNCHANGED << mem, sb, fsleep, wloc, spur, wkind, started, 
                                nspawn, wtid, wqready, func, cnt, queued, 
                                fsnap, alive, uaf, errs, pci, opx, iv, rv, hd, 
                                tl, old, cur, nx, cbc, isrt, en, fx, bk, cz, 
                                stack >>

it_inv(self) == /\ pc[self] = "it_inv"
                /\ IF cur[self] \in CWorks
                      THEN /\ IF func[cur[self]] # "wait_complete"
                                 THEN /\ errs' = (errs \cup {"RightFunc"})
                                 ELSE /\ TRUE
                                      /\ errs' = errs
                           /\ bk' = [bk EXCEPT ![self] = CompOf[cur[self]]]
                           /\ stack' = [stack EXCEPT ![self] = << [ procedure |->  "wait_complete",
                                                                    pc        |->  "it_cnt" ] >>
                                                                \o stack[self]]
                           /\ pc' = [pc EXCEPT ![self] = "bc_sub"]
                           /\ UNCHANGED << acc, cnt >>
                      ELSE /\ IF cnt[cur[self]] >= 1
                                 THEN /\ errs' = (errs \cup {"AtMostOnce"})
                                 ELSE /\ IF func[cur[self]] # FName(cur[self])
                                            THEN /\ errs' = (errs \cup {"RightFunc"})
                                            ELSE /\ TRUE
                                                 /\ errs' = errs
                           /\ cnt' = [cnt EXCEPT ![cur[self]] = cnt[cur[self]] + 1]
                           /\ acc' = Ev(self, "cb", cur[self], func[cur[self]], "-", "-")
                           /\ IF Re[cur[self]] = "-"
                                 THEN /\ pc' = [pc EXCEPT ![self] = "it_end"]
                                 ELSE /\ pc' = [pc EXCEPT ![self] = "it_re"]
                           /\ UNCHANGED << bk, stack >>
                /\ UNCHANGED << mem, sb, fsleep, wloc, spur, wkind, started, 
                                nspawn, wtid, wqready, func, queued, fin, 
                                fsnap, alive, uaf, pci, opx, iv, rv, hd, tl, 
                                old, cur, nx, cbc, isrt, en, fx, cz >>

it_cnt(self) == /\ pc[self] = "it_cnt"
                /\ IF "unsafeiter" \in Mut
                      THEN /\ pc' = [pc EXCEPT ![self] = "it_ld"]
                      ELSE /\ pc' = [pc EXCEPT ![self] = "it_nxt"]
                /\ UNCHANGED << mem, sb, acc, fsleep, wloc, spur, wkind, 
                                started, nspawn, wtid, wqready, func, cnt, 
                                queued, fin, fsnap, alive, uaf, errs, pci, opx, 
                                iv, rv, hd, tl, old, cur, nx, cbc, isrt, en, 
                                fx, bk, cz, stack >>

it_nxt(self) == /\ pc[self] = "it_nxt"
                /\ cbc' = [cbc EXCEPT ![self] = cbc[self] + 1]
                /\ cur' = [cur EXCEPT ![self] = nx[self]]
                /\ IF nx[self] # NULL
                      THEN /\ IF "unsafeiter" \in Mut
                                 THEN /\ pc' = [pc EXCEPT ![self] = "it_inv"]
                                 ELSE /\ pc' = [pc EXCEPT ![self] = "it_ld"]
                      ELSE /\ pc' = [pc EXCEPT ![self] = "wt_sub"]
                /\ UNCHANGED << mem, sb, acc, fsleep, wloc, spur, wkind, 
                                started, nspawn, wtid, wqready, func, cnt, 
                                queued, fin, fsnap, alive, uaf, errs, pci, opx, 
                                iv, rv, hd, tl, old, nx, isrt, en, fx, bk, cz, 
                                stack >>

wt_sub(self) == /\ pc[self] = "wt_sub"
                /\ Drained(self)
                /\ acc' = Ev(self, "add", QL, (-cbc[self]), "-", (mem[QL] - cbc[self]))
                /\ uaf' = (uaf \/ Dead(QL))
                /\ mem' = [mem EXCEPT ![QL] = mem[QL] - cbc[self]]
                /\ pc' = [pc EXCEPT ![self] = "wt_stop"]
                /\ UNCHANGED << sb, fsleep, wloc, spur, wkind, started, nspawn, 
                                wtid, wqready, func, cnt, queued, fin, fsnap, 
                                alive, errs, pci, opx, iv, rv, hd, tl, old, 
                                cur, nx, cbc, isrt, en, fx, bk, cz, stack >>

wt_stop(self) == /\ pc[self] = "wt_stop"
                 /\ uaf' = (uaf \/ Dead(FL))
                 /\ acc' = Ev(self, "ld", FL, "-", "-", Rd(self, FL))
                 /\ hd' = [hd EXCEPT ![self] = NULL]
                 /\ tl' = [tl EXCEPT ![self] = NULL]
                 /\ cur' = [cur EXCEPT ![self] = NULL]
                 /\ nx' = [nx EXCEPT ![self] = NULL]
                 /\ cbc' = [cbc EXCEPT ![self] = 0]
                 /\ IF Has(Rd(self, FL), STOP) /\ "stopfirst" \notin Mut
                       THEN /\ IF isrt[self]
                                  THEN /\ pc' = [pc EXCEPT ![self] = "wt_exit"]
                                  ELSE /\ pc' = [pc EXCEPT ![self] = "wx_mb"]
                       ELSE /\ pc' = [pc EXCEPT ![self] = "wt_e1"]
                 /\ UNCHANGED << mem, sb, fsleep, wloc, spur, wkind, started, 
                                 nspawn, wtid, wqready, func, cnt, queued, fin, 
                                 fsnap, alive, errs, pci, opx, iv, rv, old, 
                                 isrt, en, fx, bk, cz, stack >>

wt_e1(self) == /\ pc[self] = "wt_e1"
               /\ uaf' = (uaf \/ Dead(HN))
               /\ acc' = Ev(self, "ld", HN, "-", "-", Rd(self, HN))
               /\ IF Rd(self, HN) # NULL
                     THEN /\ pc' = [pc EXCEPT ![self] = "wt_top"]
                     ELSE /\ pc' = [pc EXCEPT ![self] = "wt_e2"]
               /\ UNCHANGED << mem, sb, fsleep, wloc, spur, wkind, started, 
                               nspawn, wtid, wqready, func, cnt, queued, fin, 
                               fsnap, alive, errs, pci, opx, iv, rv, hd, tl, 
                               old, cur, nx, cbc, isrt, en, fx, bk, cz, stack >>

wt_e2(self) == /\ pc[self] = "wt_e2"
               /\ uaf' = (uaf \/ Dead(TL))
               /\ acc' = Ev(self, "ld", TL, "-", "-", Rd(self, TL))
               /\ IF Rd(self, TL) # HD \/ isrt[self]
                     THEN /\ pc' = [pc EXCEPT ![self] = "wt_top"]
                          /\ UNCHANGED << fx, stack >>
                     ELSE /\ IF "latedec" \in Mut
                                THEN /\ pc' = [pc EXCEPT ![self] = "wm_dec"]
                                     /\ UNCHANGED << fx, stack >>
                                ELSE /\ fx' = [fx EXCEPT ![self] = FX]
                                     /\ stack' = [stack EXCEPT ![self] = << [ procedure |->  "futex_wait",
                                                                              pc        |->  "wt_dec" ] >>
                                                                          \o stack[self]]
                                     /\ pc' = [pc EXCEPT ![self] = "fw_mb"]
               /\ UNCHANGED << mem, sb, fsleep, wloc, spur, wkind, started, 
                               nspawn, wtid, wqready, func, cnt, queued, fin, 
                               fsnap, alive, errs, pci, opx, iv, rv, hd, tl, 
                               old, cur, nx, cbc, isrt, en, bk, cz >>

wt_dec(self) == /\ pc[self] = "wt_dec"
                /\ Drained(self)
                /\ acc' = Ev(self, "dec", FX, 1, "-", (mem[FX] - 1))
                /\ uaf' = (uaf \/ Dead(FX))
                /\ mem' = [mem EXCEPT ![FX] = mem[FX] - 1]
                /\ pc' = [pc EXCEPT ![self] = "wt_mb2"]
                /\ UNCHANGED << sb, fsleep, wloc, spur, wkind, started, nspawn, 
                                wtid, wqready, func, cnt, queued, fin, fsnap, 
                                alive, errs, pci, opx, iv, rv, hd, tl, old, 
                                cur, nx, cbc, isrt, en, fx, bk, cz, stack >>

wt_mb2(self) == /\ pc[self] = "wt_mb2"
                /\ Drained(self)
                /\ acc' = Ev(self, "mb", "-", "-", "-", "-")
                /\ pc' = [pc EXCEPT ![self] = "wt_top"]
                /\ UNCHANGED << mem, sb, fsleep, wloc, spur, wkind, started, 
                                nspawn, wtid, wqready, func, cnt, queued, fin, 
                                fsnap, alive, uaf, errs, pci, opx, iv, rv, hd, 
                                tl, old, cur, nx, cbc, isrt, en, fx, bk, cz, 
                                stack >>

wm_dec(self) == /\ pc[self] = "wm_dec"
                /\ Drained(self)
                /\ acc' = Ev(self, "dec", FX, 1, "-", (mem[FX] - 1))
                /\ uaf' = (uaf \/ Dead(FX))
                /\ mem' = [mem EXCEPT ![FX] = mem[FX] - 1]
                /\ fx' = [fx EXCEPT ![self] = FX]
                /\ stack' = [stack EXCEPT ![self] = << [ procedure |->  "futex_wait",
                                                         pc        |->  "wm_top" ] >>
                                                     \o stack[self]]
                /\ pc' = [pc EXCEPT ![self] = "fw_mb"]
                /\ UNCHANGED << sb, fsleep, wloc, spur, wkind, started, nspawn, 
                                wtid, wqready, func, cnt, queued, fin, fsnap, 
                                alive, errs, pci, opx, iv, rv, hd, tl, old, 
                                cur, nx, cbc, isrt, en, bk, cz >>

wm_top(self) == /\ pc[self] = "wm_top"
                /\ pc' = [pc EXCEPT ![self] = "wt_top"]
                /\ UNCHANGED << mem, sb, acc, fsleep, wloc, spur, wkind, 
                                started, nspawn, wtid, wqready, func, cnt, 
                                queued, fin, fsnap, alive, uaf, errs, pci, opx, 
                                iv, rv, hd, tl, old, cur, nx, cbc, isrt, en, 
                                fx, bk, cz, stack >>

wx_mb(self) == /\ pc[self] = "wx_mb"
               /\ Drained(self)
               /\ acc' = Ev(self, "mb", "-", "-", "-", "-")
               /\ pc' = [pc EXCEPT ![self] = "wx_st"]
               /\ UNCHANGED << mem, sb, fsleep, wloc, spur, wkind, started, 
                               nspawn, wtid, wqready, func, cnt, queued, fin, 
                               fsnap, alive, uaf, errs, pci, opx, iv, rv, hd, 
                               tl, old, cur, nx, cbc, isrt, en, fx, bk, cz, 
                               stack >>

wx_st(self) == /\ pc[self] = "wx_st"
               /\ IF TSO
                     THEN /\ Len(sb[self]) < SBMax
                          /\ sb' = [sb EXCEPT ![self] = Append(sb[self], <<FX, 0>>)]
                          /\ mem' = mem
                     ELSE /\ mem' = [mem EXCEPT ![FX] = 0]
                          /\ sb' = sb
               /\ uaf' = (uaf \/ Dead(FX))
               /\ acc' = Ev(self, "st", FX, 0, "-", "-")
               /\ pc' = [pc EXCEPT ![self] = "wt_exit"]
               /\ UNCHANGED << fsleep, wloc, spur, wkind, started, nspawn, 
                               wtid, wqready, func, cnt, queued, fin, fsnap, 
                               alive, errs, pci, opx, iv, rv, hd, tl, old, cur, 
                               nx, cbc, isrt, en, fx, bk, cz, stack >>

wt_exit(self) == /\ pc[self] = "wt_exit"
                 /\ Drained(self)
                 /\ acc' = Ev(self, "exit", "-", "-", "-", "-")
                 /\ pc' = [pc EXCEPT ![self] = "Done"]
                 /\ UNCHANGED << mem, sb, fsleep, wloc, spur, wkind, started, 
                                 nspawn, wtid, wqready, func, cnt, queued, fin, 
                                 fsnap, alive, uaf, errs, pci, opx, iv, rv, hd, 
                                 tl, old, cur, nx, cbc, isrt, en, fx, bk, cz, 
                                 stack >>

worker(self) == w_idle(self) \/ wt_flags(self) \/ wt_dec0(self)
                   \/ wt_mb0(self) \/ wt_top(self) \/ wp_or(self)
                   \/ wp_wait(self) \/ wp_and(self) \/ wm_stop(self)
                   \/ s_e1(self) \/ s_e2(self) \/ s_xh(self) \/ s_lt(self)
                   \/ s_mb(self) \/ s_xt(self) \/ it_ld(self)
                   \/ it_re(self) \/ it_rr(self) \/ it_end(self)
                   \/ it_inv(self) \/ it_cnt(self) \/ it_nxt(self)
                   \/ wt_sub(self) \/ wt_stop(self) \/ wt_e1(self)
                   \/ wt_e2(self) \/ wt_dec(self) \/ wt_mb2(self)
                   \/ wm_dec(self) \/ wm_top(self) \/ wx_mb(self)
                   \/ wx_st(self) \/ wt_exit(self)

t_top(self) == /\ pc[self] = "t_top"
               /\ IF pci[self] <= Len(Prog[self])
                     THEN /\ opx' = [opx EXCEPT ![self] = Prog[self][pci[self]]]
                          /\ IF Prog[self][pci[self]].op = "join"
                                THEN /\ pc[Prog[self][pci[self]].n] = "Done"
                                     /\ acc' = Ev(self, "join", Prog[self][pci[self]].n, "-", "-", "-")
                                     /\ pci' = [pci EXCEPT ![self] = pci[self] + 1]
                                     /\ pc' = [pc EXCEPT ![self] = "t_top"]
                                     /\ UNCHANGED << func, fsnap, alive, en, 
                                                     bk >>
                                ELSE /\ wqready \/ Prog[self][pci[self]].op = "create"
                                     /\ IF Prog[self][pci[self]].op = "queue"
                                           THEN /\ en' = [en EXCEPT ![self] = Prog[self][pci[self]].n]
                                                /\ func' = [func EXCEPT ![Prog[self][pci[self]].n] = FName(Prog[self][pci[self]].n)]
                                                /\ UNCHANGED << fsnap, alive, 
                                                                bk >>
                                           ELSE /\ IF Prog[self][pci[self]].op = "flush"
                                                      THEN /\ bk' = [bk EXCEPT ![self] = Prog[self][pci[self]].n]
                                                           /\ fsnap' = [fsnap EXCEPT ![self] = queued]
                                                           /\ alive' = [alive EXCEPT ![Prog[self][pci[self]].n] = "yes",
                                                                                     ![CW(Prog[self][pci[self]].n)] = "yes"]
                                                      ELSE /\ TRUE
                                                           /\ UNCHANGED << fsnap, 
                                                                           alive, 
                                                                           bk >>
                                                /\ UNCHANGED << func, en >>
                                     /\ acc' = Ev(self, "call", Prog[self][pci[self]].n, Prog[self][pci[self]].op, "-", "-")
                                     /\ pc' = [pc EXCEPT ![self] = "t_disp"]
                                     /\ pci' = pci
                     ELSE /\ pc' = [pc EXCEPT ![self] = "t_exit"]
                          /\ UNCHANGED << acc, func, fsnap, alive, pci, opx, 
                                          en, bk >>
               /\ UNCHANGED << mem, sb, fsleep, wloc, spur, wkind, started, 
                               nspawn, wtid, wqready, cnt, queued, fin, uaf, 
                               errs, iv, rv, hd, tl, old, cur, nx, cbc, isrt, 
                               fx, cz, stack >>

t_disp(self) == /\ pc[self] = "t_disp"
                /\ IF opx[self].op = "queue"
                      THEN /\ stack' = [stack EXCEPT ![self] = << [ procedure |->  "queue_work",
                                                                    pc        |->  "t_ret" ] >>
                                                                \o stack[self]]
                           /\ pc' = [pc EXCEPT ![self] = "e_mb"]
                      ELSE /\ IF opx[self].op = "flush"
                                 THEN /\ stack' = [stack EXCEPT ![self] = << [ procedure |->  "flush",
                                                                               pc        |->  "t_ret" ] >>
                                                                           \o stack[self]]
                                      /\ pc' = [pc EXCEPT ![self] = "fl_ref"]
                                 ELSE /\ IF opx[self].op = "pause"
                                            THEN /\ stack' = [stack EXCEPT ![self] = << [ procedure |->  "pause",
                                                                                          pc        |->  "t_ret" ] >>
                                                                                      \o stack[self]]
                                                 /\ pc' = [pc EXCEPT ![self] = "pa_or"]
                                            ELSE /\ IF opx[self].op = "resume"
                                                       THEN /\ stack' = [stack EXCEPT ![self] = << [ procedure |->  "resume",
                                                                                                     pc        |->  "t_ret" ] >>
                                                                                                 \o stack[self]]
                                                            /\ pc' = [pc EXCEPT ![self] = "rs_and"]
                                                       ELSE /\ IF opx[self].op = "create"
                                                                  THEN /\ stack' = [stack EXCEPT ![self] = << [ procedure |->  "create",
                                                                                                                pc        |->  "t_ret" ] >>
                                                                                                            \o stack[self]]
                                                                       /\ pc' = [pc EXCEPT ![self] = "cr_init"]
                                                                  ELSE /\ stack' = [stack EXCEPT ![self] = << [ procedure |->  "destroy",
                                                                                                                pc        |->  "t_ret" ] >>
                                                                                                            \o stack[self]]
                                                                       /\ pc' = [pc EXCEPT ![self] = "ds_or"]
                /\ UNCHANGED << mem, sb, acc, fsleep, wloc, spur, wkind, 
                                started, nspawn, wtid, wqready, func, cnt, 
                                queued, fin, fsnap, alive, uaf, errs, pci, opx, 
                                iv, rv, hd, tl, old, cur, nx, cbc, isrt, en, 
                                fx, bk, cz >>

t_ret(self) == /\ pc[self] = "t_ret"
               /\ IF opx[self].op = "queue"
                     THEN /\ queued' = (queued \cup {opx[self].n})
                          /\ UNCHANGED << wqready, fsnap, errs >>
                     ELSE /\ IF opx[self].op = "flush"
                                THEN /\ IF fsnap[self] \ fin # {}
                                           THEN /\ errs' = (errs \cup {"FlushGuarantee"})
                                           ELSE /\ TRUE
                                                /\ errs' = errs
                                     /\ fsnap' = [fsnap EXCEPT ![self] = {}]
                                     /\ UNCHANGED wqready
                                ELSE /\ IF opx[self].op = "create"
                                           THEN /\ wqready' = TRUE
                                           ELSE /\ TRUE
                                                /\ UNCHANGED wqready
                                     /\ UNCHANGED << fsnap, errs >>
                          /\ UNCHANGED queued
               /\ acc' = Ev(self, "ret", "-", "-", "-", "-")
               /\ pci' = [pci EXCEPT ![self] = pci[self] + 1]
               /\ opx' = [opx EXCEPT ![self] = NoOp]
               /\ pc' = [pc EXCEPT ![self] = "t_top"]
               /\ UNCHANGED << mem, sb, fsleep, wloc, spur, wkind, started, 
                               nspawn, wtid, func, cnt, fin, alive, uaf, iv, 
                               rv, hd, tl, old, cur, nx, cbc, isrt, en, fx, bk, 
                               cz, stack >>

t_exit(self) == /\ pc[self] = "t_exit"
                /\ Drained(self)
                /\ acc' = Ev(self, "exit", "-", "-", "-", "-")
                /\ pc' = [pc EXCEPT ![self] = "Done"]
                /\ UNCHANGED << mem, sb, fsleep, wloc, spur, wkind, started, 
                                nspawn, wtid, wqready, func, cnt, queued, fin, 
                                fsnap, alive, uaf, errs, pci, opx, iv, rv, hd, 
                                tl, old, cur, nx, cbc, isrt, en, fx, bk, cz, 
                                stack >>

thr(self) == t_top(self) \/ t_disp(self) \/ t_ret(self) \/ t_exit(self)

Next == (\E self \in ProcSet:  \/ futex_wait(self) \/ futex_wake_up(self)
                               \/ wake_worker(self) \/ queue_work(self)
                               \/ wait_complete(self) \/ flush(self)
                               \/ pause(self) \/ resume(self)
                               \/ create(self) \/ destroy(self))
           \/ (\E self \in Flushers: flusher(self))
           \/ (\E self \in {"W:env"}: spurw(self))
           \/ (\E self \in Workers: worker(self))
           \/ (\E self \in Threads: thr(self))

Spec == /\ Init /\ [][Next]_vars
        /\ \A self \in Flushers : WF_vars(flusher(self))
        /\ \A self \in Workers : /\ WF_vars(worker(self))
                                 /\ WF_vars(queue_work(self))
                                 /\ WF_vars(wait_complete(self))
                                 /\ WF_vars(futex_wait(self))
                                 /\ WF_vars(futex_wake_up(self))
                                 /\ WF_vars(wake_worker(self))
        /\ \A self \in Threads : /\ WF_vars(thr(self))
                                 /\ WF_vars(queue_work(self))
                                 /\ WF_vars(flush(self))
                                 /\ WF_vars(pause(self))
                                 /\ WF_vars(resume(self))
                                 /\ WF_vars(create(self))
                                 /\ WF_vars(destroy(self))
                                 /\ WF_vars(futex_wake_up(self))
                                 /\ WF_vars(wake_worker(self))
                                 /\ WF_vars(futex_wait(self))

\* END TRANSLATION

AllDone == \A t \in Threads : pc[t] = "Done"
NoErr == errs = {}
AtMostOnce == "AtMostOnce" \notin errs /\ \A n \in UWorks : cnt[n] <= 1
FlushGuarantee == "FlushGuarantee" \notin errs
FreedOnce == errs \cap {"completion freed twice", "completion_work freed twice", "workqueue freed twice", "RefUnderflow"} = {}
NoUseAfterFree == ~uaf
\* a worker is at rest: never started, finished, asleep in FUTEX_WAIT, or (real-time) polling an empty queue
WorkerIdle(h) == \/ pc[h] = "Done" \/ (pc[h] = "w_idle" /\ ~started[h])
                 \/ (pc[h] = "fw_fwoke" /\ h \in fsleep)
                 \/ (isrt[h] /\ pc[h] = "wt_top" /\ mem[TL] = HD /\ mem[HN] = NULL /\ ~Has(mem[FL], STOP) /\ ~Has(mem[FL], PAUSE))
Quiescent == AllDone /\ (\A p \in Procs : sb[p] = <<>>) /\ \A h \in Workers : WorkerIdle(h)
\* NoLoss: once every scenario thread has finished and the worker is at rest, every queued item has been executed exactly once
NoLoss == Quiescent => \A n \in queued : cnt[n] = 1 /\ n \in fin
\* qlen = queued - executed when everything is drained; every completion / completion_work has been released
QlenExact == (Quiescent /\ alive[WQ] = "yes") => mem[QL] = 0
NoLeak == Quiescent => \A o \in Comps \cup CWorks : alive[o] # "yes"
FutexVals(l) == {mem[l]} \cup UNION {{sb[p][i][2] : i \in {j \in DOMAIN sb[p] : sb[p][j][1] = l}} : p \in Procs}
FutexRange == \A l \in {FX} \cup {FutexOf(k) : k \in Comps} : FutexVals(l) \subseteq {-1, 0}
\* a sleeper sleeps on the word of a live object
SleepSane == \A p \in fsleep : wloc[p] # "-" /\ (LocObj[wloc[p]] = "static" \/ alive[LocObj[wloc[p]]] = "yes")
\* deadlock freedom with an explicit notion of termination (flushers never terminate, the worker stays parked)
DeadlockFree == AllDone \/ ENABLED Next
\* the same through TLC's own deadlock check (cheaper than ENABLED): termination is an explicit stuttering step
DNext == Next \/ (AllDone /\ UNCHANGED vars)
DSpec == Init /\ [][DNext]_vars
SBBound == \A t \in Procs : Len(sb[t]) <= SBMax
\* liveness (no state constraint): every operation returns, every queued item is eventually executed
FairSpec == Spec
Termination == <>(AllDone)
EventuallyExecuted == \A n \in UWorks : (n \in queued) ~> (n \in fin)
=============================================================================
