------------------------------- MODULE UrcuBp -------------------------------
(***************************************************************************)
(* The "bulletproof" flavor (src/urcu-bp.c, include/urcu/static/urcu-bp.h) *)
(* at one action per shared-memory access / blocking call, under SC or     *)
(* x86-TSO: reader lock with lazy registration, unlock, synchronize_rcu    *)
(* (signals blocked, gp_lock, registry_lock, two wait_for_readers phases   *)
(* with busy-wait then poll), the registry arena (chunks, alloc flags,     *)
(* expand_arena by in-place mremap or a new chunk), the pthread-key        *)
(* destructor at thread exit, and a signal handler with its own read-side  *)
(* section that may interrupt a thread wherever the library has not        *)
(* blocked signals.                                                        *)
(*                                                                         *)
(* A reader word is a memory location of the ARENA ("rctr.c0.s3" = slot 3  *)
(* of chunk 0), not of the thread: a thread reaches it through its TLS     *)
(* pointer rdr[t]; exited threads' slots are reused by later threads.      *)
(*                                                                         *)
(* Threads run scenario programs (Prog): reader ops  lock unlock deref use *)
(* reg, updater ops  pub(o) sync free,  thread ops  spawn(t) join(t) spawnjoin(t).      *)
(* When its program ends a thread runs the key destructor (if registered)  *)
(* and exits.  Decides C01 / C02 / C15 / C19 for bp.                       *)
(*                                                                         *)
(* Counter encoding (as logged by the runtime): nesting count + 65536 when *)
(* the phase bit is set.                                                   *)
(***************************************************************************)
EXTENDS Naturals, Integers, Sequences, FiniteSets, TLC

CONSTANTS Threads, Prog, TSO, Tracing, SBMax,
          SysMb,          \* urcu_bp_has_sys_membarrier: readers have compiler barriers only, the updater uses membarrier()
          QSAttempts,     \* RCU_QS_ACTIVE_ATTEMPTS of the build
          InitCap,        \* INIT_READER_COUNT (8 in the code)
          MaxChunks, MaxCap,   \* size of the location universe: chunks c0..c(MaxChunks-1), slots s0..s(MaxCap-1)
          MremapFail,     \* environment: set of 0-based indices of mremap() calls that fail (=> new chunk)
          Started,        \* threads that exist at the start; the others are created by spawn ops
          SigThreads,     \* threads that the signal handler may interrupt (C19); {} otherwise
          SigBudget,      \* number of signal deliveries per execution
          SigInExit,      \* TRUE: signals may also arrive while the thread runs its key destructor / exits
          Skip,           \* mutation: fence labels that are no-ops
          Mut             \* mutation switches: "norecheck" "noclear" "onephase" "noblock_reg" "stuck" (all off for claims)

PHASE == 65536
NULL == "NULL"
Objs == {"obj0", "obj1", "obj2", "obj3"}
SlotName(c, j) == "c" \o ToString(c) \o ".s" \o ToString(j)
ChunkIds == 0 .. (MaxChunks - 1)
SlotIdx == 0 .. (MaxCap - 1)
SlotAt == [c \in ChunkIds |-> [j \in SlotIdx |-> SlotName(c, j)]]
AllSlots == {SlotAt[c][j] : c \in ChunkIds, j \in SlotIdx}
SlotChunk == [s \in AllSlots |-> CHOOSE c \in ChunkIds : \E j \in SlotIdx : SlotAt[c][j] = s]
Rctr(s) == "rctr." \o s
RctrOf == [s \in AllSlots |-> Rctr(s)]
Locs == {"gp_ctr", "gptr"} \cup {RctrOf[s] : s \in AllSlots}
FlId(t) == "F:" \o t
Flushers == {FlId(t) : t \in Threads}
FlOf == [f \in Flushers |-> CHOOSE t \in Threads : FlId(t) = f]
ReaderFence == ~SysMb                                  \* urcu_bp_smp_mb_slave() is cmm_smp_mb()
Nest(v) == v % PHASE
Ph(v) == v \div PHASE
Min(S) == CHOOSE x \in S : \A y \in S : x <= y
Del(q, x) == SelectSeq(q, LAMBDA y : y # x)
ToSet(q) == {q[k] : k \in DOMAIN q}
\* the handler: rcu_read_lock(); p = rcu_dereference(gptr); touch *p; rcu_read_unlock();
HProg == <<[op |-> "lock"], [op |-> "deref"], [op |-> "use"], [op |-> "unlock"]>>
ExitPcs == {"t_after", "x_chk", "x_block", "x_lock", "x_clr", "x_unl", "x_rest", "xe_lock", "xe_unl", "t_end", "Done"}

(* --algorithm urcubp {
variables
  mem = [l \in Locs |-> CASE l = "gp_ctr" -> 1 [] l = "gptr" -> "obj0" [] OTHER -> 0],
  sb = [t \in Threads |-> <<>>],
  lock = [m \in {"gp_lock", "registry_lock", "init_lock"} |-> "free"],
  acc = [k |-> 0],
  registry = <<>>, cursnap = <<>>, qsr = <<>>, \* reader lists (cds_list of slots, head first; plain data under registry_lock)
  chunks = <<>>,                               \* BpArena: capacity of each chunk, in chunk_list order (chunk ids 0, 1, ...)
  used = <<>>,                                 \*          chunk->used
  alloc = {},                                  \*          slots whose .alloc flag is set
  mremaps = 0,                                 \* number of mremap() calls so far (environment input index)
  refcount = 1,                                \* urcu_bp_refcount (the library constructor took one reference)
  rdr = [t \in Threads |-> NULL],              \* URCU_TLS(urcu_bp_reader): the thread's slot, or NULL
  keyval = [t \in Threads |-> NULL],           \* pthread_getspecific(urcu_bp_key)
  sigBlocked = [t \in Threads |-> FALSE],      \* the thread's signal mask is "all blocked"
  started = [t \in Threads |-> t \in Started],
  insig = [t \in Threads |-> FALSE],           \* the thread is executing the signal handler
  saved = [t \in Threads |-> <<>>],            \* interrupted frame (pc and locals) while the handler runs
  sigs = 0,
  hcs = [t \in Threads |-> 0],                 \* ghost: critical section opened by the handler when it interrupted code outside any section
  alive = [o \in Objs |-> TRUE],
  cs = [t \in Threads |-> 0],                  \* ghost: id of the open outermost critical section (0: none)
  pre = [t \in Threads |-> {}],                \* ghost: sections open when t called synchronize_rcu()
  regSlot = [t \in Threads |-> NULL];          \* ghost: slot the thread got when it registered (NULL: not registered)

define {
  LastIdx(t, loc) == LET S == {i \in DOMAIN sb[t] : sb[t][i][1] = loc} IN
                     IF S = {} THEN 0 ELSE CHOOSE i \in S : \A j \in S : j <= i
  Rd(t, loc) == IF LastIdx(t, loc) = 0 THEN mem[loc] ELSE sb[t][LastIdx(t, loc)][2]
  Drained(t) == sb[t] = <<>>
  Ev(t, op, var, a, b, r) == IF Tracing THEN [k |-> acc.k + 1, t |-> t, op |-> op, var |-> var, a |-> a, b |-> b, r |-> r] ELSE acc
  \* events of the environment / driver that are not scheduling points of the executed code (sigmask, mmap, mremap, setspecific,
  \* spawn, relax / poll): same step counter, so they do not appear in schedules, but they must match the recorded event
  EvS(t, op, var) == IF Tracing THEN [k |-> acc.k, t |-> t, op |-> op, var |-> var, a |-> "-", b |-> "-", r |-> "-"] ELSE acc
  OpenCS == {<<t, cs[t]>> : t \in {x \in Threads : cs[x] # 0}} \cup {<<t, hcs[t]>> : t \in {x \in Threads : hcs[x] # 0}}
  CurProg(t) == IF insig[t] THEN HProg ELSE Prog[t]
  \* arena_alloc(): first chunk (list order) that is not "fully used" and has a slot whose alloc flag is clear; lowest such slot
  FreeIn(c) == {j \in 0 .. (chunks[c + 1] - 1) : SlotAt[c][j] \notin alloc}
  Cand == {c \in 0 .. (Len(chunks) - 1) : used[c + 1] # chunks[c + 1] /\ FreeIn(c) # {}}
  FreeSlots == UNION {{SlotAt[c][j] : j \in FreeIn(c)} : c \in 0 .. (Len(chunks) - 1)}
  MaskName(b) == IF b THEN "blocked" ELSE "unblocked"
}

macro Ld(dst, loc)        { dst := Rd(self, loc); acc := Ev(self, "ld", loc, "-", "-", Rd(self, loc)); }
macro St(loc, v)          { if (TSO) { sb[self] := Append(sb[self], <<loc, v>>) } else { mem[loc] := v };
                            acc := Ev(self, "st", loc, v, "-", "-"); }
macro Xchg(dst, loc, v)   { await Drained(self); dst := mem[loc]; mem[loc] := v; acc := Ev(self, "xchg", loc, v, "-", dst); }
macro Mb()                { await Drained(self); acc := Ev(self, "mb", "-", "-", "-", "-"); }
macro Lock(m)             { await Drained(self) /\ lock[m] = "free"; lock[m] := self; acc := Ev(self, "lock", m, "-", "-", "-"); }
macro Unlock(m)           { await Drained(self); lock[m] := "free"; acc := Ev(self, "unlock", m, "-", "-", "-"); }
\* sigfillset(); pthread_sigmask(SIG_BLOCK, &all, &oldmask): thread-private state; a scheduling point of the executed code
\* (the driver makes sigfillset() one), so that a signal can still arrive between the caller's last step and the blocking
macro SigBlock()          { om := sigBlocked[self]; sigBlocked[self] := TRUE; acc := Ev(self, "sigm", "blocked", "-", "-", "-"); }
\* pthread_sigmask(SIG_SETMASK, &oldmask, NULL): executed together with the preceding step by the code
macro SigRestore()        { sigBlocked[self] := om; acc := EvS(self, "sigm", MaskName(om)); }

fair process (flusher \in Flushers) {
fl: while (TRUE) {
      await sb[FlOf[self]] # <<>>;
      mem[Head(sb[FlOf[self]])[1]] := Head(sb[FlOf[self]])[2] || sb[FlOf[self]] := Tail(sb[FlOf[self]])
      || acc := IF Tracing THEN [k |-> acc.k + 1, t |-> FlOf[self], op |-> "flush", var |-> Head(sb[FlOf[self]])[1],
                               a |-> Head(sb[FlOf[self]])[2], b |-> "-", r |-> "-"] ELSE acc;
    }
}

fair process (thr \in Threads)
variables i = 1, op = [op |-> "none"], res = "-",
          tmp = 0,              \* tmp = URCU_TLS(urcu_bp_reader)->ctr
          g = 0, held = NULL, old = NULL,
          om = FALSE,           \* oldmask of the innermost pthread_sigmask(SIG_BLOCK) of this frame
          rret = "",            \* who called urcu_bp_register(): "rl" (rcu_read_lock) or "reg" (urcu_bp_register_thread)
          slot = NULL, expanded = FALSE,
          wl = 0, ph = 0, scan = <<>>, v = 0, ipi = {}, mret = "";
{
t_start: await started[self];                                    \* the thread exists (created by a spawn op unless initial)
t_top:  while (i <= Len(CurProg(self))) {
          op := CurProg(self)[i];
          if (op.op = "lock") { goto rl_top }
          else if (op.op = "unlock") { goto ru_top }
          else if (op.op = "deref") { goto dr_ld }
          else if (op.op = "use") { assert held = NULL \/ alive[held]; goto t_ret }
          else if (op.op = "reg") { goto rg_top }
          else if (op.op = "pub") { goto p_xchg }
          else if (op.op = "sync") { goto s_call }
          else if (op.op \in {"spawn", "spawnjoin"}) { goto sp_spawn }
          else if (op.op = "join") { goto j_wait }
          else { if (old # NULL) { alive[old] := FALSE; res := old; old := NULL }; goto t_ret };   \* free

        \* ---------------- _urcu_bp_read_lock
rl_top:   if (rdr[self] = NULL) { rret := "rl"; goto g_block };  \* if (!URCU_TLS(urcu_bp_reader)) urcu_bp_register()
rl_rd:    tmp := Rd(self, RctrOf[rdr[self]]);                    \* tmp = URCU_TLS(urcu_bp_reader)->ctr (plain read of the own word)
          if (Nest(tmp) # 0) { goto rl_nest };
rl_ld:    Ld(g, "gp_ctr");                                       \* uatomic_load(&urcu_bp_gp.ctr)
rl_st:    St(RctrOf[rdr[self]], g);                              \* uatomic_store(&URCU_TLS(urcu_bp_reader)->ctr, gp.ctr)
rl_mb:    if (ReaderFence /\ "rl_mb" \notin Skip) { Mb() };      \* urcu_bp_smp_mb_slave()
rl_in:    if (~insig[self]) { cs[self] := i }                    \* rcu_read_lock() returned: the section has begun
          else if (cs[self] = 0) { hcs[self] := 1000 + sigs };
          goto t_ret;
rl_nest:  St(RctrOf[rdr[self]], tmp + 1);                        \* uatomic_store(ctr, tmp + URCU_BP_GP_COUNT)
          goto t_ret;

        \* ---------------- _urcu_bp_read_unlock
ru_top:   assert held = NULL \/ alive[held];
          tmp := Rd(self, RctrOf[rdr[self]]);                    \* tmp = URCU_TLS(urcu_bp_reader)->ctr
          if (Nest(tmp) = 1) {                                   \* outermost unlock entered: the section has ended
            held := NULL;
            if (~insig[self]) { cs[self] := 0 } else { hcs[self] := 0 }
          };
ru_mb:    if (ReaderFence /\ "ru_mb" \notin Skip) { Mb() };      \* urcu_bp_smp_mb_slave()
ru_st:    St(RctrOf[rdr[self]], tmp - 1);                        \* uatomic_store(ctr, tmp - URCU_BP_GP_COUNT)
          goto t_ret;

        \* ---------------- urcu_bp_register_thread
rg_top:   if (rdr[self] = NULL) { rret := "reg"; goto g_block } else { goto t_ret };

        \* ---------------- urcu_bp_register: disable signals, take mutex, add to registry
g_block:  if ("noblock_reg" \notin Mut) { SigBlock() };            \* pthread_sigmask(SIG_BLOCK, &all, &oldmask)
g_chk:    if (rdr[self] # NULL /\ "norecheck" \notin Mut) { goto g_end };   \* a signal handler registered us since the check in rcu_read_lock()
gi_lock:  Lock("init_lock"); refcount := refcount + 1;           \* _urcu_bp_init(): mutex_lock(&init_lock); urcu_bp_refcount++
gi_unl:   Unlock("init_lock");
g_lock:   Lock("registry_lock"); expanded := FALSE;
        \* add_thread() -> arena_alloc()
aa_scan:  if (Cand # {}) {
            with (c = Min(Cand), s = SlotAt[Min(Cand)][Min(FreeIn(Min(Cand)))]) {
              slot := s;
              alloc := alloc \cup {s};                           \* chunk->readers[spot_idx].alloc = 1
              used[c + 1] := used[c + 1] + 1;                    \* chunk->used++
            };
            goto at_set
          } else { assert ~expanded };                           \* arena_alloc() returning NULL is an abort()
        \* expand_arena()
ea_top:   expanded := TRUE;
          assert FreeSlots = {};                                 \* SlotReuse: the arena grows only when no freed slot is left
          if (chunks = <<>>) { goto ea_mmap0 } else { goto ea_mremap };
ea_mmap0: chunks := <<InitCap>> || used := <<0>>;                \* mmap() of an INIT_READER_COUNT chunk
          acc := EvS(self, "mmap", "c0");
          goto aa_scan;
ea_mremap: mremaps := mremaps + 1;                               \* mremap_wrapper(last_chunk, old, new, 0): grow in place, or fail
          if ((mremaps - 1) \in MremapFail) { acc := EvS(self, "mremap", "fail"); goto ea_mmap }
          else { chunks[Len(chunks)] := 2 * chunks[Len(chunks)]; acc := EvS(self, "mremap", "ok"); goto aa_scan };
ea_mmap:  chunks := Append(chunks, 2 * chunks[Len(chunks)]) || used := Append(used, 0);   \* new chunk twice as big as the last
          acc := EvS(self, "mmap", "c" \o ToString(Len(chunks) - 1));
          goto aa_scan;
at_set:   keyval[self] := slot;                                  \* pthread_setspecific(urcu_bp_key, rcu_reader_reg)
          assert mem[RctrOf[slot]] = 0;                          \* urcu_posix_assert(rcu_reader_reg->ctr == 0)
          registry := <<slot>> \o registry;                       \* cds_list_add(&rcu_reader_reg->node, &registry)
          rdr[self] := slot;                                     \* URCU_TLS(urcu_bp_reader) = rcu_reader_reg
          if (regSlot[self] = NULL) { regSlot[self] := slot };
          acc := EvS(self, "slot", slot);
g_unl:    Unlock("registry_lock");
g_end:    if ("noblock_reg" \notin Mut) { SigRestore() };       \* pthread_sigmask(SIG_SETMASK, &oldmask, NULL)
          if (rret = "rl") { goto rl_rd } else { goto t_ret };

        \* ---------------- rcu_dereference(gptr), rcu_xchg_pointer(&gptr, obj)
dr_ld:    Ld(held, "gptr"); res := held;
          goto t_ret;
p_xchg:   Xchg(old, "gptr", op.o); res := old;
          goto t_ret;

        \* ---------------- thread creation / join (driver level)
sp_spawn: started[op.t] := TRUE; acc := EvS(self, "spawned", op.t);                             \* spawnjoin = create the thread and wait until it has exited
          if (op.op = "spawn") { goto t_ret };
j_wait:   await pc[op.t] = "Done" /\ Drained(self);
          acc := Ev(self, "join", op.t, "-", "-", "-");
          goto t_ret;

        \* ---------------- urcu_bp_synchronize_rcu
s_call:   pre[self] := OpenCS;
s_block:  SigBlock();                                          \* pthread_sigmask(SIG_BLOCK, &all, &oldmask)
s_gplk:   Lock("gp_lock");
s_rglk:   Lock("registry_lock");
          if (registry = <<>>) { goto s_out };                   \* if (cds_list_empty(&registry)) goto out
s_mm1:    mret := "s_p1"; goto master;                           \* smp_mb_master()
s_p1:     ph := 1; goto w_top;                                   \* wait_for_readers(&registry, &cur_snap_readers, &qsreaders)
s_mb2:    if ("s_mb2" \notin Skip) { Mb() };                     \* cmm_smp_mb()
s_flip:   St("gp_ctr", IF Ph(Rd(self, "gp_ctr")) = 0 THEN Rd(self, "gp_ctr") + PHASE ELSE Rd(self, "gp_ctr") - PHASE);
s_mb3:    if ("s_mb3" \notin Skip) { Mb() };
s_p2:     if ("onephase" \in Mut) { qsr := cursnap \o qsr || cursnap := <<>>; goto s_splice } else { ph := 2; goto w_top };
s_splice: registry := qsr \o registry || qsr := <<>>;             \* cds_list_splice(&qsreaders, &registry)
s_mm2:    mret := "s_out"; goto master;
s_out:    Unlock("registry_lock");
s_gpun:   Unlock("gp_lock");
s_rest:   SigRestore();                                         \* pthread_sigmask(SIG_SETMASK, &oldmask, NULL)
s_ret:    assert pre[self] \cap OpenCS = {};                     \* C01: every pre-existing critical section has ended
          pre[self] := {};
          goto t_ret;

        \* ---------------- wait_for_readers (ph = 1: registry -> cursnap/qsr; ph = 2: cursnap -> qsr)
w_top:    wl := 0;
w_loop:   if (wl < QSAttempts) { wl := wl + 1 };
          scan := IF ph = 1 THEN registry ELSE cursnap;
w_scan:   if (scan = <<>>) { goto w_chk };                       \* cds_list_for_each_entry_safe(index, tmp, input_readers, node)
w_ldr:    with (r = Head(scan)) {                                \* urcu_bp_reader_state: v = uatomic_load(ctr); plain read of gp.ctr
            v := Rd(self, RctrOf[r]); acc := Ev(self, "ld", RctrOf[r], "-", "-", Rd(self, RctrOf[r]));
            scan := Tail(scan);
            if ("stuck" \in Mut) { skip }                        \* (liveness negative control: readers are never seen quiescent)
            else if (Nest(Rd(self, RctrOf[r])) = 0) {            \* INACTIVE: cds_list_move(&index->node, qsreaders)
              if (ph = 1) { registry := Del(registry, r) } else { cursnap := Del(cursnap, r) }; qsr := <<r>> \o qsr
            } else if (Ph(Rd(self, RctrOf[r])) = Ph(Rd(self, "gp_ctr"))) {   \* ACTIVE_CURRENT
              if (ph = 1) { registry := Del(registry, r); cursnap := <<r>> \o cursnap }
              else { cursnap := Del(cursnap, r); qsr := <<r>> \o qsr }
            }                                                    \* ACTIVE_OLD: stays
          };
          goto w_scan;
w_chk:    if ((IF ph = 1 THEN registry ELSE cursnap) = <<>>) { if (ph = 1) { goto s_mb2 } else { goto s_splice } };
w_unl:    Unlock("registry_lock");                               \* temporarily unlock the registry lock
w_wait:   acc := EvS(self, IF wl >= QSAttempts THEN "poll" ELSE "relax", "-");   \* poll(NULL, 0, RCU_SLEEP_DELAY_MS) or caa_cpu_relax()
w_lock:   Lock("registry_lock");
          goto w_loop;

        \* ---------------- smp_mb_master()
master:   if ((mret = "s_p1" /\ "s_mm1" \in Skip) \/ (mret = "s_out" /\ "s_mm2" \in Skip)) { goto m_ret }
          else if (SysMb) { ipi := Threads; goto m_ipi } else { goto m_mb };
m_mb:     Mb();                                                  \* cmm_smp_mb()
          goto m_ret;
m_ipi:    if (ipi # {}) { with (t \in ipi) { await Drained(t); ipi := ipi \ {t} }; goto m_ipi };
m_sys:    acc := Ev(self, "sysmb", "-", "-", "-", "-");          \* membarrier() returns: every thread executed a barrier since the call
m_ret:    if (mret = "s_p1") { goto s_p1 } else { goto s_out };

t_ret:    i := i + 1; res := "-";
        };
t_after: await ~insig[self];                                     \* (the handler frame returns through SigReturn)
        \* ---------------- thread exit: glibc runs urcu_bp_thread_exit_notifier(value) while the key's value is not NULL
x_chk:  if (keyval[self] = NULL) { goto t_end };
x_block: slot := keyval[self];                                   \* the destructor's argument: the key's value, which glibc clears
        keyval[self] := NULL;                                    \* before the call
        SigBlock();                                              \* urcu_bp_unregister: pthread_sigmask(SIG_BLOCK, ...)
x_lock: Lock("registry_lock");
x_clr:  \* remove_thread -> cleanup_thread(find_chunk(reg), reg): ctr = 0 (plain), cds_list_del, tid = 0, alloc = 0, used--; TLS = NULL
        if (Tracing \/ ~TSO) { await Drained(self); mem[RctrOf[slot]] := 0 } else { sb[self] := Append(sb[self], <<RctrOf[slot], 0>>) };
        registry := Del(registry, slot) || cursnap := Del(cursnap, slot) || qsr := Del(qsr, slot);
        if ("noclear" \notin Mut) { alloc := alloc \ {slot} };
        used[SlotChunk[slot] + 1] := used[SlotChunk[slot] + 1] - 1;
        rdr[self] := NULL; regSlot[self] := NULL;
x_unl:  Unlock("registry_lock");
x_rest: SigRestore();                                           \* pthread_sigmask(SIG_SETMASK, &oldmask, NULL)
xe_lock: Lock("init_lock"); refcount := refcount - 1;            \* urcu_bp_exit(): mutex_lock(&init_lock); --urcu_bp_refcount
        assert refcount > 0;                                     \* (the arena is unmapped only by the library destructor)
xe_unl: Unlock("init_lock");
        goto x_chk;                                              \* glibc looks at the key again (a handler may have registered the thread anew)
t_end:  await Drained(self);                                     \* the thread is gone (its store buffer has been committed)
}
} *)
\* BEGIN TRANSLATION
VARIABLES pc, mem, sb, lock, acc, registry, cursnap, qsr, chunks, used, alloc, 
          mremaps, refcount, rdr, keyval, sigBlocked, started, insig, saved, 
          sigs, hcs, alive, cs, pre, regSlot

(* define statement *)
LastIdx(t, loc) == LET S == {i \in DOMAIN sb[t] : sb[t][i][1] = loc} IN
                   IF S = {} THEN 0 ELSE CHOOSE i \in S : \A j \in S : j <= i
Rd(t, loc) == IF LastIdx(t, loc) = 0 THEN mem[loc] ELSE sb[t][LastIdx(t, loc)][2]
Drained(t) == sb[t] = <<>>
Ev(t, op, var, a, b, r) == IF Tracing THEN [k |-> acc.k + 1, t |-> t, op |-> op, var |-> var, a |-> a, b |-> b, r |-> r] ELSE acc


EvS(t, op, var) == IF Tracing THEN [k |-> acc.k, t |-> t, op |-> op, var |-> var, a |-> "-", b |-> "-", r |-> "-"] ELSE acc
OpenCS == {<<t, cs[t]>> : t \in {x \in Threads : cs[x] # 0}} \cup {<<t, hcs[t]>> : t \in {x \in Threads : hcs[x] # 0}}
CurProg(t) == IF insig[t] THEN HProg ELSE Prog[t]

FreeIn(c) == {j \in 0 .. (chunks[c + 1] - 1) : SlotAt[c][j] \notin alloc}
Cand == {c \in 0 .. (Len(chunks) - 1) : used[c + 1] # chunks[c + 1] /\ FreeIn(c) # {}}
FreeSlots == UNION {{SlotAt[c][j] : j \in FreeIn(c)} : c \in 0 .. (Len(chunks) - 1)}
MaskName(b) == IF b THEN "blocked" ELSE "unblocked"

VARIABLES i, op, res, tmp, g, held, old, om, rret, slot, expanded, wl, ph, 
          scan, v, ipi, mret

vars == << pc, mem, sb, lock, acc, registry, cursnap, qsr, chunks, used, 
           alloc, mremaps, refcount, rdr, keyval, sigBlocked, started, insig, 
           saved, sigs, hcs, alive, cs, pre, regSlot, i, op, res, tmp, g, 
           held, old, om, rret, slot, expanded, wl, ph, scan, v, ipi, mret >>

ProcSet == (Flushers) \cup (Threads)

Init == (* Global variables *)
        /\ mem = [l \in Locs |-> CASE l = "gp_ctr" -> 1 [] l = "gptr" -> "obj0" [] OTHER -> 0]
        /\ sb = [t \in Threads |-> <<>>]
        /\ lock = [m \in {"gp_lock", "registry_lock", "init_lock"} |-> "free"]
        /\ acc = [k |-> 0]
        /\ registry = <<>>
        /\ cursnap = <<>>
        /\ qsr = <<>>
        /\ chunks = <<>>
        /\ used = <<>>
        /\ alloc = {}
        /\ mremaps = 0
        /\ refcount = 1
        /\ rdr = [t \in Threads |-> NULL]
        /\ keyval = [t \in Threads |-> NULL]
        /\ sigBlocked = [t \in Threads |-> FALSE]
        /\ started = [t \in Threads |-> t \in Started]
        /\ insig = [t \in Threads |-> FALSE]
        /\ saved = [t \in Threads |-> <<>>]
        /\ sigs = 0
        /\ hcs = [t \in Threads |-> 0]
        /\ alive = [o \in Objs |-> TRUE]
        /\ cs = [t \in Threads |-> 0]
        /\ pre = [t \in Threads |-> {}]
        /\ regSlot = [t \in Threads |-> NULL]
        (* Process thr *)
        /\ i = [self \in Threads |-> 1]
        /\ op = [self \in Threads |-> [op |-> "none"]]
        /\ res = [self \in Threads |-> "-"]
        /\ tmp = [self \in Threads |-> 0]
        /\ g = [self \in Threads |-> 0]
        /\ held = [self \in Threads |-> NULL]
        /\ old = [self \in Threads |-> NULL]
        /\ om = [self \in Threads |-> FALSE]
        /\ rret = [self \in Threads |-> ""]
        /\ slot = [self \in Threads |-> NULL]
        /\ expanded = [self \in Threads |-> FALSE]
        /\ wl = [self \in Threads |-> 0]
        /\ ph = [self \in Threads |-> 0]
        /\ scan = [self \in Threads |-> <<>>]
        /\ v = [self \in Threads |-> 0]
        /\ ipi = [self \in Threads |-> {}]
        /\ mret = [self \in Threads |-> ""]
        /\ pc = [self \in ProcSet |-> CASE self \in Flushers -> "fl"
                                        [] self \in Threads -> "t_start"]

fl(self) == /\ pc[self] = "fl"
            /\ sb[FlOf[self]] # <<>>
            /\ /\ acc' = IF Tracing THEN [k |-> acc.k + 1, t |-> FlOf[self], op |-> "flush", var |-> Head(sb[FlOf[self]])[1],
                                        a |-> Head(sb[FlOf[self]])[2], b |-> "-", r |-> "-"] ELSE acc
               /\ mem' = [mem EXCEPT ![Head(sb[FlOf[self]])[1]] = Head(sb[FlOf[self]])[2]]
               /\ sb' = [sb EXCEPT ![FlOf[self]] = Tail(sb[FlOf[self]])]
            /\ pc' = [pc EXCEPT ![self] = "fl"]
            /\ UNCHANGED << lock, registry, cursnap, qsr, chunks, used, alloc, 
                            mremaps, refcount, rdr, keyval, sigBlocked, 
                            started, insig, saved, sigs, hcs, alive, cs, pre, 
                            regSlot, i, op, res, tmp, g, held, old, om, rret, 
                            slot, expanded, wl, ph, scan, v, ipi, mret >>

flusher(self) == fl(self)

t_start(self) == /\ pc[self] = "t_start"
                 /\ started[self]
                 /\ pc' = [pc EXCEPT ![self] = "t_top"]
                 /\ UNCHANGED << mem, sb, lock, acc, registry, cursnap, qsr, 
                                 chunks, used, alloc, mremaps, refcount, rdr, 
                                 keyval, sigBlocked, started, insig, saved, 
                                 sigs, hcs, alive, cs, pre, regSlot, i, op, 
                                 res, tmp, g, held, old, om, rret, slot, 
                                 expanded, wl, ph, scan, v, ipi, mret >>

t_top(self) == /\ pc[self] = "t_top"
               /\ IF i[self] <= Len(CurProg(self))
                     THEN /\ op' = [op EXCEPT ![self] = CurProg(self)[i[self]]]
                          /\ IF op'[self].op = "lock"
                                THEN /\ pc' = [pc EXCEPT ![self] = "rl_top"]
                                     /\ UNCHANGED << alive, res, old >>
                                ELSE /\ IF op'[self].op = "unlock"
                                           THEN /\ pc' = [pc EXCEPT ![self] = "ru_top"]
                                                /\ UNCHANGED << alive, res, 
                                                                old >>
                                           ELSE /\ IF op'[self].op = "deref"
                                                      THEN /\ pc' = [pc EXCEPT ![self] = "dr_ld"]
                                                           /\ UNCHANGED << alive, 
                                                                           res, 
                                                                           old >>
                                                      ELSE /\ IF op'[self].op = "use"
                                                                 THEN /\ Assert(held[self] = NULL \/ alive[held[self]], 
                                                                                "Failure of assertion at line 145, column 37.")
                                                                      /\ pc' = [pc EXCEPT ![self] = "t_ret"]
                                                                      /\ UNCHANGED << alive, 
                                                                                      res, 
                                                                                      old >>
                                                                 ELSE /\ IF op'[self].op = "reg"
                                                                            THEN /\ pc' = [pc EXCEPT ![self] = "rg_top"]
                                                                                 /\ UNCHANGED << alive, 
                                                                                                 res, 
                                                                                                 old >>
                                                                            ELSE /\ IF op'[self].op = "pub"
                                                                                       THEN /\ pc' = [pc EXCEPT ![self] = "p_xchg"]
                                                                                            /\ UNCHANGED << alive, 
                                                                                                            res, 
                                                                                                            old >>
                                                                                       ELSE /\ IF op'[self].op = "sync"
                                                                                                  THEN /\ pc' = [pc EXCEPT ![self] = "s_call"]
                                                                                                       /\ UNCHANGED << alive, 
                                                                                                                       res, 
                                                                                                                       old >>
                                                                                                  ELSE /\ IF op'[self].op \in {"spawn", "spawnjoin"}
                                                                                                             THEN /\ pc' = [pc EXCEPT ![self] = "sp_spawn"]
                                                                                                                  /\ UNCHANGED << alive, 
                                                                                                                                  res, 
                                                                                                                                  old >>
                                                                                                             ELSE /\ IF op'[self].op = "join"
                                                                                                                        THEN /\ pc' = [pc EXCEPT ![self] = "j_wait"]
                                                                                                                             /\ UNCHANGED << alive, 
                                                                                                                                             res, 
                                                                                                                                             old >>
                                                                                                                        ELSE /\ IF old[self] # NULL
                                                                                                                                   THEN /\ alive' = [alive EXCEPT ![old[self]] = FALSE]
                                                                                                                                        /\ res' = [res EXCEPT ![self] = old[self]]
                                                                                                                                        /\ old' = [old EXCEPT ![self] = NULL]
                                                                                                                                   ELSE /\ TRUE
                                                                                                                                        /\ UNCHANGED << alive, 
                                                                                                                                                        res, 
                                                                                                                                                        old >>
                                                                                                                             /\ pc' = [pc EXCEPT ![self] = "t_ret"]
                     ELSE /\ pc' = [pc EXCEPT ![self] = "t_after"]
                          /\ UNCHANGED << alive, op, res, old >>
               /\ UNCHANGED << mem, sb, lock, acc, registry, cursnap, qsr, 
                               chunks, used, alloc, mremaps, refcount, rdr, 
                               keyval, sigBlocked, started, insig, saved, sigs, 
                               hcs, cs, pre, regSlot, i, tmp, g, held, om, 
                               rret, slot, expanded, wl, ph, scan, v, ipi, 
                               mret >>

rl_top(self) == /\ pc[self] = "rl_top"
                /\ IF rdr[self] = NULL
                      THEN /\ rret' = [rret EXCEPT ![self] = "rl"]
                           /\ pc' = [pc EXCEPT ![self] = "g_block"]
                      ELSE /\ pc' = [pc EXCEPT ![self] = "rl_rd"]
                           /\ rret' = rret
                /\ UNCHANGED << mem, sb, lock, acc, registry, cursnap, qsr, 
                                chunks, used, alloc, mremaps, refcount, rdr, 
                                keyval, sigBlocked, started, insig, saved, 
                                sigs, hcs, alive, cs, pre, regSlot, i, op, res, 
                                tmp, g, held, old, om, slot, expanded, wl, ph, 
                                scan, v, ipi, mret >>

rl_rd(self) == /\ pc[self] = "rl_rd"
               /\ tmp' = [tmp EXCEPT ![self] = Rd(self, RctrOf[rdr[self]])]
               /\ IF Nest(tmp'[self]) # 0
                     THEN /\ pc' = [pc EXCEPT ![self] = "rl_nest"]
                     ELSE /\ pc' = [pc EXCEPT ![self] = "rl_ld"]
               /\ UNCHANGED << mem, sb, lock, acc, registry, cursnap, qsr, 
                               chunks, used, alloc, mremaps, refcount, rdr, 
                               keyval, sigBlocked, started, insig, saved, sigs, 
                               hcs, alive, cs, pre, regSlot, i, op, res, g, 
                               held, old, om, rret, slot, expanded, wl, ph, 
                               scan, v, ipi, mret >>

rl_ld(self) == /\ pc[self] = "rl_ld"
               /\ g' = [g EXCEPT ![self] = Rd(self, "gp_ctr")]
               /\ acc' = Ev(self, "ld", "gp_ctr", "-", "-", Rd(self, "gp_ctr"))
               /\ pc' = [pc EXCEPT ![self] = "rl_st"]
               /\ UNCHANGED << mem, sb, lock, registry, cursnap, qsr, chunks, 
                               used, alloc, mremaps, refcount, rdr, keyval, 
                               sigBlocked, started, insig, saved, sigs, hcs, 
                               alive, cs, pre, regSlot, i, op, res, tmp, held, 
                               old, om, rret, slot, expanded, wl, ph, scan, v, 
                               ipi, mret >>

rl_st(self) == /\ pc[self] = "rl_st"
               /\ IF TSO
                     THEN /\ sb' = [sb EXCEPT ![self] = Append(sb[self], <<(RctrOf[rdr[self]]), g[self]>>)]
                          /\ mem' = mem
                     ELSE /\ mem' = [mem EXCEPT ![(RctrOf[rdr[self]])] = g[self]]
                          /\ sb' = sb
               /\ acc' = Ev(self, "st", (RctrOf[rdr[self]]), g[self], "-", "-")
               /\ pc' = [pc EXCEPT ![self] = "rl_mb"]
               /\ UNCHANGED << lock, registry, cursnap, qsr, chunks, used, 
                               alloc, mremaps, refcount, rdr, keyval, 
                               sigBlocked, started, insig, saved, sigs, hcs, 
                               alive, cs, pre, regSlot, i, op, res, tmp, g, 
                               held, old, om, rret, slot, expanded, wl, ph, 
                               scan, v, ipi, mret >>

rl_mb(self) == /\ pc[self] = "rl_mb"
               /\ IF ReaderFence /\ "rl_mb" \notin Skip
                     THEN /\ Drained(self)
                          /\ acc' = Ev(self, "mb", "-", "-", "-", "-")
                     ELSE /\ TRUE
                          /\ acc' = acc
               /\ pc' = [pc EXCEPT ![self] = "rl_in"]
               /\ UNCHANGED << mem, sb, lock, registry, cursnap, qsr, chunks, 
                               used, alloc, mremaps, refcount, rdr, keyval, 
                               sigBlocked, started, insig, saved, sigs, hcs, 
                               alive, cs, pre, regSlot, i, op, res, tmp, g, 
                               held, old, om, rret, slot, expanded, wl, ph, 
                               scan, v, ipi, mret >>

rl_in(self) == /\ pc[self] = "rl_in"
               /\ IF ~insig[self]
                     THEN /\ cs' = [cs EXCEPT ![self] = i[self]]
                          /\ hcs' = hcs
                     ELSE /\ IF cs[self] = 0
                                THEN /\ hcs' = [hcs EXCEPT ![self] = 1000 + sigs]
                                ELSE /\ TRUE
                                     /\ hcs' = hcs
                          /\ cs' = cs
               /\ pc' = [pc EXCEPT ![self] = "t_ret"]
               /\ UNCHANGED << mem, sb, lock, acc, registry, cursnap, qsr, 
                               chunks, used, alloc, mremaps, refcount, rdr, 
                               keyval, sigBlocked, started, insig, saved, sigs, 
                               alive, pre, regSlot, i, op, res, tmp, g, held, 
                               old, om, rret, slot, expanded, wl, ph, scan, v, 
                               ipi, mret >>

rl_nest(self) == /\ pc[self] = "rl_nest"
                 /\ IF TSO
                       THEN /\ sb' = [sb EXCEPT ![self] = Append(sb[self], <<(RctrOf[rdr[self]]), (tmp[self] + 1)>>)]
                            /\ mem' = mem
                       ELSE /\ mem' = [mem EXCEPT ![(RctrOf[rdr[self]])] = tmp[self] + 1]
                            /\ sb' = sb
                 /\ acc' = Ev(self, "st", (RctrOf[rdr[self]]), (tmp[self] + 1), "-", "-")
                 /\ pc' = [pc EXCEPT ![self] = "t_ret"]
                 /\ UNCHANGED << lock, registry, cursnap, qsr, chunks, used, 
                                 alloc, mremaps, refcount, rdr, keyval, 
                                 sigBlocked, started, insig, saved, sigs, hcs, 
                                 alive, cs, pre, regSlot, i, op, res, tmp, g, 
                                 held, old, om, rret, slot, expanded, wl, ph, 
                                 scan, v, ipi, mret >>

ru_top(self) == /\ pc[self] = "ru_top"
                /\ Assert(held[self] = NULL \/ alive[held[self]], 
                          "Failure of assertion at line 167, column 11.")
                /\ tmp' = [tmp EXCEPT ![self] = Rd(self, RctrOf[rdr[self]])]
                /\ IF Nest(tmp'[self]) = 1
                      THEN /\ held' = [held EXCEPT ![self] = NULL]
                           /\ IF ~insig[self]
                                 THEN /\ cs' = [cs EXCEPT ![self] = 0]
                                      /\ hcs' = hcs
                                 ELSE /\ hcs' = [hcs EXCEPT ![self] = 0]
                                      /\ cs' = cs
                      ELSE /\ TRUE
                           /\ UNCHANGED << hcs, cs, held >>
                /\ pc' = [pc EXCEPT ![self] = "ru_mb"]
                /\ UNCHANGED << mem, sb, lock, acc, registry, cursnap, qsr, 
                                chunks, used, alloc, mremaps, refcount, rdr, 
                                keyval, sigBlocked, started, insig, saved, 
                                sigs, alive, pre, regSlot, i, op, res, g, old, 
                                om, rret, slot, expanded, wl, ph, scan, v, ipi, 
                                mret >>

ru_mb(self) == /\ pc[self] = "ru_mb"
               /\ IF ReaderFence /\ "ru_mb" \notin Skip
                     THEN /\ Drained(self)
                          /\ acc' = Ev(self, "mb", "-", "-", "-", "-")
                     ELSE /\ TRUE
                          /\ acc' = acc
               /\ pc' = [pc EXCEPT ![self] = "ru_st"]
               /\ UNCHANGED << mem, sb, lock, registry, cursnap, qsr, chunks, 
                               used, alloc, mremaps, refcount, rdr, keyval, 
                               sigBlocked, started, insig, saved, sigs, hcs, 
                               alive, cs, pre, regSlot, i, op, res, tmp, g, 
                               held, old, om, rret, slot, expanded, wl, ph, 
                               scan, v, ipi, mret >>

ru_st(self) == /\ pc[self] = "ru_st"
               /\ IF TSO
                     THEN /\ sb' = [sb EXCEPT ![self] = Append(sb[self], <<(RctrOf[rdr[self]]), (tmp[self] - 1)>>)]
                          /\ mem' = mem
                     ELSE /\ mem' = [mem EXCEPT ![(RctrOf[rdr[self]])] = tmp[self] - 1]
                          /\ sb' = sb
               /\ acc' = Ev(self, "st", (RctrOf[rdr[self]]), (tmp[self] - 1), "-", "-")
               /\ pc' = [pc EXCEPT ![self] = "t_ret"]
               /\ UNCHANGED << lock, registry, cursnap, qsr, chunks, used, 
                               alloc, mremaps, refcount, rdr, keyval, 
                               sigBlocked, started, insig, saved, sigs, hcs, 
                               alive, cs, pre, regSlot, i, op, res, tmp, g, 
                               held, old, om, rret, slot, expanded, wl, ph, 
                               scan, v, ipi, mret >>

rg_top(self) == /\ pc[self] = "rg_top"
                /\ IF rdr[self] = NULL
                      THEN /\ rret' = [rret EXCEPT ![self] = "reg"]
                           /\ pc' = [pc EXCEPT ![self] = "g_block"]
                      ELSE /\ pc' = [pc EXCEPT ![self] = "t_ret"]
                           /\ rret' = rret
                /\ UNCHANGED << mem, sb, lock, acc, registry, cursnap, qsr, 
                                chunks, used, alloc, mremaps, refcount, rdr, 
                                keyval, sigBlocked, started, insig, saved, 
                                sigs, hcs, alive, cs, pre, regSlot, i, op, res, 
                                tmp, g, held, old, om, slot, expanded, wl, ph, 
                                scan, v, ipi, mret >>

g_block(self) == /\ pc[self] = "g_block"
                 /\ IF "noblock_reg" \notin Mut
                       THEN /\ om' = [om EXCEPT ![self] = sigBlocked[self]]
                            /\ sigBlocked' = [sigBlocked EXCEPT ![self] = TRUE]
                            /\ acc' = Ev(self, "sigm", "blocked", "-", "-", "-")
                       ELSE /\ TRUE
                            /\ UNCHANGED << acc, sigBlocked, om >>
                 /\ pc' = [pc EXCEPT ![self] = "g_chk"]
                 /\ UNCHANGED << mem, sb, lock, registry, cursnap, qsr, chunks, 
                                 used, alloc, mremaps, refcount, rdr, keyval, 
                                 started, insig, saved, sigs, hcs, alive, cs, 
                                 pre, regSlot, i, op, res, tmp, g, held, old, 
                                 rret, slot, expanded, wl, ph, scan, v, ipi, 
                                 mret >>

g_chk(self) == /\ pc[self] = "g_chk"
               /\ IF rdr[self] # NULL /\ "norecheck" \notin Mut
                     THEN /\ pc' = [pc EXCEPT ![self] = "g_end"]
                     ELSE /\ pc' = [pc EXCEPT ![self] = "gi_lock"]
               /\ UNCHANGED << mem, sb, lock, acc, registry, cursnap, qsr, 
                               chunks, used, alloc, mremaps, refcount, rdr, 
                               keyval, sigBlocked, started, insig, saved, sigs, 
                               hcs, alive, cs, pre, regSlot, i, op, res, tmp, 
                               g, held, old, om, rret, slot, expanded, wl, ph, 
                               scan, v, ipi, mret >>

gi_lock(self) == /\ pc[self] = "gi_lock"
                 /\ Drained(self) /\ lock["init_lock"] = "free"
                 /\ lock' = [lock EXCEPT !["init_lock"] = self]
                 /\ acc' = Ev(self, "lock", "init_lock", "-", "-", "-")
                 /\ refcount' = refcount + 1
                 /\ pc' = [pc EXCEPT ![self] = "gi_unl"]
                 /\ UNCHANGED << mem, sb, registry, cursnap, qsr, chunks, used, 
                                 alloc, mremaps, rdr, keyval, sigBlocked, 
                                 started, insig, saved, sigs, hcs, alive, cs, 
                                 pre, regSlot, i, op, res, tmp, g, held, old, 
                                 om, rret, slot, expanded, wl, ph, scan, v, 
                                 ipi, mret >>

gi_unl(self) == /\ pc[self] = "gi_unl"
                /\ Drained(self)
                /\ lock' = [lock EXCEPT !["init_lock"] = "free"]
                /\ acc' = Ev(self, "unlock", "init_lock", "-", "-", "-")
                /\ pc' = [pc EXCEPT ![self] = "g_lock"]
                /\ UNCHANGED << mem, sb, registry, cursnap, qsr, chunks, used, 
                                alloc, mremaps, refcount, rdr, keyval, 
                                sigBlocked, started, insig, saved, sigs, hcs, 
                                alive, cs, pre, regSlot, i, op, res, tmp, g, 
                                held, old, om, rret, slot, expanded, wl, ph, 
                                scan, v, ipi, mret >>

g_lock(self) == /\ pc[self] = "g_lock"
                /\ Drained(self) /\ lock["registry_lock"] = "free"
                /\ lock' = [lock EXCEPT !["registry_lock"] = self]
                /\ acc' = Ev(self, "lock", "registry_lock", "-", "-", "-")
                /\ expanded' = [expanded EXCEPT ![self] = FALSE]
                /\ pc' = [pc EXCEPT ![self] = "aa_scan"]
                /\ UNCHANGED << mem, sb, registry, cursnap, qsr, chunks, used, 
                                alloc, mremaps, refcount, rdr, keyval, 
                                sigBlocked, started, insig, saved, sigs, hcs, 
                                alive, cs, pre, regSlot, i, op, res, tmp, g, 
                                held, old, om, rret, slot, wl, ph, scan, v, 
                                ipi, mret >>

aa_scan(self) == /\ pc[self] = "aa_scan"
                 /\ IF Cand # {}
                       THEN /\ LET c == Min(Cand) IN
                                 LET s == SlotAt[Min(Cand)][Min(FreeIn(Min(Cand)))] IN
                                   /\ slot' = [slot EXCEPT ![self] = s]
                                   /\ alloc' = (alloc \cup {s})
                                   /\ used' = [used EXCEPT ![c + 1] = used[c + 1] + 1]
                            /\ pc' = [pc EXCEPT ![self] = "at_set"]
                       ELSE /\ Assert(~expanded[self], 
                                      "Failure of assertion at line 194, column 20.")
                            /\ pc' = [pc EXCEPT ![self] = "ea_top"]
                            /\ UNCHANGED << used, alloc, slot >>
                 /\ UNCHANGED << mem, sb, lock, acc, registry, cursnap, qsr, 
                                 chunks, mremaps, refcount, rdr, keyval, 
                                 sigBlocked, started, insig, saved, sigs, hcs, 
                                 alive, cs, pre, regSlot, i, op, res, tmp, g, 
                                 held, old, om, rret, expanded, wl, ph, scan, 
                                 v, ipi, mret >>

ea_top(self) == /\ pc[self] = "ea_top"
                /\ expanded' = [expanded EXCEPT ![self] = TRUE]
                /\ Assert(FreeSlots = {}, 
                          "Failure of assertion at line 197, column 11.")
                /\ IF chunks = <<>>
                      THEN /\ pc' = [pc EXCEPT ![self] = "ea_mmap0"]
                      ELSE /\ pc' = [pc EXCEPT ![self] = "ea_mremap"]
                /\ UNCHANGED << mem, sb, lock, acc, registry, cursnap, qsr, 
                                chunks, used, alloc, mremaps, refcount, rdr, 
                                keyval, sigBlocked, started, insig, saved, 
                                sigs, hcs, alive, cs, pre, regSlot, i, op, res, 
                                tmp, g, held, old, om, rret, slot, wl, ph, 
                                scan, v, ipi, mret >>

ea_mmap0(self) == /\ pc[self] = "ea_mmap0"
                  /\ /\ chunks' = <<InitCap>>
                     /\ used' = <<0>>
                  /\ acc' = EvS(self, "mmap", "c0")
                  /\ pc' = [pc EXCEPT ![self] = "aa_scan"]
                  /\ UNCHANGED << mem, sb, lock, registry, cursnap, qsr, alloc, 
                                  mremaps, refcount, rdr, keyval, sigBlocked, 
                                  started, insig, saved, sigs, hcs, alive, cs, 
                                  pre, regSlot, i, op, res, tmp, g, held, old, 
                                  om, rret, slot, expanded, wl, ph, scan, v, 
                                  ipi, mret >>

ea_mremap(self) == /\ pc[self] = "ea_mremap"
                   /\ mremaps' = mremaps + 1
                   /\ IF (mremaps' - 1) \in MremapFail
                         THEN /\ acc' = EvS(self, "mremap", "fail")
                              /\ pc' = [pc EXCEPT ![self] = "ea_mmap"]
                              /\ UNCHANGED chunks
                         ELSE /\ chunks' = [chunks EXCEPT ![Len(chunks)] = 2 * chunks[Len(chunks)]]
                              /\ acc' = EvS(self, "mremap", "ok")
                              /\ pc' = [pc EXCEPT ![self] = "aa_scan"]
                   /\ UNCHANGED << mem, sb, lock, registry, cursnap, qsr, used, 
                                   alloc, refcount, rdr, keyval, sigBlocked, 
                                   started, insig, saved, sigs, hcs, alive, cs, 
                                   pre, regSlot, i, op, res, tmp, g, held, old, 
                                   om, rret, slot, expanded, wl, ph, scan, v, 
                                   ipi, mret >>

ea_mmap(self) == /\ pc[self] = "ea_mmap"
                 /\ /\ chunks' = Append(chunks, 2 * chunks[Len(chunks)])
                    /\ used' = Append(used, 0)
                 /\ acc' = EvS(self, "mmap", "c" \o ToString(Len(chunks') - 1))
                 /\ pc' = [pc EXCEPT ![self] = "aa_scan"]
                 /\ UNCHANGED << mem, sb, lock, registry, cursnap, qsr, alloc, 
                                 mremaps, refcount, rdr, keyval, sigBlocked, 
                                 started, insig, saved, sigs, hcs, alive, cs, 
                                 pre, regSlot, i, op, res, tmp, g, held, old, 
                                 om, rret, slot, expanded, wl, ph, scan, v, 
                                 ipi, mret >>

at_set(self) == /\ pc[self] = "at_set"
                /\ keyval' = [keyval EXCEPT ![self] = slot[self]]
                /\ Assert(mem[RctrOf[slot[self]]] = 0, 
                          "Failure of assertion at line 209, column 11.")
                /\ registry' = <<slot[self]>> \o registry
                /\ rdr' = [rdr EXCEPT ![self] = slot[self]]
                /\ IF regSlot[self] = NULL
                      THEN /\ regSlot' = [regSlot EXCEPT ![self] = slot[self]]
                      ELSE /\ TRUE
                           /\ UNCHANGED regSlot
                /\ acc' = EvS(self, "slot", slot[self])
                /\ pc' = [pc EXCEPT ![self] = "g_unl"]
                /\ UNCHANGED << mem, sb, lock, cursnap, qsr, chunks, used, 
                                alloc, mremaps, refcount, sigBlocked, started, 
                                insig, saved, sigs, hcs, alive, cs, pre, i, op, 
                                res, tmp, g, held, old, om, rret, slot, 
                                expanded, wl, ph, scan, v, ipi, mret >>

g_unl(self) == /\ pc[self] = "g_unl"
               /\ Drained(self)
               /\ lock' = [lock EXCEPT !["registry_lock"] = "free"]
               /\ acc' = Ev(self, "unlock", "registry_lock", "-", "-", "-")
               /\ pc' = [pc EXCEPT ![self] = "g_end"]
               /\ UNCHANGED << mem, sb, registry, cursnap, qsr, chunks, used, 
                               alloc, mremaps, refcount, rdr, keyval, 
                               sigBlocked, started, insig, saved, sigs, hcs, 
                               alive, cs, pre, regSlot, i, op, res, tmp, g, 
                               held, old, om, rret, slot, expanded, wl, ph, 
                               scan, v, ipi, mret >>

g_end(self) == /\ pc[self] = "g_end"
               /\ IF "noblock_reg" \notin Mut
                     THEN /\ sigBlocked' = [sigBlocked EXCEPT ![self] = om[self]]
                          /\ acc' = EvS(self, "sigm", MaskName(om[self]))
                     ELSE /\ TRUE
                          /\ UNCHANGED << acc, sigBlocked >>
               /\ IF rret[self] = "rl"
                     THEN /\ pc' = [pc EXCEPT ![self] = "rl_rd"]
                     ELSE /\ pc' = [pc EXCEPT ![self] = "t_ret"]
               /\ UNCHANGED << mem, sb, lock, registry, cursnap, qsr, chunks, 
                               used, alloc, mremaps, refcount, rdr, keyval, 
                               started, insig, saved, sigs, hcs, alive, cs, 
                               pre, regSlot, i, op, res, tmp, g, held, old, om, 
                               rret, slot, expanded, wl, ph, scan, v, ipi, 
                               mret >>

dr_ld(self) == /\ pc[self] = "dr_ld"
               /\ held' = [held EXCEPT ![self] = Rd(self, "gptr")]
               /\ acc' = Ev(self, "ld", "gptr", "-", "-", Rd(self, "gptr"))
               /\ res' = [res EXCEPT ![self] = held'[self]]
               /\ pc' = [pc EXCEPT ![self] = "t_ret"]
               /\ UNCHANGED << mem, sb, lock, registry, cursnap, qsr, chunks, 
                               used, alloc, mremaps, refcount, rdr, keyval, 
                               sigBlocked, started, insig, saved, sigs, hcs, 
                               alive, cs, pre, regSlot, i, op, tmp, g, old, om, 
                               rret, slot, expanded, wl, ph, scan, v, ipi, 
                               mret >>

p_xchg(self) == /\ pc[self] = "p_xchg"
                /\ Drained(self)
                /\ old' = [old EXCEPT ![self] = mem["gptr"]]
                /\ mem' = [mem EXCEPT !["gptr"] = op[self].o]
                /\ acc' = Ev(self, "xchg", "gptr", (op[self].o), "-", old'[self])
                /\ res' = [res EXCEPT ![self] = old'[self]]
                /\ pc' = [pc EXCEPT ![self] = "t_ret"]
                /\ UNCHANGED << sb, lock, registry, cursnap, qsr, chunks, used, 
                                alloc, mremaps, refcount, rdr, keyval, 
                                sigBlocked, started, insig, saved, sigs, hcs, 
                                alive, cs, pre, regSlot, i, op, tmp, g, held, 
                                om, rret, slot, expanded, wl, ph, scan, v, ipi, 
                                mret >>

sp_spawn(self) == /\ pc[self] = "sp_spawn"
                  /\ started' = [started EXCEPT ![op[self].t] = TRUE]
                  /\ acc' = EvS(self, "spawned", op[self].t)
                  /\ IF op[self].op = "spawn"
                        THEN /\ pc' = [pc EXCEPT ![self] = "t_ret"]
                        ELSE /\ pc' = [pc EXCEPT ![self] = "j_wait"]
                  /\ UNCHANGED << mem, sb, lock, registry, cursnap, qsr, 
                                  chunks, used, alloc, mremaps, refcount, rdr, 
                                  keyval, sigBlocked, insig, saved, sigs, hcs, 
                                  alive, cs, pre, regSlot, i, op, res, tmp, g, 
                                  held, old, om, rret, slot, expanded, wl, ph, 
                                  scan, v, ipi, mret >>

j_wait(self) == /\ pc[self] = "j_wait"
                /\ pc[op[self].t] = "Done" /\ Drained(self)
                /\ acc' = Ev(self, "join", op[self].t, "-", "-", "-")
                /\ pc' = [pc EXCEPT ![self] = "t_ret"]
                /\ UNCHANGED << mem, sb, lock, registry, cursnap, qsr, chunks, 
                                used, alloc, mremaps, refcount, rdr, keyval, 
                                sigBlocked, started, insig, saved, sigs, hcs, 
                                alive, cs, pre, regSlot, i, op, res, tmp, g, 
                                held, old, om, rret, slot, expanded, wl, ph, 
                                scan, v, ipi, mret >>

s_call(self) == /\ pc[self] = "s_call"
                /\ pre' = [pre EXCEPT ![self] = OpenCS]
                /\ pc' = [pc EXCEPT ![self] = "s_block"]
                /\ UNCHANGED << mem, sb, lock, acc, registry, cursnap, qsr, 
                                chunks, used, alloc, mremaps, refcount, rdr, 
                                keyval, sigBlocked, started, insig, saved, 
                                sigs, hcs, alive, cs, regSlot, i, op, res, tmp, 
                                g, held, old, om, rret, slot, expanded, wl, ph, 
                                scan, v, ipi, mret >>

s_block(self) == /\ pc[self] = "s_block"
                 /\ om' = [om EXCEPT ![self] = sigBlocked[self]]
                 /\ sigBlocked' = [sigBlocked EXCEPT ![self] = TRUE]
                 /\ acc' = Ev(self, "sigm", "blocked", "-", "-", "-")
                 /\ pc' = [pc EXCEPT ![self] = "s_gplk"]
                 /\ UNCHANGED << mem, sb, lock, registry, cursnap, qsr, chunks, 
                                 used, alloc, mremaps, refcount, rdr, keyval, 
                                 started, insig, saved, sigs, hcs, alive, cs, 
                                 pre, regSlot, i, op, res, tmp, g, held, old, 
                                 rret, slot, expanded, wl, ph, scan, v, ipi, 
                                 mret >>

s_gplk(self) == /\ pc[self] = "s_gplk"
                /\ Drained(self) /\ lock["gp_lock"] = "free"
                /\ lock' = [lock EXCEPT !["gp_lock"] = self]
                /\ acc' = Ev(self, "lock", "gp_lock", "-", "-", "-")
                /\ pc' = [pc EXCEPT ![self] = "s_rglk"]
                /\ UNCHANGED << mem, sb, registry, cursnap, qsr, chunks, used, 
                                alloc, mremaps, refcount, rdr, keyval, 
                                sigBlocked, started, insig, saved, sigs, hcs, 
                                alive, cs, pre, regSlot, i, op, res, tmp, g, 
                                held, old, om, rret, slot, expanded, wl, ph, 
                                scan, v, ipi, mret >>

s_rglk(self) == /\ pc[self] = "s_rglk"
                /\ Drained(self) /\ lock["registry_lock"] = "free"
                /\ lock' = [lock EXCEPT !["registry_lock"] = self]
                /\ acc' = Ev(self, "lock", "registry_lock", "-", "-", "-")
                /\ IF registry = <<>>
                      THEN /\ pc' = [pc EXCEPT ![self] = "s_out"]
                      ELSE /\ pc' = [pc EXCEPT ![self] = "s_mm1"]
                /\ UNCHANGED << mem, sb, registry, cursnap, qsr, chunks, used, 
                                alloc, mremaps, refcount, rdr, keyval, 
                                sigBlocked, started, insig, saved, sigs, hcs, 
                                alive, cs, pre, regSlot, i, op, res, tmp, g, 
                                held, old, om, rret, slot, expanded, wl, ph, 
                                scan, v, ipi, mret >>

s_mm1(self) == /\ pc[self] = "s_mm1"
               /\ mret' = [mret EXCEPT ![self] = "s_p1"]
               /\ pc' = [pc EXCEPT ![self] = "master"]
               /\ UNCHANGED << mem, sb, lock, acc, registry, cursnap, qsr, 
                               chunks, used, alloc, mremaps, refcount, rdr, 
                               keyval, sigBlocked, started, insig, saved, sigs, 
                               hcs, alive, cs, pre, regSlot, i, op, res, tmp, 
                               g, held, old, om, rret, slot, expanded, wl, ph, 
                               scan, v, ipi >>

s_p1(self) == /\ pc[self] = "s_p1"
              /\ ph' = [ph EXCEPT ![self] = 1]
              /\ pc' = [pc EXCEPT ![self] = "w_top"]
              /\ UNCHANGED << mem, sb, lock, acc, registry, cursnap, qsr, 
                              chunks, used, alloc, mremaps, refcount, rdr, 
                              keyval, sigBlocked, started, insig, saved, sigs, 
                              hcs, alive, cs, pre, regSlot, i, op, res, tmp, g, 
                              held, old, om, rret, slot, expanded, wl, scan, v, 
                              ipi, mret >>

s_mb2(self) == /\ pc[self] = "s_mb2"
               /\ IF "s_mb2" \notin Skip
                     THEN /\ Drained(self)
                          /\ acc' = Ev(self, "mb", "-", "-", "-", "-")
                     ELSE /\ TRUE
                          /\ acc' = acc
               /\ pc' = [pc EXCEPT ![self] = "s_flip"]
               /\ UNCHANGED << mem, sb, lock, registry, cursnap, qsr, chunks, 
                               used, alloc, mremaps, refcount, rdr, keyval, 
                               sigBlocked, started, insig, saved, sigs, hcs, 
                               alive, cs, pre, regSlot, i, op, res, tmp, g, 
                               held, old, om, rret, slot, expanded, wl, ph, 
                               scan, v, ipi, mret >>

s_flip(self) == /\ pc[self] = "s_flip"
                /\ IF TSO
                      THEN /\ sb' = [sb EXCEPT ![self] = Append(sb[self], <<"gp_ctr", (IF Ph(Rd(self, "gp_ctr")) = 0 THEN Rd(self, "gp_ctr") + PHASE ELSE Rd(self, "gp_ctr") - PHASE)>>)]
                           /\ mem' = mem
                      ELSE /\ mem' = [mem EXCEPT !["gp_ctr"] = IF Ph(Rd(self, "gp_ctr")) = 0 THEN Rd(self, "gp_ctr") + PHASE ELSE Rd(self, "gp_ctr") - PHASE]
                           /\ sb' = sb
                /\ acc' = Ev(self, "st", "gp_ctr", (IF Ph(Rd(self, "gp_ctr")) = 0 THEN Rd(self, "gp_ctr") + PHASE ELSE Rd(self, "gp_ctr") - PHASE), "-", "-")
                /\ pc' = [pc EXCEPT ![self] = "s_mb3"]
                /\ UNCHANGED << lock, registry, cursnap, qsr, chunks, used, 
                                alloc, mremaps, refcount, rdr, keyval, 
                                sigBlocked, started, insig, saved, sigs, hcs, 
                                alive, cs, pre, regSlot, i, op, res, tmp, g, 
                                held, old, om, rret, slot, expanded, wl, ph, 
                                scan, v, ipi, mret >>

s_mb3(self) == /\ pc[self] = "s_mb3"
               /\ IF "s_mb3" \notin Skip
                     THEN /\ Drained(self)
                          /\ acc' = Ev(self, "mb", "-", "-", "-", "-")
                     ELSE /\ TRUE
                          /\ acc' = acc
               /\ pc' = [pc EXCEPT ![self] = "s_p2"]
               /\ UNCHANGED << mem, sb, lock, registry, cursnap, qsr, chunks, 
                               used, alloc, mremaps, refcount, rdr, keyval, 
                               sigBlocked, started, insig, saved, sigs, hcs, 
                               alive, cs, pre, regSlot, i, op, res, tmp, g, 
                               held, old, om, rret, slot, expanded, wl, ph, 
                               scan, v, ipi, mret >>

s_p2(self) == /\ pc[self] = "s_p2"
              /\ IF "onephase" \in Mut
                    THEN /\ /\ cursnap' = <<>>
                            /\ qsr' = cursnap \o qsr
                         /\ pc' = [pc EXCEPT ![self] = "s_splice"]
                         /\ ph' = ph
                    ELSE /\ ph' = [ph EXCEPT ![self] = 2]
                         /\ pc' = [pc EXCEPT ![self] = "w_top"]
                         /\ UNCHANGED << cursnap, qsr >>
              /\ UNCHANGED << mem, sb, lock, acc, registry, chunks, used, 
                              alloc, mremaps, refcount, rdr, keyval, 
                              sigBlocked, started, insig, saved, sigs, hcs, 
                              alive, cs, pre, regSlot, i, op, res, tmp, g, 
                              held, old, om, rret, slot, expanded, wl, scan, v, 
                              ipi, mret >>

s_splice(self) == /\ pc[self] = "s_splice"
                  /\ /\ qsr' = <<>>
                     /\ registry' = qsr \o registry
                  /\ pc' = [pc EXCEPT ![self] = "s_mm2"]
                  /\ UNCHANGED << mem, sb, lock, acc, cursnap, chunks, used, 
                                  alloc, mremaps, refcount, rdr, keyval, 
                                  sigBlocked, started, insig, saved, sigs, hcs, 
                                  alive, cs, pre, regSlot, i, op, res, tmp, g, 
                                  held, old, om, rret, slot, expanded, wl, ph, 
                                  scan, v, ipi, mret >>

s_mm2(self) == /\ pc[self] = "s_mm2"
               /\ mret' = [mret EXCEPT ![self] = "s_out"]
               /\ pc' = [pc EXCEPT ![self] = "master"]
               /\ UNCHANGED << mem, sb, lock, acc, registry, cursnap, qsr, 
                               chunks, used, alloc, mremaps, refcount, rdr, 
                               keyval, sigBlocked, started, insig, saved, sigs, 
                               hcs, alive, cs, pre, regSlot, i, op, res, tmp, 
                               g, held, old, om, rret, slot, expanded, wl, ph, 
                               scan, v, ipi >>

s_out(self) == /\ pc[self] = "s_out"
               /\ Drained(self)
               /\ lock' = [lock EXCEPT !["registry_lock"] = "free"]
               /\ acc' = Ev(self, "unlock", "registry_lock", "-", "-", "-")
               /\ pc' = [pc EXCEPT ![self] = "s_gpun"]
               /\ UNCHANGED << mem, sb, registry, cursnap, qsr, chunks, used, 
                               alloc, mremaps, refcount, rdr, keyval, 
                               sigBlocked, started, insig, saved, sigs, hcs, 
                               alive, cs, pre, regSlot, i, op, res, tmp, g, 
                               held, old, om, rret, slot, expanded, wl, ph, 
                               scan, v, ipi, mret >>

s_gpun(self) == /\ pc[self] = "s_gpun"
                /\ Drained(self)
                /\ lock' = [lock EXCEPT !["gp_lock"] = "free"]
                /\ acc' = Ev(self, "unlock", "gp_lock", "-", "-", "-")
                /\ pc' = [pc EXCEPT ![self] = "s_rest"]
                /\ UNCHANGED << mem, sb, registry, cursnap, qsr, chunks, used, 
                                alloc, mremaps, refcount, rdr, keyval, 
                                sigBlocked, started, insig, saved, sigs, hcs, 
                                alive, cs, pre, regSlot, i, op, res, tmp, g, 
                                held, old, om, rret, slot, expanded, wl, ph, 
                                scan, v, ipi, mret >>

s_rest(self) == /\ pc[self] = "s_rest"
                /\ sigBlocked' = [sigBlocked EXCEPT ![self] = om[self]]
                /\ acc' = EvS(self, "sigm", MaskName(om[self]))
                /\ pc' = [pc EXCEPT ![self] = "s_ret"]
                /\ UNCHANGED << mem, sb, lock, registry, cursnap, qsr, chunks, 
                                used, alloc, mremaps, refcount, rdr, keyval, 
                                started, insig, saved, sigs, hcs, alive, cs, 
                                pre, regSlot, i, op, res, tmp, g, held, old, 
                                om, rret, slot, expanded, wl, ph, scan, v, ipi, 
                                mret >>

s_ret(self) == /\ pc[self] = "s_ret"
               /\ Assert(pre[self] \cap OpenCS = {}, 
                         "Failure of assertion at line 248, column 11.")
               /\ pre' = [pre EXCEPT ![self] = {}]
               /\ pc' = [pc EXCEPT ![self] = "t_ret"]
               /\ UNCHANGED << mem, sb, lock, acc, registry, cursnap, qsr, 
                               chunks, used, alloc, mremaps, refcount, rdr, 
                               keyval, sigBlocked, started, insig, saved, sigs, 
                               hcs, alive, cs, regSlot, i, op, res, tmp, g, 
                               held, old, om, rret, slot, expanded, wl, ph, 
                               scan, v, ipi, mret >>

w_top(self) == /\ pc[self] = "w_top"
               /\ wl' = [wl EXCEPT ![self] = 0]
               /\ pc' = [pc EXCEPT ![self] = "w_loop"]
               /\ UNCHANGED << mem, sb, lock, acc, registry, cursnap, qsr, 
                               chunks, used, alloc, mremaps, refcount, rdr, 
                               keyval, sigBlocked, started, insig, saved, sigs, 
                               hcs, alive, cs, pre, regSlot, i, op, res, tmp, 
                               g, held, old, om, rret, slot, expanded, ph, 
                               scan, v, ipi, mret >>

w_loop(self) == /\ pc[self] = "w_loop"
                /\ IF wl[self] < QSAttempts
                      THEN /\ wl' = [wl EXCEPT ![self] = wl[self] + 1]
                      ELSE /\ TRUE
                           /\ wl' = wl
                /\ scan' = [scan EXCEPT ![self] = IF ph[self] = 1 THEN registry ELSE cursnap]
                /\ pc' = [pc EXCEPT ![self] = "w_scan"]
                /\ UNCHANGED << mem, sb, lock, acc, registry, cursnap, qsr, 
                                chunks, used, alloc, mremaps, refcount, rdr, 
                                keyval, sigBlocked, started, insig, saved, 
                                sigs, hcs, alive, cs, pre, regSlot, i, op, res, 
                                tmp, g, held, old, om, rret, slot, expanded, 
                                ph, v, ipi, mret >>

w_scan(self) == /\ pc[self] = "w_scan"
                /\ IF scan[self] = <<>>
                      THEN /\ pc' = [pc EXCEPT ![self] = "w_chk"]
                      ELSE /\ pc' = [pc EXCEPT ![self] = "w_ldr"]
                /\ UNCHANGED << mem, sb, lock, acc, registry, cursnap, qsr, 
                                chunks, used, alloc, mremaps, refcount, rdr, 
                                keyval, sigBlocked, started, insig, saved, 
                                sigs, hcs, alive, cs, pre, regSlot, i, op, res, 
                                tmp, g, held, old, om, rret, slot, expanded, 
                                wl, ph, scan, v, ipi, mret >>

w_ldr(self) == /\ pc[self] = "w_ldr"
               /\ LET r == Head(scan[self]) IN
                    /\ v' = [v EXCEPT ![self] = Rd(self, RctrOf[r])]
                    /\ acc' = Ev(self, "ld", RctrOf[r], "-", "-", Rd(self, RctrOf[r]))
                    /\ scan' = [scan EXCEPT ![self] = Tail(scan[self])]
                    /\ IF "stuck" \in Mut
                          THEN /\ TRUE
                               /\ UNCHANGED << registry, cursnap, qsr >>
                          ELSE /\ IF Nest(Rd(self, RctrOf[r])) = 0
                                     THEN /\ IF ph[self] = 1
                                                THEN /\ registry' = Del(registry, r)
                                                     /\ UNCHANGED cursnap
                                                ELSE /\ cursnap' = Del(cursnap, r)
                                                     /\ UNCHANGED registry
                                          /\ qsr' = <<r>> \o qsr
                                     ELSE /\ IF Ph(Rd(self, RctrOf[r])) = Ph(Rd(self, "gp_ctr"))
                                                THEN /\ IF ph[self] = 1
                                                           THEN /\ registry' = Del(registry, r)
                                                                /\ cursnap' = <<r>> \o cursnap
                                                                /\ qsr' = qsr
                                                           ELSE /\ cursnap' = Del(cursnap, r)
                                                                /\ qsr' = <<r>> \o qsr
                                                                /\ UNCHANGED registry
                                                ELSE /\ TRUE
                                                     /\ UNCHANGED << registry, 
                                                                     cursnap, 
                                                                     qsr >>
               /\ pc' = [pc EXCEPT ![self] = "w_scan"]
               /\ UNCHANGED << mem, sb, lock, chunks, used, alloc, mremaps, 
                               refcount, rdr, keyval, sigBlocked, started, 
                               insig, saved, sigs, hcs, alive, cs, pre, 
                               regSlot, i, op, res, tmp, g, held, old, om, 
                               rret, slot, expanded, wl, ph, ipi, mret >>

w_chk(self) == /\ pc[self] = "w_chk"
               /\ IF (IF ph[self] = 1 THEN registry ELSE cursnap) = <<>>
                     THEN /\ IF ph[self] = 1
                                THEN /\ pc' = [pc EXCEPT ![self] = "s_mb2"]
                                ELSE /\ pc' = [pc EXCEPT ![self] = "s_splice"]
                     ELSE /\ pc' = [pc EXCEPT ![self] = "w_unl"]
               /\ UNCHANGED << mem, sb, lock, acc, registry, cursnap, qsr, 
                               chunks, used, alloc, mremaps, refcount, rdr, 
                               keyval, sigBlocked, started, insig, saved, sigs, 
                               hcs, alive, cs, pre, regSlot, i, op, res, tmp, 
                               g, held, old, om, rret, slot, expanded, wl, ph, 
                               scan, v, ipi, mret >>

w_unl(self) == /\ pc[self] = "w_unl"
               /\ Drained(self)
               /\ lock' = [lock EXCEPT !["registry_lock"] = "free"]
               /\ acc' = Ev(self, "unlock", "registry_lock", "-", "-", "-")
               /\ pc' = [pc EXCEPT ![self] = "w_wait"]
               /\ UNCHANGED << mem, sb, registry, cursnap, qsr, chunks, used, 
                               alloc, mremaps, refcount, rdr, keyval, 
                               sigBlocked, started, insig, saved, sigs, hcs, 
                               alive, cs, pre, regSlot, i, op, res, tmp, g, 
                               held, old, om, rret, slot, expanded, wl, ph, 
                               scan, v, ipi, mret >>

w_wait(self) == /\ pc[self] = "w_wait"
                /\ acc' = EvS(self, IF wl[self] >= QSAttempts THEN "poll" ELSE "relax", "-")
                /\ pc' = [pc EXCEPT ![self] = "w_lock"]
                /\ UNCHANGED << mem, sb, lock, registry, cursnap, qsr, chunks, 
                                used, alloc, mremaps, refcount, rdr, keyval, 
                                sigBlocked, started, insig, saved, sigs, hcs, 
                                alive, cs, pre, regSlot, i, op, res, tmp, g, 
                                held, old, om, rret, slot, expanded, wl, ph, 
                                scan, v, ipi, mret >>

w_lock(self) == /\ pc[self] = "w_lock"
                /\ Drained(self) /\ lock["registry_lock"] = "free"
                /\ lock' = [lock EXCEPT !["registry_lock"] = self]
                /\ acc' = Ev(self, "lock", "registry_lock", "-", "-", "-")
                /\ pc' = [pc EXCEPT ![self] = "w_loop"]
                /\ UNCHANGED << mem, sb, registry, cursnap, qsr, chunks, used, 
                                alloc, mremaps, refcount, rdr, keyval, 
                                sigBlocked, started, insig, saved, sigs, hcs, 
                                alive, cs, pre, regSlot, i, op, res, tmp, g, 
                                held, old, om, rret, slot, expanded, wl, ph, 
                                scan, v, ipi, mret >>

master(self) == /\ pc[self] = "master"
                /\ IF (mret[self] = "s_p1" /\ "s_mm1" \in Skip) \/ (mret[self] = "s_out" /\ "s_mm2" \in Skip)
                      THEN /\ pc' = [pc EXCEPT ![self] = "m_ret"]
                           /\ ipi' = ipi
                      ELSE /\ IF SysMb
                                 THEN /\ ipi' = [ipi EXCEPT ![self] = Threads]
                                      /\ pc' = [pc EXCEPT ![self] = "m_ipi"]
                                 ELSE /\ pc' = [pc EXCEPT ![self] = "m_mb"]
                                      /\ ipi' = ipi
                /\ UNCHANGED << mem, sb, lock, acc, registry, cursnap, qsr, 
                                chunks, used, alloc, mremaps, refcount, rdr, 
                                keyval, sigBlocked, started, insig, saved, 
                                sigs, hcs, alive, cs, pre, regSlot, i, op, res, 
                                tmp, g, held, old, om, rret, slot, expanded, 
                                wl, ph, scan, v, mret >>

m_mb(self) == /\ pc[self] = "m_mb"
              /\ Drained(self)
              /\ acc' = Ev(self, "mb", "-", "-", "-", "-")
              /\ pc' = [pc EXCEPT ![self] = "m_ret"]
              /\ UNCHANGED << mem, sb, lock, registry, cursnap, qsr, chunks, 
                              used, alloc, mremaps, refcount, rdr, keyval, 
                              sigBlocked, started, insig, saved, sigs, hcs, 
                              alive, cs, pre, regSlot, i, op, res, tmp, g, 
                              held, old, om, rret, slot, expanded, wl, ph, 
                              scan, v, ipi, mret >>

m_ipi(self) == /\ pc[self] = "m_ipi"
               /\ IF ipi[self] # {}
                     THEN /\ \E t \in ipi[self]:
                               /\ Drained(t)
                               /\ ipi' = [ipi EXCEPT ![self] = ipi[self] \ {t}]
                          /\ pc' = [pc EXCEPT ![self] = "m_ipi"]
                     ELSE /\ pc' = [pc EXCEPT ![self] = "m_sys"]
                          /\ ipi' = ipi
               /\ UNCHANGED << mem, sb, lock, acc, registry, cursnap, qsr, 
                               chunks, used, alloc, mremaps, refcount, rdr, 
                               keyval, sigBlocked, started, insig, saved, sigs, 
                               hcs, alive, cs, pre, regSlot, i, op, res, tmp, 
                               g, held, old, om, rret, slot, expanded, wl, ph, 
                               scan, v, mret >>

m_sys(self) == /\ pc[self] = "m_sys"
               /\ acc' = Ev(self, "sysmb", "-", "-", "-", "-")
               /\ pc' = [pc EXCEPT ![self] = "m_ret"]
               /\ UNCHANGED << mem, sb, lock, registry, cursnap, qsr, chunks, 
                               used, alloc, mremaps, refcount, rdr, keyval, 
                               sigBlocked, started, insig, saved, sigs, hcs, 
                               alive, cs, pre, regSlot, i, op, res, tmp, g, 
                               held, old, om, rret, slot, expanded, wl, ph, 
                               scan, v, ipi, mret >>

m_ret(self) == /\ pc[self] = "m_ret"
               /\ IF mret[self] = "s_p1"
                     THEN /\ pc' = [pc EXCEPT ![self] = "s_p1"]
                     ELSE /\ pc' = [pc EXCEPT ![self] = "s_out"]
               /\ UNCHANGED << mem, sb, lock, acc, registry, cursnap, qsr, 
                               chunks, used, alloc, mremaps, refcount, rdr, 
                               keyval, sigBlocked, started, insig, saved, sigs, 
                               hcs, alive, cs, pre, regSlot, i, op, res, tmp, 
                               g, held, old, om, rret, slot, expanded, wl, ph, 
                               scan, v, ipi, mret >>

t_ret(self) == /\ pc[self] = "t_ret"
               /\ i' = [i EXCEPT ![self] = i[self] + 1]
               /\ res' = [res EXCEPT ![self] = "-"]
               /\ pc' = [pc EXCEPT ![self] = "t_top"]
               /\ UNCHANGED << mem, sb, lock, acc, registry, cursnap, qsr, 
                               chunks, used, alloc, mremaps, refcount, rdr, 
                               keyval, sigBlocked, started, insig, saved, sigs, 
                               hcs, alive, cs, pre, regSlot, op, tmp, g, held, 
                               old, om, rret, slot, expanded, wl, ph, scan, v, 
                               ipi, mret >>

t_after(self) == /\ pc[self] = "t_after"
                 /\ ~insig[self]
                 /\ pc' = [pc EXCEPT ![self] = "x_chk"]
                 /\ UNCHANGED << mem, sb, lock, acc, registry, cursnap, qsr, 
                                 chunks, used, alloc, mremaps, refcount, rdr, 
                                 keyval, sigBlocked, started, insig, saved, 
                                 sigs, hcs, alive, cs, pre, regSlot, i, op, 
                                 res, tmp, g, held, old, om, rret, slot, 
                                 expanded, wl, ph, scan, v, ipi, mret >>

x_chk(self) == /\ pc[self] = "x_chk"
               /\ IF keyval[self] = NULL
                     THEN /\ pc' = [pc EXCEPT ![self] = "t_end"]
                     ELSE /\ pc' = [pc EXCEPT ![self] = "x_block"]
               /\ UNCHANGED << mem, sb, lock, acc, registry, cursnap, qsr, 
                               chunks, used, alloc, mremaps, refcount, rdr, 
                               keyval, sigBlocked, started, insig, saved, sigs, 
                               hcs, alive, cs, pre, regSlot, i, op, res, tmp, 
                               g, held, old, om, rret, slot, expanded, wl, ph, 
                               scan, v, ipi, mret >>

x_block(self) == /\ pc[self] = "x_block"
                 /\ slot' = [slot EXCEPT ![self] = keyval[self]]
                 /\ keyval' = [keyval EXCEPT ![self] = NULL]
                 /\ om' = [om EXCEPT ![self] = sigBlocked[self]]
                 /\ sigBlocked' = [sigBlocked EXCEPT ![self] = TRUE]
                 /\ acc' = Ev(self, "sigm", "blocked", "-", "-", "-")
                 /\ pc' = [pc EXCEPT ![self] = "x_lock"]
                 /\ UNCHANGED << mem, sb, lock, registry, cursnap, qsr, chunks, 
                                 used, alloc, mremaps, refcount, rdr, started, 
                                 insig, saved, sigs, hcs, alive, cs, pre, 
                                 regSlot, i, op, res, tmp, g, held, old, rret, 
                                 expanded, wl, ph, scan, v, ipi, mret >>

x_lock(self) == /\ pc[self] = "x_lock"
                /\ Drained(self) /\ lock["registry_lock"] = "free"
                /\ lock' = [lock EXCEPT !["registry_lock"] = self]
                /\ acc' = Ev(self, "lock", "registry_lock", "-", "-", "-")
                /\ pc' = [pc EXCEPT ![self] = "x_clr"]
                /\ UNCHANGED << mem, sb, registry, cursnap, qsr, chunks, used, 
                                alloc, mremaps, refcount, rdr, keyval, 
                                sigBlocked, started, insig, saved, sigs, hcs, 
                                alive, cs, pre, regSlot, i, op, res, tmp, g, 
                                held, old, om, rret, slot, expanded, wl, ph, 
                                scan, v, ipi, mret >>

x_clr(self) == /\ pc[self] = "x_clr"
               /\ IF Tracing \/ ~TSO
                     THEN /\ Drained(self)
                          /\ mem' = [mem EXCEPT ![RctrOf[slot[self]]] = 0]
                          /\ sb' = sb
                     ELSE /\ sb' = [sb EXCEPT ![self] = Append(sb[self], <<RctrOf[slot[self]], 0>>)]
                          /\ mem' = mem
               /\ /\ cursnap' = Del(cursnap, slot[self])
                  /\ qsr' = Del(qsr, slot[self])
                  /\ registry' = Del(registry, slot[self])
               /\ IF "noclear" \notin Mut
                     THEN /\ alloc' = alloc \ {slot[self]}
                     ELSE /\ TRUE
                          /\ alloc' = alloc
               /\ used' = [used EXCEPT ![SlotChunk[slot[self]] + 1] = used[SlotChunk[slot[self]] + 1] - 1]
               /\ rdr' = [rdr EXCEPT ![self] = NULL]
               /\ regSlot' = [regSlot EXCEPT ![self] = NULL]
               /\ pc' = [pc EXCEPT ![self] = "x_unl"]
               /\ UNCHANGED << lock, acc, chunks, mremaps, refcount, keyval, 
                               sigBlocked, started, insig, saved, sigs, hcs, 
                               alive, cs, pre, i, op, res, tmp, g, held, old, 
                               om, rret, slot, expanded, wl, ph, scan, v, ipi, 
                               mret >>

x_unl(self) == /\ pc[self] = "x_unl"
               /\ Drained(self)
               /\ lock' = [lock EXCEPT !["registry_lock"] = "free"]
               /\ acc' = Ev(self, "unlock", "registry_lock", "-", "-", "-")
               /\ pc' = [pc EXCEPT ![self] = "x_rest"]
               /\ UNCHANGED << mem, sb, registry, cursnap, qsr, chunks, used, 
                               alloc, mremaps, refcount, rdr, keyval, 
                               sigBlocked, started, insig, saved, sigs, hcs, 
                               alive, cs, pre, regSlot, i, op, res, tmp, g, 
                               held, old, om, rret, slot, expanded, wl, ph, 
                               scan, v, ipi, mret >>

x_rest(self) == /\ pc[self] = "x_rest"
                /\ sigBlocked' = [sigBlocked EXCEPT ![self] = om[self]]
                /\ acc' = EvS(self, "sigm", MaskName(om[self]))
                /\ pc' = [pc EXCEPT ![self] = "xe_lock"]
                /\ UNCHANGED << mem, sb, lock, registry, cursnap, qsr, chunks, 
                                used, alloc, mremaps, refcount, rdr, keyval, 
                                started, insig, saved, sigs, hcs, alive, cs, 
                                pre, regSlot, i, op, res, tmp, g, held, old, 
                                om, rret, slot, expanded, wl, ph, scan, v, ipi, 
                                mret >>

xe_lock(self) == /\ pc[self] = "xe_lock"
                 /\ Drained(self) /\ lock["init_lock"] = "free"
                 /\ lock' = [lock EXCEPT !["init_lock"] = self]
                 /\ acc' = Ev(self, "lock", "init_lock", "-", "-", "-")
                 /\ refcount' = refcount - 1
                 /\ Assert(refcount' > 0, 
                           "Failure of assertion at line 302, column 9.")
                 /\ pc' = [pc EXCEPT ![self] = "xe_unl"]
                 /\ UNCHANGED << mem, sb, registry, cursnap, qsr, chunks, used, 
                                 alloc, mremaps, rdr, keyval, sigBlocked, 
                                 started, insig, saved, sigs, hcs, alive, cs, 
                                 pre, regSlot, i, op, res, tmp, g, held, old, 
                                 om, rret, slot, expanded, wl, ph, scan, v, 
                                 ipi, mret >>

xe_unl(self) == /\ pc[self] = "xe_unl"
                /\ Drained(self)
                /\ lock' = [lock EXCEPT !["init_lock"] = "free"]
                /\ acc' = Ev(self, "unlock", "init_lock", "-", "-", "-")
                /\ pc' = [pc EXCEPT ![self] = "x_chk"]
                /\ UNCHANGED << mem, sb, registry, cursnap, qsr, chunks, used, 
                                alloc, mremaps, refcount, rdr, keyval, 
                                sigBlocked, started, insig, saved, sigs, hcs, 
                                alive, cs, pre, regSlot, i, op, res, tmp, g, 
                                held, old, om, rret, slot, expanded, wl, ph, 
                                scan, v, ipi, mret >>

t_end(self) == /\ pc[self] = "t_end"
               /\ Drained(self)
               /\ pc' = [pc EXCEPT ![self] = "Done"]
               /\ UNCHANGED << mem, sb, lock, acc, registry, cursnap, qsr, 
                               chunks, used, alloc, mremaps, refcount, rdr, 
                               keyval, sigBlocked, started, insig, saved, sigs, 
                               hcs, alive, cs, pre, regSlot, i, op, res, tmp, 
                               g, held, old, om, rret, slot, expanded, wl, ph, 
                               scan, v, ipi, mret >>

thr(self) == t_start(self) \/ t_top(self) \/ rl_top(self) \/ rl_rd(self)
                \/ rl_ld(self) \/ rl_st(self) \/ rl_mb(self) \/ rl_in(self)
                \/ rl_nest(self) \/ ru_top(self) \/ ru_mb(self)
                \/ ru_st(self) \/ rg_top(self) \/ g_block(self)
                \/ g_chk(self) \/ gi_lock(self) \/ gi_unl(self)
                \/ g_lock(self) \/ aa_scan(self) \/ ea_top(self)
                \/ ea_mmap0(self) \/ ea_mremap(self) \/ ea_mmap(self)
                \/ at_set(self) \/ g_unl(self) \/ g_end(self)
                \/ dr_ld(self) \/ p_xchg(self) \/ sp_spawn(self)
                \/ j_wait(self) \/ s_call(self) \/ s_block(self)
                \/ s_gplk(self) \/ s_rglk(self) \/ s_mm1(self)
                \/ s_p1(self) \/ s_mb2(self) \/ s_flip(self) \/ s_mb3(self)
                \/ s_p2(self) \/ s_splice(self) \/ s_mm2(self)
                \/ s_out(self) \/ s_gpun(self) \/ s_rest(self)
                \/ s_ret(self) \/ w_top(self) \/ w_loop(self)
                \/ w_scan(self) \/ w_ldr(self) \/ w_chk(self)
                \/ w_unl(self) \/ w_wait(self) \/ w_lock(self)
                \/ master(self) \/ m_mb(self) \/ m_ipi(self) \/ m_sys(self)
                \/ m_ret(self) \/ t_ret(self) \/ t_after(self)
                \/ x_chk(self) \/ x_block(self) \/ x_lock(self)
                \/ x_clr(self) \/ x_unl(self) \/ x_rest(self)
                \/ xe_lock(self) \/ xe_unl(self) \/ t_end(self)

Next == (\E self \in Flushers: flusher(self))
           \/ (\E self \in Threads: thr(self))

Spec == /\ Init /\ [][Next]_vars
        /\ \A self \in Flushers : WF_vars(flusher(self))
        /\ \A self \in Threads : WF_vars(thr(self))

\* END TRANSLATION

AllDone == \A t \in Threads : pc[t] = "Done"

(***************************************************************************)
(* C19: the signal handler runs ON the interrupted thread (same TLS, same  *)
(* store buffer, its own stack frame): delivery saves the thread's pc and  *)
(* locals and starts the handler program HProg at t_top; when the program  *)
(* ends (t_after) SigReturn checks that the reader state is as it was      *)
(* found and resumes the interrupted code.  Delivery and sigreturn go       *)
(* through the kernel: full barriers for the thread.                       *)
(***************************************************************************)
thrLocals == <<i, op, res, tmp, g, held, old, om, rret, slot, expanded, wl, ph, scan, v, ipi, mret>>
globalsNoSig == <<mem, sb, lock, registry, cursnap, qsr, chunks, used, alloc, mremaps, refcount, rdr, keyval, sigBlocked, started,
                  hcs, alive, cs, pre, regSlot>>
OwnWord(t) == IF rdr[t] = NULL THEN 0 ELSE Rd(t, RctrOf[rdr[t]])
NoSigPcs == {"t_start", "t_end", "Done"} \cup (IF SigInExit THEN {} ELSE ExitPcs)
CanSig(t) == /\ t \in SigThreads /\ sigs < SigBudget /\ started[t] /\ ~insig[t] /\ ~sigBlocked[t]
             /\ pc[t] \notin NoSigPcs /\ Drained(t)
SigDeliver(t) ==
  /\ CanSig(t)
  /\ sigs' = sigs + 1
  /\ insig' = [insig EXCEPT ![t] = TRUE]
  /\ saved' = [saved EXCEPT ![t] = [pc |-> pc[t], i |-> i[t], op |-> op[t], res |-> res[t], tmp |-> tmp[t], g |-> g[t], held |-> held[t],
                                     om |-> om[t], rret |-> rret[t], slot |-> slot[t], expanded |-> expanded[t], entry |-> OwnWord(t)]]
  /\ pc' = [pc EXCEPT ![t] = "t_top"]
  /\ i' = [i EXCEPT ![t] = 1]
  /\ held' = [held EXCEPT ![t] = NULL]
  /\ acc' = Ev(t, "sig_enter", "-", "-", "-", "-")
  /\ UNCHANGED <<globalsNoSig, op, res, tmp, g, old, om, rret, slot, expanded, wl, ph, scan, v, ipi, mret>>
SigReturn(t) ==
  /\ insig[t] /\ pc[t] = "t_after" /\ Drained(t)
  \* C19: nesting (and, inside a section, the whole word: its phase) exactly as found
  /\ Assert(Nest(OwnWord(t)) = Nest(saved[t].entry) /\ (Nest(saved[t].entry) # 0 => OwnWord(t) = saved[t].entry),
            "C19: the signal handler changed the interrupted thread's reader state")
  /\ insig' = [insig EXCEPT ![t] = FALSE]
  /\ pc' = [pc EXCEPT ![t] = saved[t].pc]
  /\ i' = [i EXCEPT ![t] = saved[t].i]
  /\ op' = [op EXCEPT ![t] = saved[t].op]
  /\ res' = [res EXCEPT ![t] = saved[t].res]
  /\ tmp' = [tmp EXCEPT ![t] = saved[t].tmp]
  /\ g' = [g EXCEPT ![t] = saved[t].g]
  /\ held' = [held EXCEPT ![t] = saved[t].held]
  /\ om' = [om EXCEPT ![t] = saved[t].om]
  /\ rret' = [rret EXCEPT ![t] = saved[t].rret]
  /\ slot' = [slot EXCEPT ![t] = saved[t].slot]
  /\ expanded' = [expanded EXCEPT ![t] = saved[t].expanded]
  /\ saved' = [saved EXCEPT ![t] = <<>>]
  /\ acc' = EvS(t, "sig_exit", "-")                                \* (sigreturn is not a scheduling point of its own)
  /\ UNCHANGED <<globalsNoSig, sigs, old, wl, ph, scan, v, ipi, mret>>

SigNext == \/ \E self \in Flushers : flusher(self)
           \/ \E self \in Threads : thr(self)
           \/ \E t \in SigThreads : SigDeliver(t) \/ SigReturn(t)
SigSpec == Init /\ [][SigNext]_vars
FairSpec == /\ SigSpec
            /\ \A self \in Flushers : WF_vars(flusher(self))
            /\ \A self \in Threads : WF_vars(thr(self))
            /\ \A t \in SigThreads : WF_vars(SigReturn(t))

\* ---- C02
SigDeadlockFree == AllDone \/ ENABLED SigNext
DeadlockFree == SigDeadlockFree
Termination == <>AllDone
SBBound == \A t \in Threads : Len(sb[t]) <= SBMax
\* rcu_registry_lock nests inside rcu_gp_lock, never the other way round; init_lock is never taken or held together with them
LockOrder == \A t \in Threads :
               /\ ~(lock["registry_lock"] = t /\ pc[t] \in {"s_gplk", "gi_lock", "xe_lock"})
               /\ ~(lock["init_lock"] = t /\ pc[t] \in {"s_gplk", "s_rglk", "g_lock", "x_lock", "w_lock"})
               /\ ~(lock["gp_lock"] = t /\ pc[t] \in {"gi_lock", "xe_lock"})
\* the registry lock is released while the updater sleeps / spins between two scans
RegistryFreeWhileWaiting == \A t \in Threads : pc[t] = "w_wait" => lock["registry_lock"] # t

\* ---- C15
Registered == {t \in Threads : rdr[t] # NULL}
AllLists == ToSet(registry) \cup ToSet(cursnap) \cup ToSet(qsr)
\* a registered reader's slot identity never changes between registration and exit
SlotStable == \A t \in Threads : (regSlot[t] # NULL \/ rdr[t] # NULL) => rdr[t] = regSlot[t]
\* two registered threads never share a slot; every registered thread's slot is allocated and on exactly one reader list
SlotUnique == /\ \A t, u \in Registered : t # u => rdr[t] # rdr[u]
              /\ \A t \in Registered : rdr[t] \in alloc
ListsDisjoint == Len(registry) + Len(cursnap) + Len(qsr) = Cardinality(AllLists)
\* evaluated when nobody is inside the registry critical section (plain data is consistent only under the lock)
ArenaConsistent == lock["registry_lock"] = "free" =>
                     /\ AllLists = {rdr[t] : t \in Registered}
                     /\ alloc = AllLists
                     /\ \A c \in DOMAIN chunks : used[c] = Cardinality({s \in alloc : SlotChunk[s] = c - 1}) /\ used[c] <= chunks[c]
                     /\ (lock["gp_lock"] = "free" => cursnap = <<>> /\ qsr = <<>>)
                     /\ \A s \in AllSlots : s \notin alloc => mem[RctrOf[s]] = 0
\* freed slots are reused before the arena grows: the arena is never larger than needed by the largest number of simultaneously
\* registered threads seen so far (checked by the assertion in ea_top) and capacities follow the doubling rule
SlotReuse == /\ Len(chunks) <= MaxChunks
             /\ \A c \in DOMAIN chunks : chunks[c] <= MaxCap /\ \E n \in 0 .. 6 : chunks[c] = InitCap * (2 ^ n)
             /\ Cardinality(alloc) <= Cardinality(Threads)
\* ---- C15 / C19: a thread that holds the gp / registry lock, or is anywhere inside registration / unregistration / synchronize_rcu,
\* has all signals blocked, and no handler frame is ever active there
RegPcs == {"g_chk", "gi_lock", "gi_unl", "g_lock", "aa_scan", "ea_top", "ea_mmap0", "ea_mremap", "ea_mmap", "at_set", "g_unl", "g_end"}
UnregPcs == {"x_lock", "x_clr", "x_unl", "x_rest"}
SyncPcs == {"s_gplk", "s_rglk", "s_mm1", "s_p1", "s_mb2", "s_flip", "s_mb3", "s_p2", "s_splice", "s_mm2", "s_out", "s_gpun", "s_rest",
            "w_top", "w_loop", "w_scan", "w_ldr", "w_chk", "w_unl", "w_wait", "w_lock", "master", "m_mb", "m_ipi", "m_sys", "m_ret"}
NoSignalInRegistration ==
  /\ \A t \in Threads : pc[t] \in RegPcs \cup UnregPcs \cup SyncPcs => sigBlocked[t]
  /\ \A m \in {"gp_lock", "registry_lock"} : lock[m] # "free" => sigBlocked[lock[m]]
  /\ \A t \in Threads : insig[t] => saved[t].pc \notin RegPcs \cup UnregPcs \cup SyncPcs
\* negative control (fails on the code as it is): init_lock is taken by urcu_bp_exit() AFTER the signal mask has been restored
InitLockBlocked == lock["init_lock"] # "free" => sigBlocked[lock["init_lock"]]
=============================================================================
