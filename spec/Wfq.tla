-------------------------------- MODULE Wfq ---------------------------------
(***************************************************************************)
(* Legacy cds_wfq (include/urcu/static/wfqueue.h): wait-free enqueue,      *)
(* blocking dequeue with a dummy node that is re-enqueued whenever it is   *)
(* dequeued; one action per shared-memory access, under SC or x86-TSO.     *)
(*                                                                         *)
(* q->tail holds the ADDRESS of the last node's next field, which is the   *)
(* address of the node itself (next is the first and only field), so its  *)
(* symbolic value is the node name; q->head is plain data owned by the     *)
(* (mutually excluded) dequeuer.  Operation records of a scenario:         *)
(*   [op |-> "enq", n]      cds_wfq_node_init(n); cds_wfq_enqueue(q, n)     *)
(*   [op |-> "deq", lck]    cds_wfq_dequeue_blocking (lck) or the           *)
(*                          __cds_wfq_dequeue_blocking variant (caller      *)
(*                          excludes other dequeuers)                       *)
(*   [op |-> "reenq"]       re-enqueue at once the node this thread's last  *)
(*                          dequeue returned ("it is valid to reuse and     *)
(*                          free a dequeued node immediately")              *)
(* Monitors: LinMon over a FIFO sequence (C10), node conservation.         *)
(***************************************************************************)
EXTENDS Naturals, Sequences, FiniteSets, TLC

CONSTANTS Threads, Prog, TSO, Tracing, SBMax,
          PlainBuf    \* TRUE: the plain store of node_init goes through the store buffer (hardware); FALSE: written through
                      \* after draining the buffer, which is what the executed code does (one of the TSO behaviours)

NULL == "NULL"
D == "D"                                 \* &q->dummy
NextOf(n) == n \o ".next"
QTail == "q.tail"
OpsOf(t) == {Prog[t][i] : i \in DOMAIN Prog[t]}
AllOps == UNION {OpsOf(t) : t \in Threads}
Nodes == {o.n : o \in {x \in AllOps : x.op = "enq"}}
Locs == {QTail} \cup {NextOf(n) : n \in Nodes \cup {D}}
FlId(t) == "F:" \o t
Flushers == {FlId(t) : t \in Threads}
FlOf == [f \in Flushers |-> CHOOSE t \in Threads : FlId(t) = f]

\* abstract object: one FIFO sequence of user nodes; "reenq" of thread t enqueues last[t]
FApply(abs, o, stage, t) ==
  CASE o.op = "enq" -> [abs |-> Append(abs, o.n), res |-> "ok"]
    [] o.op = "deq" -> IF abs = <<>> THEN [abs |-> abs, res |-> NULL] ELSE [abs |-> Tail(abs), res |-> Head(abs)]
LM == INSTANCE LinMon WITH Apply <- FApply, Thr <- Threads

(* --algorithm wfq {
variables
  mem = [l \in Locs |-> IF l = QTail THEN D ELSE NULL],
  sb = [t \in Threads |-> <<>>],
  lock = "free",
  qhead = D,                                \* q->head: plain, owned by the dequeuer
  acc = [k |-> 0],
  pend = [t \in Threads |-> LM!NoOp],
  cfgs = LM!InitCfgs(<<>>),
  inq = {},                                 \* ghost: user nodes enqueued and not yet returned (API precondition: no double enqueue)
  deqd = <<>>;                              \* ghost: sequence of nodes returned by dequeues

define {
  LastIdx(t, loc) == LET S == {j \in DOMAIN sb[t] : sb[t][j][1] = loc} IN
                     IF S = {} THEN 0 ELSE CHOOSE j \in S : \A k \in S : k <= j
  Rd(t, loc) == IF LastIdx(t, loc) = 0 THEN mem[loc] ELSE sb[t][LastIdx(t, loc)][2]
  Drained(t) == sb[t] = <<>>
  Ev(t, op, var, a, b, r) == IF Tracing THEN [k |-> acc.k + 1, t |-> t, op |-> op, var |-> var, a |-> a, b |-> b, r |-> r] ELSE acc
  Linearizable == cfgs # {}
}

macro Ld(dst, loc)        { dst := Rd(self, loc); acc := Ev(self, "ld", loc, "-", "-", Rd(self, loc)); }
macro St(loc, v)          { if (TSO) { sb[self] := Append(sb[self], <<loc, v>>) } else { mem[loc] := v };
                            acc := Ev(self, "st", loc, v, "-", "-"); }
macro StPlain(loc, v)     { if (TSO /\ PlainBuf) { sb[self] := Append(sb[self], <<loc, v>>) }
                            else { await Drained(self); mem[loc] := v };
                            acc := Ev(self, "st", loc, v, "-", "-"); }
macro Xchg(dst, loc, v)   { await Drained(self); dst := mem[loc]; mem[loc] := v; acc := Ev(self, "xchg", loc, v, "-", dst); }
macro Mb()                { await Drained(self); acc := Ev(self, "mb", "-", "-", "-", "-"); }
macro Lock()              { await Drained(self) /\ lock = "free"; lock := self; acc := Ev(self, "lock", "q.lock", "-", "-", "-"); }
macro Unlock()            { await Drained(self); lock := "free"; acc := Ev(self, "unlock", "q.lock", "-", "-", "-"); }

fair process (flusher \in Flushers) {
fl: while (TRUE) {
      await sb[FlOf[self]] # <<>>;
      mem[Head(sb[FlOf[self]])[1]] := Head(sb[FlOf[self]])[2] || sb[FlOf[self]] := Tail(sb[FlOf[self]])
      || acc := IF Tracing THEN [k |-> acc.k + 1, t |-> FlOf[self], op |-> "flush", var |-> Head(sb[FlOf[self]])[1],
                               a |-> Head(sb[FlOf[self]])[2], b |-> "-", r |-> "-"] ELSE acc;
    }
}

fair process (thr \in Threads)
variables i = 1, op = LM!NoOp, a = NULL, node = NULL, next = NULL, res = NULL, old = NULL, en = NULL, last = NULL;
{
t_top:  while (i <= Len(Prog[self])) {
          op := Prog[self][i]; res := NULL;
          \* reenq of nothing (the last dequeue returned NULL) is a no-op of the scenario, not a library call
          pend[self] := IF Prog[self][i].op = "reenq"
                        THEN (IF last = NULL THEN LM!NoOp ELSE [op |-> "enq", n |-> last])
                        ELSE Prog[self][i];
t_disp:   if (op.op = "enq") { en := op.n; goto e_init }
          else if (op.op = "reenq") { if (last = NULL) { res := "skip"; goto t_ret } else { en := last; last := NULL; goto e_init } }
          else { goto d_lock };

        \* ---------------- cds_wfq_node_init(node); _cds_wfq_enqueue(q, node)
e_init:   assert en \notin inq;                                  \* API precondition (scenario): a node is in the queue at most once
          inq := inq \cup {en};
          StPlain(NextOf(en), NULL);                             \* node->next = NULL                      (plain store)
e_mb:     Mb();                                                  \* cmm_emit_legacy_smp_mb()
e_xchg:   Xchg(old, QTail, en);                                  \* old_tail = uatomic_xchg(&q->tail, &node->next)
e_link:   St(NextOf(old), en);                                    \* uatomic_store(old_tail, node, RELEASE)
          res := "ok";
          goto t_ret;

        \* ---------------- (_)__cds_wfq_dequeue_blocking(q)
d_lock:   if (op.lck) { Lock() };
d_e:      if (qhead = D) {                                       \* q->head == &q->dummy && load(&q->tail) == &q->dummy.next
            Ld(a, QTail);
            if (a = D) { res := NULL; goto d_unlock }
          };
d_sync:   Ld(next, NextOf(qhead));                               \* node = q->head; ___cds_wfq_node_sync_next(node)
          if (next = NULL) { goto d_sync };
d_adv:    node := qhead; qhead := next;                          \* q->head = next                         (plain, dequeuer-owned)
          if (node # D) { res := node; goto d_unlock };
d_dinit:  StPlain(NextOf(D), NULL);                              \* requeue the dummy: _cds_wfq_node_init(node)
d_dmb:    Mb();                                                  \* _cds_wfq_enqueue(q, node): cmm_emit_legacy_smp_mb()
d_dxchg:  Xchg(old, QTail, D);
d_dlink:  St(NextOf(old), D);
          goto d_e;                                              \* return ___cds_wfq_dequeue_blocking(q)
d_unlock: if (op.lck) { Unlock() };
          goto t_ret;

t_ret:    cfgs := IF pend[self].op = "none" THEN cfgs ELSE LM!AfterReturn(cfgs, pend, self, res)
          || pend[self] := LM!NoOp;
          if (op.op = "deq" /\ res # NULL) { assert res \in inq; inq := inq \ {res}; deqd := Append(deqd, res); last := res };
          i := i + 1;
        }
}
} *)
\* BEGIN TRANSLATION
VARIABLES pc, mem, sb, lock, qhead, acc, pend, cfgs, inq, deqd

(* define statement *)
LastIdx(t, loc) == LET S == {j \in DOMAIN sb[t] : sb[t][j][1] = loc} IN
                   IF S = {} THEN 0 ELSE CHOOSE j \in S : \A k \in S : k <= j
Rd(t, loc) == IF LastIdx(t, loc) = 0 THEN mem[loc] ELSE sb[t][LastIdx(t, loc)][2]
Drained(t) == sb[t] = <<>>
Ev(t, op, var, a, b, r) == IF Tracing THEN [k |-> acc.k + 1, t |-> t, op |-> op, var |-> var, a |-> a, b |-> b, r |-> r] ELSE acc
Linearizable == cfgs # {}

VARIABLES i, op, a, node, next, res, old, en, last

vars == << pc, mem, sb, lock, qhead, acc, pend, cfgs, inq, deqd, i, op, a, 
           node, next, res, old, en, last >>

ProcSet == (Flushers) \cup (Threads)

Init == (* Global variables *)
        /\ mem = [l \in Locs |-> IF l = QTail THEN D ELSE NULL]
        /\ sb = [t \in Threads |-> <<>>]
        /\ lock = "free"
        /\ qhead = D
        /\ acc = [k |-> 0]
        /\ pend = [t \in Threads |-> LM!NoOp]
        /\ cfgs = LM!InitCfgs(<<>>)
        /\ inq = {}
        /\ deqd = <<>>
        (* Process thr *)
        /\ i = [self \in Threads |-> 1]
        /\ op = [self \in Threads |-> LM!NoOp]
        /\ a = [self \in Threads |-> NULL]
        /\ node = [self \in Threads |-> NULL]
        /\ next = [self \in Threads |-> NULL]
        /\ res = [self \in Threads |-> NULL]
        /\ old = [self \in Threads |-> NULL]
        /\ en = [self \in Threads |-> NULL]
        /\ last = [self \in Threads |-> NULL]
        /\ pc = [self \in ProcSet |-> CASE self \in Flushers -> "fl"
                                        [] self \in Threads -> "t_top"]

fl(self) == /\ pc[self] = "fl"
            /\ sb[FlOf[self]] # <<>>
            /\ /\ acc' = IF Tracing THEN [k |-> acc.k + 1, t |-> FlOf[self], op |-> "flush", var |-> Head(sb[FlOf[self]])[1],
                                        a |-> Head(sb[FlOf[self]])[2], b |-> "-", r |-> "-"] ELSE acc
               /\ mem' = [mem EXCEPT ![Head(sb[FlOf[self]])[1]] = Head(sb[FlOf[self]])[2]]
               /\ sb' = [sb EXCEPT ![FlOf[self]] = Tail(sb[FlOf[self]])]
            /\ pc' = [pc EXCEPT ![self] = "fl"]
            /\ UNCHANGED << lock, qhead, pend, cfgs, inq, deqd, i, op, a, node, 
                            next, res, old, en, last >>

flusher(self) == fl(self)

t_top(self) == /\ pc[self] = "t_top"
               /\ IF i[self] <= Len(Prog[self])
                     THEN /\ op' = [op EXCEPT ![self] = Prog[self][i[self]]]
                          /\ res' = [res EXCEPT ![self] = NULL]
                          /\ pend' = [pend EXCEPT ![self] = IF Prog[self][i[self]].op = "reenq"
                                                            THEN (IF last[self] = NULL THEN LM!NoOp ELSE [op |-> "enq", n |-> last[self]])
                                                            ELSE Prog[self][i[self]]]
                          /\ pc' = [pc EXCEPT ![self] = "t_disp"]
                     ELSE /\ pc' = [pc EXCEPT ![self] = "Done"]
                          /\ UNCHANGED << pend, op, res >>
               /\ UNCHANGED << mem, sb, lock, qhead, acc, cfgs, inq, deqd, i, 
                               a, node, next, old, en, last >>

t_disp(self) == /\ pc[self] = "t_disp"
                /\ IF op[self].op = "enq"
                      THEN /\ en' = [en EXCEPT ![self] = op[self].n]
                           /\ pc' = [pc EXCEPT ![self] = "e_init"]
                           /\ UNCHANGED << res, last >>
                      ELSE /\ IF op[self].op = "reenq"
                                 THEN /\ IF last[self] = NULL
                                            THEN /\ res' = [res EXCEPT ![self] = "skip"]
                                                 /\ pc' = [pc EXCEPT ![self] = "t_ret"]
                                                 /\ UNCHANGED << en, last >>
                                            ELSE /\ en' = [en EXCEPT ![self] = last[self]]
                                                 /\ last' = [last EXCEPT ![self] = NULL]
                                                 /\ pc' = [pc EXCEPT ![self] = "e_init"]
                                                 /\ res' = res
                                 ELSE /\ pc' = [pc EXCEPT ![self] = "d_lock"]
                                      /\ UNCHANGED << res, en, last >>
                /\ UNCHANGED << mem, sb, lock, qhead, acc, pend, cfgs, inq, 
                                deqd, i, op, a, node, next, old >>

e_init(self) == /\ pc[self] = "e_init"
                /\ Assert(en[self] \notin inq, 
                          "Failure of assertion at line 99, column 11.")
                /\ inq' = (inq \cup {en[self]})
                /\ IF TSO /\ PlainBuf
                      THEN /\ sb' = [sb EXCEPT ![self] = Append(sb[self], <<(NextOf(en[self])), NULL>>)]
                           /\ mem' = mem
                      ELSE /\ Drained(self)
                           /\ mem' = [mem EXCEPT ![(NextOf(en[self]))] = NULL]
                           /\ sb' = sb
                /\ acc' = Ev(self, "st", (NextOf(en[self])), NULL, "-", "-")
                /\ pc' = [pc EXCEPT ![self] = "e_mb"]
                /\ UNCHANGED << lock, qhead, pend, cfgs, deqd, i, op, a, node, 
                                next, res, old, en, last >>

e_mb(self) == /\ pc[self] = "e_mb"
              /\ Drained(self)
              /\ acc' = Ev(self, "mb", "-", "-", "-", "-")
              /\ pc' = [pc EXCEPT ![self] = "e_xchg"]
              /\ UNCHANGED << mem, sb, lock, qhead, pend, cfgs, inq, deqd, i, 
                              op, a, node, next, res, old, en, last >>

e_xchg(self) == /\ pc[self] = "e_xchg"
                /\ Drained(self)
                /\ old' = [old EXCEPT ![self] = mem[QTail]]
                /\ mem' = [mem EXCEPT ![QTail] = en[self]]
                /\ acc' = Ev(self, "xchg", QTail, en[self], "-", old'[self])
                /\ pc' = [pc EXCEPT ![self] = "e_link"]
                /\ UNCHANGED << sb, lock, qhead, pend, cfgs, inq, deqd, i, op, 
                                a, node, next, res, en, last >>

e_link(self) == /\ pc[self] = "e_link"
                /\ IF TSO
                      THEN /\ sb' = [sb EXCEPT ![self] = Append(sb[self], <<(NextOf(old[self])), en[self]>>)]
                           /\ mem' = mem
                      ELSE /\ mem' = [mem EXCEPT ![(NextOf(old[self]))] = en[self]]
                           /\ sb' = sb
                /\ acc' = Ev(self, "st", (NextOf(old[self])), en[self], "-", "-")
                /\ res' = [res EXCEPT ![self] = "ok"]
                /\ pc' = [pc EXCEPT ![self] = "t_ret"]
                /\ UNCHANGED << lock, qhead, pend, cfgs, inq, deqd, i, op, a, 
                                node, next, old, en, last >>

d_lock(self) == /\ pc[self] = "d_lock"
                /\ IF op[self].lck
                      THEN /\ Drained(self) /\ lock = "free"
                           /\ lock' = self
                           /\ acc' = Ev(self, "lock", "q.lock", "-", "-", "-")
                      ELSE /\ TRUE
                           /\ UNCHANGED << lock, acc >>
                /\ pc' = [pc EXCEPT ![self] = "d_e"]
                /\ UNCHANGED << mem, sb, qhead, pend, cfgs, inq, deqd, i, op, 
                                a, node, next, res, old, en, last >>

d_e(self) == /\ pc[self] = "d_e"
             /\ IF qhead = D
                   THEN /\ a' = [a EXCEPT ![self] = Rd(self, QTail)]
                        /\ acc' = Ev(self, "ld", QTail, "-", "-", Rd(self, QTail))
                        /\ IF a'[self] = D
                              THEN /\ res' = [res EXCEPT ![self] = NULL]
                                   /\ pc' = [pc EXCEPT ![self] = "d_unlock"]
                              ELSE /\ pc' = [pc EXCEPT ![self] = "d_sync"]
                                   /\ res' = res
                   ELSE /\ pc' = [pc EXCEPT ![self] = "d_sync"]
                        /\ UNCHANGED << acc, a, res >>
             /\ UNCHANGED << mem, sb, lock, qhead, pend, cfgs, inq, deqd, i, 
                             op, node, next, old, en, last >>

d_sync(self) == /\ pc[self] = "d_sync"
                /\ next' = [next EXCEPT ![self] = Rd(self, (NextOf(qhead)))]
                /\ acc' = Ev(self, "ld", (NextOf(qhead)), "-", "-", Rd(self, (NextOf(qhead))))
                /\ IF next'[self] = NULL
                      THEN /\ pc' = [pc EXCEPT ![self] = "d_sync"]
                      ELSE /\ pc' = [pc EXCEPT ![self] = "d_adv"]
                /\ UNCHANGED << mem, sb, lock, qhead, pend, cfgs, inq, deqd, i, 
                                op, a, node, res, old, en, last >>

d_adv(self) == /\ pc[self] = "d_adv"
               /\ node' = [node EXCEPT ![self] = qhead]
               /\ qhead' = next[self]
               /\ IF node'[self] # D
                     THEN /\ res' = [res EXCEPT ![self] = node'[self]]
                          /\ pc' = [pc EXCEPT ![self] = "d_unlock"]
                     ELSE /\ pc' = [pc EXCEPT ![self] = "d_dinit"]
                          /\ res' = res
               /\ UNCHANGED << mem, sb, lock, acc, pend, cfgs, inq, deqd, i, 
                               op, a, next, old, en, last >>

d_dinit(self) == /\ pc[self] = "d_dinit"
                 /\ IF TSO /\ PlainBuf
                       THEN /\ sb' = [sb EXCEPT ![self] = Append(sb[self], <<(NextOf(D)), NULL>>)]
                            /\ mem' = mem
                       ELSE /\ Drained(self)
                            /\ mem' = [mem EXCEPT ![(NextOf(D))] = NULL]
                            /\ sb' = sb
                 /\ acc' = Ev(self, "st", (NextOf(D)), NULL, "-", "-")
                 /\ pc' = [pc EXCEPT ![self] = "d_dmb"]
                 /\ UNCHANGED << lock, qhead, pend, cfgs, inq, deqd, i, op, a, 
                                 node, next, res, old, en, last >>

d_dmb(self) == /\ pc[self] = "d_dmb"
               /\ Drained(self)
               /\ acc' = Ev(self, "mb", "-", "-", "-", "-")
               /\ pc' = [pc EXCEPT ![self] = "d_dxchg"]
               /\ UNCHANGED << mem, sb, lock, qhead, pend, cfgs, inq, deqd, i, 
                               op, a, node, next, res, old, en, last >>

d_dxchg(self) == /\ pc[self] = "d_dxchg"
                 /\ Drained(self)
                 /\ old' = [old EXCEPT ![self] = mem[QTail]]
                 /\ mem' = [mem EXCEPT ![QTail] = D]
                 /\ acc' = Ev(self, "xchg", QTail, D, "-", old'[self])
                 /\ pc' = [pc EXCEPT ![self] = "d_dlink"]
                 /\ UNCHANGED << sb, lock, qhead, pend, cfgs, inq, deqd, i, op, 
                                 a, node, next, res, en, last >>

d_dlink(self) == /\ pc[self] = "d_dlink"
                 /\ IF TSO
                       THEN /\ sb' = [sb EXCEPT ![self] = Append(sb[self], <<(NextOf(old[self])), D>>)]
                            /\ mem' = mem
                       ELSE /\ mem' = [mem EXCEPT ![(NextOf(old[self]))] = D]
                            /\ sb' = sb
                 /\ acc' = Ev(self, "st", (NextOf(old[self])), D, "-", "-")
                 /\ pc' = [pc EXCEPT ![self] = "d_e"]
                 /\ UNCHANGED << lock, qhead, pend, cfgs, inq, deqd, i, op, a, 
                                 node, next, res, old, en, last >>

d_unlock(self) == /\ pc[self] = "d_unlock"
                  /\ IF op[self].lck
                        THEN /\ Drained(self)
                             /\ lock' = "free"
                             /\ acc' = Ev(self, "unlock", "q.lock", "-", "-", "-")
                        ELSE /\ TRUE
                             /\ UNCHANGED << lock, acc >>
                  /\ pc' = [pc EXCEPT ![self] = "t_ret"]
                  /\ UNCHANGED << mem, sb, qhead, pend, cfgs, inq, deqd, i, op, 
                                  a, node, next, res, old, en, last >>

t_ret(self) == /\ pc[self] = "t_ret"
               /\ /\ cfgs' = (IF pend[self].op = "none" THEN cfgs ELSE LM!AfterReturn(cfgs, pend, self, res[self]))
                  /\ pend' = [pend EXCEPT ![self] = LM!NoOp]
               /\ IF op[self].op = "deq" /\ res[self] # NULL
                     THEN /\ Assert(res[self] \in inq, 
                                    "Failure of assertion at line 128, column 46.")
                          /\ inq' = inq \ {res[self]}
                          /\ deqd' = Append(deqd, res[self])
                          /\ last' = [last EXCEPT ![self] = res[self]]
                     ELSE /\ TRUE
                          /\ UNCHANGED << inq, deqd, last >>
               /\ i' = [i EXCEPT ![self] = i[self] + 1]
               /\ pc' = [pc EXCEPT ![self] = "t_top"]
               /\ UNCHANGED << mem, sb, lock, qhead, acc, op, a, node, next, 
                               res, old, en >>

thr(self) == t_top(self) \/ t_disp(self) \/ e_init(self) \/ e_mb(self)
                \/ e_xchg(self) \/ e_link(self) \/ d_lock(self)
                \/ d_e(self) \/ d_sync(self) \/ d_adv(self)
                \/ d_dinit(self) \/ d_dmb(self) \/ d_dxchg(self)
                \/ d_dlink(self) \/ d_unlock(self) \/ t_ret(self)

Next == (\E self \in Flushers: flusher(self))
           \/ (\E self \in Threads: thr(self))

Spec == /\ Init /\ [][Next]_vars
        /\ \A self \in Flushers : WF_vars(flusher(self))
        /\ \A self \in Threads : WF_vars(thr(self))

\* END TRANSLATION

AllDone == \A t \in Threads : pc[t] = "Done"
\* every node whose enqueue completed is either still queued in every surviving linearisation or was returned by a dequeue
Conservation == AllDone => \A c \in cfgs : {c.abs[j] : j \in DOMAIN c.abs} = inq
DeadlockFree == AllDone \/ ENABLED Next
SBBound == \A t \in Threads : Len(sb[t]) <= SBMax
=============================================================================
