------------------------------ MODULE DeferVal ------------------------------
(***************************************************************************)
(* C13: pointer-value alphabet of the defer queue (src/urcu-defer-impl.h,  *)
(* DQ_FCT_BIT / DQ_FCT_MARK) and the three-way encoder of _defer_rcu().    *)
(* Shared by DeferCodec (sequential object, all value sequences) and Defer *)
(* (concurrent protocol).  Values are symbolic names of pointer classes:   *)
(*   functions  fA, fB (aligned), gO (low bit set), MARK (= DQ_FCT_MARK =  *)
(*              ~1), NULL;  x|1 = aligned function x with DQ_FCT_BIT set   *)
(*   arguments  a1..a9 (aligned), o1..o9 (low bit set), MARK, NULL         *)
(***************************************************************************)
EXTENDS Sequences

MARK == "MARK"
NULL == "NULL"
AlignedF == {"fA", "fB"}
OddF == {"gO"}
AlignedP == {"a1", "a2", "a3", "a4", "a5", "a6", "a7", "a8", "a9"}
OddP == {"o1", "o2", "o3", "o4", "o5", "o6", "o7", "o8", "o9"}

\* DQ_SET_FCT_BIT on an aligned, non-marker function pointer (the only case in which the encoder uses it)
SetBit(f) == f \o "|1"
Tagged == {SetBit(f) : f \in AlignedF \cup {NULL}}
\* DQ_IS_FCT_BIT(x)
IsBit(x) == x \in OddF \cup OddP \cup Tagged
\* DQ_CLEAR_FCT_BIT(x)
ClearBit(x) == IF x \in Tagged THEN CHOOSE f \in AlignedF \cup {NULL} : SetBit(f) = x ELSE x \o "&~1"

\* Slots written by _defer_rcu(f, p) when the last encoded function is lfi (l.347-362); last_fct_in becomes f
Enc(lfi, f, p) ==
  IF lfi # f \/ IsBit(p) \/ p = MARK
  THEN IF IsBit(f) \/ f = MARK THEN <<MARK, f, p>> ELSE <<SetBit(f), p>>
  ELSE <<p>>

=============================================================================
