------------------------------ MODULE CallRcu ------------------------------
(***************************************************************************)
(* C03 / C04: call_rcu(), the call_rcu helper threads and rcu_barrier() of *)
(* src/urcu-call-rcu-impl.h, one action per shared-memory access or        *)
(* blocking call, under SC or x86-TSO store buffers.                       *)
(*                                                                         *)
(* Objects.  call_rcu_data structures are "c1", "c2", ... in order of      *)
(* creation (call_rcu_data_init under call_rcu_mutex); the helper thread   *)
(* created for cK is the process "hK".  Per crdp: cK.flags (RT 1, STOP 4,  *)
(* STOPPED 8, PAUSE 16, PAUSED 32), cK.futex, cK.qlen, the callback queue  *)
(* cK.tail / HcK.next (wfcqueue at its own linearisation granularity: tail *)
(* xchg + link store; splice = xchg of head.next, xchg of tail, append).   *)
(* rcu_head nodes "n1".. (n.next); completion objects of rcu_barrier()     *)
(* k<thread>.<op index> with .count / .futex / .ref, their per-helper work *)
(* items w.<completion>.<crdp>.  Globals: "dflt" (default_call_rcu_data),  *)
(* "pcpu" (per_cpu_call_rcu_data) and its slots pcpu0.. .                  *)
(* Plain data touched only under call_rcu_mutex or thread-privately        *)
(* (call_rcu_data_list, thread_call_rcu_data, cpus_array_len, the helper's *)
(* temporary queue cbs_tmp_head/tail, the caller's slots) are ordinary     *)
(* variables updated inside the adjacent step; the two plain reads made    *)
(* without the mutex (cpus_array_len in get_call_rcu_data, and             *)
(* default_call_rcu_data in _call_rcu_data_free) are their own steps.      *)
(*                                                                         *)
(* Grace period: abstract (DESIGN: AbstractRcu).  Read-side sections are   *)
(* ghost intervals (cs / rnest, also for the rcu_read_lock held inside     *)
(* call_rcu()); synchronize_rcu() is gp_b (snapshot of the open sections)  *)
(* followed by gp_e, a blocking step enabled once all of them have ended.  *)
(*                                                                         *)
(* Scenario programs (Prog[t], records [op, n, x, f, c]):                  *)
(*   call n        call_rcu(&n, F(n))   F(n) re-enqueues Re[n] if # "-"    *)
(*   rlock/runlock rcu_read_lock / rcu_read_unlock                         *)
(*   sync          synchronize_rcu()                                       *)
(*   getdef        get_default_call_rcu_data()                             *)
(*   create x f    slot[x] = create_call_rcu_data(f, -1)                   *)
(*   setthr x      set_thread_call_rcu_data(slot[x])      (x = "NULL")     *)
(*   setcpu c x    set_cpu_call_rcu_data(c, slot[x])                       *)
(*   cpu c         environment: the thread now runs on model CPU c         *)
(*   free x        call_rcu_data_free(slot[x])                             *)
(*   barrier       rcu_barrier()                                           *)
(*   pause/resume  call_rcu_before_fork() / call_rcu_after_fork_parent()   *)
(*                                                                         *)
(* Ghosts / properties: cnt (invocations per rcu_head), snap (sections     *)
(* open at call_rcu entry), fin (callback returned), bsnap (call_rcu()s    *)
(* that had returned when rcu_barrier was called), alive (crdp, completion *)
(* and work objects: allocated / freed), errs (set of violated clauses).   *)
(* Mut: model-level mutants (negative controls); {} for every claim.       *)
(***************************************************************************)
EXTENDS Naturals, Integers, Sequences, FiniteSets, TLC

CONSTANTS Threads,    \* set of scenario thread ids (strings)
          Prog,       \* [Threads -> Seq(op record)]
          TSO,        \* TRUE: stores are buffered (x86-TSO); FALSE: sequential consistency
          Tracing,    \* TRUE: maintain acc (last event) for trace validation / schedule generation
          SBMax,      \* capacity of a store buffer
          NHelp,      \* number of call_rcu_data structures / helper threads that can be created
          NCpu,       \* number of model CPUs (possible-CPU array length)
          Re,         \* [rcu_head node -> node its callback passes to call_rcu, or "-"]
          Spurious,   \* budget of spurious / EINTR returns of FUTEX_WAIT
          Mut         \* model-level mutants (subset of {"nogp","nowake","nohandover","earlycount","nomutex","noref","norlock"})

NULL == "NULL"
RT == 1  STOP == 4  STOPPED == 8  PAUSE == 16  PAUSED == 32
Has(v, b) == (v \div b) % 2 = 1
SetB(v, b) == IF Has(v, b) THEN v ELSE v + b
ClrB(v, b) == IF Has(v, b) THEN v - b ELSE v

CName(k) == "c" \o ToString(k)
HName(k) == "h" \o ToString(k)
Crdps == {CName(k) : k \in 1..NHelp}
Helpers == {HName(k) : k \in 1..NHelp}
CrOf == [h \in Helpers |-> CName(CHOOSE k \in 1..NHelp : HName(k) = h)]
HOf == [c \in Crdps |-> HName(CHOOSE k \in 1..NHelp : CName(k) = c)]
Procs == Threads \cup Helpers
CM == "call_rcu_mutex"

OpsOf(t) == {Prog[t][j] : j \in DOMAIN Prog[t]}
AllOps == UNION {OpsOf(t) : t \in Threads}
Nodes == {o.n : o \in {x \in AllOps : x.op = "call"}} \cup ({Re[n] : n \in DOMAIN Re} \ {"-"})
Slots == {o.x : o \in {x \in AllOps : x.op = "create"}}
KName(t, j) == "k" \o t \o "." \o ToString(j)
Comps == {KName(t, j) : t \in Threads, j \in 1..8} \cap UNION {{KName(t, j) : j \in {i \in DOMAIN Prog[t] : Prog[t][i].op = "barrier"}} : t \in Threads}
WName(k, c) == "w." \o k \o "." \o c
Works == {WName(k, c) : k \in Comps, c \in Crdps}
WComp == [w \in Works |-> CHOOSE k \in Comps : \E c \in Crdps : WName(k, c) = w]

Hd(c) == "H" \o c
NextOf(n) == n \o ".next"
TailOf(c) == c \o ".tail"
FlagsOf(c) == c \o ".flags"
FutexOf(c) == c \o ".futex"
QlenOf(c) == c \o ".qlen"
CountOf(k) == k \o ".count"
RefOf(k) == k \o ".ref"
PSlot(i) == "pcpu" \o ToString(i)
CrLocs(c) == {NextOf(Hd(c)), TailOf(c), FlagsOf(c), FutexOf(c), QlenOf(c)}
KLocs(k) == {CountOf(k), FutexOf(k), RefOf(k)}
PtrLocs == {TailOf(c) : c \in Crdps} \cup {NextOf(Hd(c)) : c \in Crdps} \cup {NextOf(n) : n \in Nodes \cup Works}
          \cup {"dflt", "pcpu"} \cup {PSlot(i) : i \in 0..(NCpu - 1)}
IntLocs == UNION {{FlagsOf(c), FutexOf(c), QlenOf(c)} : c \in Crdps} \cup UNION {KLocs(k) : k \in Comps}
Locs == PtrLocs \cup IntLocs
Objs == Crdps \cup Comps \cup Works
\* object a location belongs to ("static" for globals and caller-owned rcu_heads)
ObjOf(l) == IF \E c \in Crdps : l \in CrLocs(c) THEN CHOOSE c \in Crdps : l \in CrLocs(c)
            ELSE IF \E k \in Comps : l \in KLocs(k) THEN CHOOSE k \in Comps : l \in KLocs(k)
            ELSE IF \E w \in Works : l = NextOf(w) THEN CHOOSE w \in Works : l = NextOf(w)
            ELSE "static"
LocObj == [l \in Locs |-> ObjOf(l)]

FlId(t) == "F:" \o t
Flushers == {FlId(t) : t \in Procs}
FlOf == [f \in Flushers |-> CHOOSE t \in Procs : FlId(t) = f]
NoOp == [op |-> "none", n |-> "-", x |-> "-", f |-> 0, c |-> 0]
Without(s, x) == SelectSeq(s, LAMBDA y : y # x)
NoSnap == [p \in Procs |-> 0]
FName(n) == IF n \in Works THEN "barrier_complete" ELSE IF Re[n] = "-" THEN "cb" ELSE "re"

(* --algorithm callrcu {
variables
  mem = [l \in Locs |-> IF l \in IntLocs THEN 0
                        ELSE IF \E c \in Crdps : l = TailOf(c) THEN Hd(CHOOSE c \in Crdps : l = TailOf(c))
                        ELSE NULL],
  sb = [t \in Procs |-> <<>>],
  lock = "free",                            \* call_rcu_mutex
  acc = [k |-> 0],
  fsleep = {},                              \* processes blocked in FUTEX_WAIT
  wloc = [t \in Procs |-> "-"],             \* ... and the futex word each of them sleeps on
  spur = Spurious,
  \* plain data (under call_rcu_mutex, thread-private, or environment)
  crlist = <<>>,                            \* call_rcu_data_list, newest first (cds_list_add)
  nhelp = 0,                                \* call_rcu_data structures created so far
  started = [h \in Helpers |-> FALSE],      \* pthread_create done
  cpulen = 0,                               \* cpus_array_len
  tcrd = [t \in Procs |-> NULL],            \* URCU_TLS(thread_call_rcu_data)
  mycpu = [t \in Procs |-> 0],              \* sched_getcpu() of the thread
  slot = [s \in Slots |-> NULL],            \* the scenario's call_rcu_data pointers
  func = [n \in Nodes \cup Works |-> "-"],  \* head->func
  \* abstract RCU
  rnest = [t \in Procs |-> 0],
  cs = [t \in Procs |-> 0],                 \* number of the open outermost section of t (0: none)
  ncs = [t \in Procs |-> 0],                \* sections begun so far by t
  \* ghosts of the properties
  cnt = [n \in Nodes |-> 0],                \* invocations of n's callback
  snap = [n \in Nodes |-> NoSnap],          \* sections open when call_rcu(n) was entered
  queued = {},                              \* nodes whose call_rcu() has returned
  fin = {},                                 \* nodes whose callback has returned
  bsnap = [t \in Threads |-> {}],           \* queued at the call of the rcu_barrier() in progress
  alive = [o \in Objs |-> "no"],            \* "no" (not allocated yet), "yes", "freed"
  uaf = FALSE,                              \* a location of a freed object was accessed
  errs = {},                                \* violated clauses
  \* per-process temporaries (procedures have no locals)
  pci = [t \in Threads |-> 1],
  opx = [t \in Threads |-> NoOp],
  iv = [t \in Procs |-> 0],                 \* integer loaded
  pa = [t \in Procs |-> NULL],              \* pointer loaded (emptiness tests)
  hd = [t \in Procs |-> NULL],              \* splice: head
  tl = [t \in Procs |-> NULL],              \* splice: tail
  old = [t \in Procs |-> NULL],             \* append: old tail
  cur = [t \in Procs |-> NULL],             \* helper iteration: current node
  nx = [t \in Procs |-> NULL],              \* helper iteration: next node
  cbc = [t \in Procs |-> 0],                \* cbcount
  isrt = [t \in Procs |-> FALSE],           \* helper: rt
  en = [t \in Procs |-> NULL],              \* _call_rcu: head
  ec = [t \in Procs |-> NULL],              \* _call_rcu: crdp
  wc = [t \in Procs |-> NULL],              \* wake_call_rcu_thread: crdp
  gd = [t \in Procs |-> NULL],              \* get_default_call_rcu_data: result
  fc = [t \in Procs |-> NULL],              \* _call_rcu_data_free: crdp
  dc = [t \in Procs |-> NULL],              \* _call_rcu_data_free: default_call_rcu_data
  newc = [t \in Procs |-> NULL],            \* call_rcu_data_init: crdp
  cidef = [t \in Procs |-> FALSE],          \* call_rcu_data_init: crdpp == &default_call_rcu_data
  cifl = [t \in Procs |-> 0],               \* call_rcu_data_init: flags
  cn = [t \in Procs |-> NULL],              \* call_rcu: head
  bk = [t \in Procs |-> NULL],              \* rcu_barrier / _rcu_barrier_complete: completion
  regs = [t \in Procs |-> <<>>],            \* list traversal: call_rcu_data_list as seen under the mutex
  kk = [t \in Procs |-> 1],                 \* loop index
  gps = [t \in Procs |-> NoSnap];           \* synchronize_rcu: sections to wait for

define {
  LastIdx(t, loc) == LET S == {i \in DOMAIN sb[t] : sb[t][i][1] = loc} IN
                     IF S = {} THEN 0 ELSE CHOOSE i \in S : \A j \in S : j <= i
  Rd(t, loc) == IF LastIdx(t, loc) = 0 THEN mem[loc] ELSE sb[t][LastIdx(t, loc)][2]
  Drained(t) == sb[t] = <<>>
  Ev(t, op, var, a, b, r) == IF Tracing THEN [k |-> acc.k + 1, t |-> t, op |-> op, var |-> var, a |-> a, b |-> b, r |-> r] ELSE acc
  Dead(loc) == alive[LocObj[loc]] = "freed"
  StillOpen(s) == \E p \in Procs : s[p] # 0 /\ cs[p] = s[p]
  Sleepers(loc) == {p \in fsleep : wloc[p] = loc}
}

macro Ld(dst, loc)    { dst := Rd(self, loc); uaf := uaf \/ Dead(loc); acc := Ev(self, "ld", loc, "-", "-", Rd(self, loc)); }
macro St(loc, v)      { if (TSO) { await Len(sb[self]) < SBMax; sb[self] := Append(sb[self], <<loc, v>>) } else { mem[loc] := v };
                        uaf := uaf \/ Dead(loc); acc := Ev(self, "st", loc, v, "-", "-"); }
\* plain store (no event): buffered like any store under TSO when model checking; the executed runtime commits a plain
\* store at once, after draining the thread's buffer
macro PlainSt(loc, v) { if (TSO /\ ~Tracing) { await Len(sb[self]) < SBMax; sb[self] := Append(sb[self], <<loc, v>>) }
                        else { await Drained(self); mem[loc] := v };
                        uaf := uaf \/ Dead(loc); }
macro Xchg(dst, loc, v) { await Drained(self); dst := mem[loc]; mem[loc] := v; uaf := uaf \/ Dead(loc); acc := Ev(self, "xchg", loc, v, "-", dst); }
macro Rmw(opn, loc, a, new) { await Drained(self); mem[loc] := new; uaf := uaf \/ Dead(loc); acc := Ev(self, opn, loc, a, "-", new); }
macro Mb()            { await Drained(self); acc := Ev(self, "mb", "-", "-", "-", "-"); }
macro Lock()          { await Drained(self) /\ lock = "free"; lock := self; acc := Ev(self, "lock", CM, "-", "-", "-"); }
macro Unlock()        { await Drained(self); lock := "free"; acc := Ev(self, "unlock", CM, "-", "-", "-"); }
macro FWake(loc)      { await Drained(self); uaf := uaf \/ Dead(loc); acc := Ev(self, "fwake", loc, "-", "-", Cardinality(Sleepers(loc)));
                        fsleep := fsleep \ Sleepers(loc); }
macro Fail(what)      { errs := errs \cup {what} }

\* ------------------------------------------------------------------ synchronize_rcu(): abstract grace period
procedure synchronize_rcu() {
gp_b:   await Drained(self);
        gps[self] := [p \in Procs |-> IF p = self THEN 0 ELSE cs[p]];
        acc := Ev(self, "gp_begin", "-", "-", "-", "-");
gp_e:   await ~StillOpen(gps[self]);
        acc := Ev(self, "gp_end", "-", "-", "-", "-");
        return;
}

\* ------------------------------------------------------------------ wake_call_rcu_thread(wc) -> call_rcu_wake_up
procedure wake() {
wk_fl:  Ld(iv[self], FlagsOf(wc[self]));                         \* if (!(uatomic_load(&crdp->flags) & URCU_CALL_RCU_RT))
        if (Has(iv[self], RT) \/ "nowake" \in Mut) { return };
wk_mb:  Mb();                                                    \* cmm_smp_mb(): write to call_rcu list before reading/writing futex
wk_ld:  Ld(iv[self], FutexOf(wc[self]));                         \* if (uatomic_load(&crdp->futex) == -1)
        if (iv[self] # -1) { return };
wk_st:  St(FutexOf(wc[self]), 0);                                \*   uatomic_store(&crdp->futex, 0)
wk_fw:  FWake(FutexOf(wc[self]));                                \*   futex_async(&crdp->futex, FUTEX_WAKE, 1, ...)
        return;
}

\* ------------------------------------------------------------------ _call_rcu(en, func, ec)
procedure enqueue() {
e_mb:   Mb();                                                    \* cds_wfcq_enqueue: cmm_emit_legacy_smp_mb()
e_xchg: Xchg(old[self], TailOf(ec[self]), en[self]);             \* old_tail = uatomic_xchg(&tail->p, new_tail)
e_link: St(NextOf(old[self]), en[self]);                         \* uatomic_store(&old_tail->next, new_head, RELEASE)
e_qlen: Rmw("inc", QlenOf(ec[self]), 1, mem[QlenOf(ec[self])] + 1);   \* uatomic_inc(&crdp->qlen)
        wc[self] := ec[self];
        call wake();                                             \* wake_call_rcu_thread(crdp)
e_ret:  return;
}

\* ------------------------------------------------------------------ call_rcu_data_init(crdpp, cifl, -1)  (call_rcu_mutex held)
procedure data_init() {
ci_new: newc[self] := CName(nhelp + 1);                          \* malloc, memset, cds_wfcq_init, qlen = futex = 0, flags, cds_list_add
        nhelp := nhelp + 1;
        if (nhelp >= NHelp + 1) { Fail("NHelp too small for this scenario") };
        alive[newc[self]] := "yes";
        crlist := <<newc[self]>> \o crlist;
        PlainSt(FlagsOf(newc[self]), cifl[self]);
ci_pub: if (cidef[self]) { St("dflt", newc[self]) };             \* rcu_set_pointer(crdpp, crdp)
ci_spawn: await Drained(self);                                   \* pthread_create(&crdp->tid, NULL, call_rcu_thread, crdp)
        started[HOf[newc[self]]] := TRUE;
        acc := Ev(self, "spawn", HOf[newc[self]], "-", "-", "-");
        return;
}

\* ------------------------------------------------------------------ get_default_call_rcu_data() -> gd
procedure get_default() {
gd_ld:  Ld(gd[self], "dflt");                                    \* crdp = rcu_dereference(default_call_rcu_data)
        if (gd[self] # NULL) { return };
gd_lock: Lock();                                                 \* call_rcu_lock(&call_rcu_mutex)
gd_chk: if (Rd(self, "dflt") = NULL) {                           \* if (default_call_rcu_data == NULL)
          cidef[self] := TRUE; cifl[self] := 0;
          call data_init();                                      \*   call_rcu_data_init(&default_call_rcu_data, 0, -1)
        };
gd_unl: gd[self] := Rd(self, "dflt");                            \* crdp = default_call_rcu_data
        Unlock();
        return;
}

\* ------------------------------------------------------------------ call_rcu(cn, F(cn))
procedure call_rcu() {
cr_lock: if ("norlock" \notin Mut) {                             \* _rcu_read_lock()
          if (rnest[self] = 0) { cs[self] := ncs[self] + 1; ncs[self] := ncs[self] + 1 };
          rnest[self] := rnest[self] + 1;
          acc := Ev(self, "rlock", "-", "-", "-", rnest[self] + 1);
        };
        if (tcrd[self] # NULL) { ec[self] := tcrd[self]; goto cr_enq };   \* get_call_rcu_data(): thread_call_rcu_data
cr_len: if (cpulen = 0) { goto cr_def };                         \* if (cpus_array_len > 0)          (plain read, no mutex)
cr_pc:  Ld(pa[self], "pcpu");                                    \* pcpu_crdp = rcu_dereference(per_cpu_call_rcu_data)
        if (pa[self] = NULL) { goto cr_def };
cr_pcs: Ld(pa[self], PSlot(mycpu[self]));                        \* rcu_dereference(pcpu_crdp[urcu_sched_getcpu()])
        if (pa[self] # NULL) { ec[self] := pa[self]; goto cr_enq };
cr_def: call get_default();                                      \* get_default_call_rcu_data()
cr_got: ec[self] := gd[self];
cr_enq: en[self] := cn[self];                                    \* cds_wfcq_node_init(&head->next); head->func = func
        func[cn[self]] := FName(cn[self]);
        call enqueue();
cr_unl: if ("norlock" \notin Mut) {                              \* _rcu_read_unlock()
          rnest[self] := rnest[self] - 1;
          if (rnest[self] = 1) { cs[self] := 0 };
          acc := Ev(self, "runlock", "-", "-", "-", rnest[self] - 1);
        };
        return;
}

\* ------------------------------------------------------------------ set_cpu_call_rcu_data(opx.c, crdp = en)
procedure set_cpu() {
sc_lock: Lock();                                                 \* call_rcu_lock(&call_rcu_mutex); alloc_cpu_call_rcu_data()
        if (cpulen # 0) { goto sc_chk };
sc_len: cpulen := NCpu;                                          \* cpus_array_len = get_possible_cpus_array_len(); p = malloc(); memset()
sc_arr: St("pcpu", "ARR");                                       \* rcu_set_pointer(&per_cpu_call_rcu_data, p)
sc_chk: if (Rd(self, PSlot(opx[self].c)) # NULL /\ en[self] # NULL) { res[self] := "EEXIST"; goto sc_unl };   \* per_cpu_call_rcu_data[cpu] != NULL && crdp != NULL
sc_st:  St(PSlot(opx[self].c), en[self]);                        \* rcu_set_pointer(&per_cpu_call_rcu_data[cpu], crdp)
        res[self] := "0";
sc_unl: Unlock();
        return;
}

\* ------------------------------------------------------------------ _call_rcu_data_free(fc, CRDF_FLAG_JOIN_THREAD)
procedure data_free() {
f_chk:  if (fc[self] = NULL \/ fc[self] = Rd(self, "dflt")) { return };   \* crdp == NULL || crdp == default_call_rcu_data (plain read, no mutex)
f_ld:   Ld(iv[self], FlagsOf(fc[self]));                         \* if ((uatomic_load(&crdp->flags) & URCU_CALL_RCU_STOPPED) == 0)
        if (Has(iv[self], STOPPED)) { goto f_lock };
f_or:   Rmw("or", FlagsOf(fc[self]), STOP, SetB(mem[FlagsOf(fc[self])], STOP));   \* uatomic_or(&crdp->flags, URCU_CALL_RCU_STOP)
        wc[self] := fc[self];
        call wake();                                             \* wake_call_rcu_thread(crdp)
f_wait: Ld(iv[self], FlagsOf(fc[self]));                         \* while ((uatomic_load(&crdp->flags) & URCU_CALL_RCU_STOPPED) == 0) poll(NULL, 0, 1)
        if (~Has(iv[self], STOPPED)) { goto f_wait };
f_lock: Lock();                                                  \* call_rcu_lock(&call_rcu_mutex)
f_e1:   Ld(pa[self], NextOf(Hd(fc[self])));                      \* if (!cds_wfcq_empty(&crdp->cbs_head, &crdp->cbs_tail))
        if (pa[self] # NULL) { goto f_unl1 };
f_e2:   Ld(pa[self], TailOf(fc[self]));
        if (pa[self] = Hd(fc[self]) \/ "nohandover" \in Mut) { goto f_unl2 };
f_unl1: Unlock();                                                \* call_rcu_unlock(&call_rcu_mutex)
        call get_default();                                      \* (void) get_default_call_rcu_data()
f_lock2: Lock();                                                 \* call_rcu_lock(&call_rcu_mutex)
        dc[self] := Rd(self, "dflt");
fs_e1:  Ld(pa[self], NextOf(Hd(fc[self])));                      \* __cds_wfcq_splice_blocking(default, crdp): _cds_wfcq_empty(src)
        if (pa[self] # NULL) { goto fs_xh };
fs_e2:  Ld(pa[self], TailOf(fc[self]));
        if (pa[self] = Hd(fc[self])) { goto f_ldq };
fs_xh:  Xchg(hd[self], NextOf(Hd(fc[self])), NULL);              \* head = uatomic_xchg(&src_q_head->node.next, NULL)
        if (hd[self] # NULL) { goto fs_mb };
fs_lt:  Ld(pa[self], TailOf(fc[self]));                          \* if (uatomic_load(&src_q_tail->p) == &src_q_head->node) return SRC_EMPTY
        if (pa[self] = Hd(fc[self])) { goto f_ldq } else { goto fs_xh };
fs_mb:  Mb();                                                    \* cmm_emit_legacy_smp_mb()
fs_xt:  Xchg(tl[self], TailOf(fc[self]), Hd(fc[self]));          \* tail = uatomic_xchg(&src_q_tail->p, &src_q_head->node)
fs_ax:  Xchg(old[self], TailOf(dc[self]), tl[self]);             \* ___cds_wfcq_append(dest, head, tail): xchg(&dest_tail->p, tail)
fs_al:  St(NextOf(old[self]), hd[self]);                         \*   uatomic_store(&old_tail->next, head, RELEASE)
f_ldq:  Ld(iv[self], QlenOf(fc[self]));                          \* uatomic_add(&default->qlen, uatomic_load(&crdp->qlen))
f_add:  Rmw("add", QlenOf(dc[self]), iv[self], mem[QlenOf(dc[self])] + iv[self]);
        wc[self] := dc[self];
        call wake();                                             \* wake_call_rcu_thread(default_call_rcu_data)
f_unl2: crlist := Without(crlist, fc[self]);                     \* cds_list_del(&crdp->list); call_rcu_unlock(&call_rcu_mutex)
        Unlock();
f_join: await pc[HOf[fc[self]]] = "Done";                        \* pthread_join(get_call_rcu_thread(crdp), NULL)
        acc := Ev(self, "join", HOf[fc[self]], "-", "-", "-");
f_free: if (alive[fc[self]] # "yes") { Fail("call_rcu_data freed twice") };   \* free(crdp)
        alive[fc[self]] := "freed";
        acc := Ev(self, "free", fc[self], "-", "-", "-");
        return;
}

\* ------------------------------------------------------------------ _rcu_barrier_complete(&work->head), work = cur, completion = bk
procedure barrier_complete() {
bc_sub: Rmw("addret", CountOf(bk[self]), -1, mem[CountOf(bk[self])] - 1);   \* if (!uatomic_sub_return(&completion->barrier_count, 1))
        if (mem[CountOf(bk[self])] - 1 # 0) { goto bc_put };
bc_mb:  Mb();                                                    \* call_rcu_completion_wake_up: cmm_smp_mb()
bc_ld:  Ld(iv[self], FutexOf(bk[self]));                         \* if (uatomic_load(&completion->futex) == -1)
        if (iv[self] # -1) { goto bc_put };
bc_st:  St(FutexOf(bk[self]), 0);                                \*   uatomic_store(&completion->futex, 0)
bc_fw:  FWake(FutexOf(bk[self]));                                \*   futex_async(&completion->futex, FUTEX_WAKE, 1, ...)
bc_put: Rmw("addret", RefOf(bk[self]), -1, mem[RefOf(bk[self])] - 1);   \* urcu_ref_put(&completion->ref, free_completion)
        if (mem[RefOf(bk[self])] - 1 # 0 /\ "noref" \notin Mut) { goto bc_frw };
bc_frk: if (alive[bk[self]] # "yes") { Fail("completion freed twice") };   \* free_completion(): free(completion)
        alive[bk[self]] := "freed";
        acc := Ev(self, "free", bk[self], "-", "-", "-");
bc_frw: alive[cur[self]] := "freed";                             \* free(work)
        acc := Ev(self, "free", cur[self], "-", "-", "-");
        return;
}

\* ------------------------------------------------------------------ rcu_barrier()
procedure barrier() {
b_lock: if ("nomutex" \notin Mut) { Lock() };                    \* call_rcu_lock(&call_rcu_mutex)
b_count: regs[self] := crlist;                                   \* cds_list_for_each_entry(crdp, &call_rcu_data_list, list) count++
        kk[self] := 1;
b_ref:  St(RefOf(bk[self]), Len(regs[self]) + 1);                \* urcu_ref_set(&completion->ref, count + 1)
b_cnt:  PlainSt(CountOf(bk[self]), IF "earlycount" \in Mut THEN 0 ELSE Len(regs[self]));   \* completion->barrier_count = count
b_loop: while (kk[self] <= Len(regs[self])) {                    \* cds_list_for_each_entry(crdp, &call_rcu_data_list, list)
          en[self] := WName(bk[self], regs[self][kk[self]]);     \*   work = calloc(); work->completion = completion
          ec[self] := regs[self][kk[self]];
          alive[WName(bk[self], regs[self][kk[self]])] := "yes";
          func[WName(bk[self], regs[self][kk[self]])] := "barrier_complete";
          kk[self] := kk[self] + 1;
          call enqueue();                                        \*   _call_rcu(&work->head, _rcu_barrier_complete, crdp)
        };
b_unl:  if ("nomutex" \notin Mut) { Unlock() };                  \* call_rcu_unlock(&call_rcu_mutex)
b_dec:  Rmw("dec", FutexOf(bk[self]), 1, mem[FutexOf(bk[self])] - 1);   \* for (;;) { uatomic_dec(&completion->futex)
b_mb:   Mb();                                                    \*   cmm_smp_mb(): decrement futex before reading barrier_count
b_ldc:  Ld(iv[self], CountOf(bk[self]));                         \*   if (!uatomic_load(&completion->barrier_count)) break
        if (iv[self] = 0) { goto b_put };
cw_mb:  Mb();                                                    \*   call_rcu_completion_wait(): cmm_smp_mb()
cw_ld:  Ld(iv[self], FutexOf(bk[self]));                         \*   while (uatomic_load(&completion->futex) == -1)
        if (iv[self] # -1) { goto b_dec };
cw_fwait: await Drained(self);                                   \*     futex_async(&completion->futex, FUTEX_WAIT, -1, ...)
        uaf := uaf \/ Dead(FutexOf(bk[self]));
        if (mem[FutexOf(bk[self])] = -1) { fsleep := fsleep \cup {self}; wloc[self] := FutexOf(bk[self]);
                                           acc := Ev(self, "fwait", FutexOf(bk[self]), -1, "-", "SLEEP") }
        else { acc := Ev(self, "fwait", FutexOf(bk[self]), -1, "-", "EAGAIN"); goto b_dec };
cw_fwoke: either { await self \notin fsleep; acc := Ev(self, "fwoke", FutexOf(bk[self]), "-", "-", "WAKE") }
        or { await self \in fsleep /\ spur > 0; spur := spur - 1; fsleep := fsleep \ {self};
             with (k \in {"SPURIOUS", "EINTR"}) { acc := Ev(self, "fwoke", FutexOf(bk[self]), "-", "-", k) } };
        goto cw_ld;
b_put:  Rmw("addret", RefOf(bk[self]), -1, mem[RefOf(bk[self])] - 1);   \* urcu_ref_put(&completion->ref, free_completion)
        if (mem[RefOf(bk[self])] - 1 # 0 /\ "noref" \notin Mut) { return };
b_free: if (alive[bk[self]] # "yes") { Fail("completion freed twice") };   \* free(completion)
        alive[bk[self]] := "freed";
        acc := Ev(self, "free", bk[self], "-", "-", "-");
        return;
}

\* ------------------------------------------------------------------ call_rcu_before_fork() / call_rcu_after_fork_parent()
procedure before_fork() {
bf_lock: Lock();                                                 \* call_rcu_lock(&call_rcu_mutex)
        regs[self] := crlist; kk[self] := 1;
bf_or:  while (kk[self] <= Len(regs[self])) {                    \* cds_list_for_each_entry: uatomic_or(&crdp->flags, URCU_CALL_RCU_PAUSE)
          Rmw("or", FlagsOf(regs[self][kk[self]]), PAUSE, SetB(mem[FlagsOf(regs[self][kk[self]])], PAUSE));
          wc[self] := regs[self][kk[self]];
          kk[self] := kk[self] + 1;
          call wake();                                           \*   wake_call_rcu_thread(crdp)
        };
bf_w0:  kk[self] := 1;
bf_wait: while (kk[self] <= Len(regs[self])) {                   \* while ((uatomic_load(&crdp->flags) & URCU_CALL_RCU_PAUSED) == 0) poll(NULL, 0, 1)
          Ld(iv[self], FlagsOf(regs[self][kk[self]]));
          if (Has(iv[self], PAUSED)) { kk[self] := kk[self] + 1 };
        };
        return;
}
procedure after_fork_parent() {
af_0:   regs[self] := crlist; kk[self] := 1;
af_and: while (kk[self] <= Len(regs[self])) {                    \* uatomic_and(&crdp->flags, ~URCU_CALL_RCU_PAUSE)
          Rmw("and", FlagsOf(regs[self][kk[self]]), -(PAUSE + 1), ClrB(mem[FlagsOf(regs[self][kk[self]])], PAUSE));
          kk[self] := kk[self] + 1;
        };
af_w0:  kk[self] := 1;
af_wait: while (kk[self] <= Len(regs[self])) {                   \* while ((uatomic_load(&crdp->flags) & URCU_CALL_RCU_PAUSED) != 0) poll(NULL, 0, 1)
          Ld(iv[self], FlagsOf(regs[self][kk[self]]));
          if (~Has(iv[self], PAUSED)) { kk[self] := kk[self] + 1 };
        };
af_unl: Unlock();                                                \* call_rcu_unlock(&call_rcu_mutex)
        return;
}

fair process (flusher \in Flushers) {
fl: while (TRUE) {
      await sb[FlOf[self]] # <<>>;
      mem[Head(sb[FlOf[self]])[1]] := Head(sb[FlOf[self]])[2] || sb[FlOf[self]] := Tail(sb[FlOf[self]])
      || acc := IF Tracing THEN [k |-> acc.k + 1, t |-> FlOf[self], op |-> "flush", var |-> Head(sb[FlOf[self]])[1],
                               a |-> Head(sb[FlOf[self]])[2], b |-> "-", r |-> "-"] ELSE acc;
    }
}

\* ------------------------------------------------------------------ call_rcu_thread(crdp), crdp = CrOf[self]
fair process (helper \in Helpers) {
h_idle: await started[self];
h_flags: Ld(iv[self], FlagsOf(CrOf[self]));                      \* rt = !!(uatomic_load(&crdp->flags) & URCU_CALL_RCU_RT)
        isrt[self] := Has(iv[self], RT);                         \* rcu_register_thread(); URCU_TLS(thread_call_rcu_data) = crdp
        tcrd[self] := CrOf[self];
        if (Has(iv[self], RT)) { goto h_top };
h_dec0: Rmw("dec", FutexOf(CrOf[self]), 1, mem[FutexOf(CrOf[self])] - 1);   \* uatomic_dec(&crdp->futex)
h_mb0:  Mb();                                                    \* cmm_smp_mb(): decrement futex before reading call_rcu list
h_top:  Ld(iv[self], FlagsOf(CrOf[self]));                       \* for (;;) { if (uatomic_load(&crdp->flags) & URCU_CALL_RCU_PAUSE)
        if (~Has(iv[self], PAUSE)) { goto s_e1 };
p_or:   Rmw("or", FlagsOf(CrOf[self]), PAUSED, SetB(mem[FlagsOf(CrOf[self])], PAUSED));   \* rcu_unregister_thread(); uatomic_or(&crdp->flags, URCU_CALL_RCU_PAUSED)
p_wait: Ld(iv[self], FlagsOf(CrOf[self]));                       \* while ((uatomic_load(&crdp->flags) & URCU_CALL_RCU_PAUSE) != 0) poll(NULL, 0, 1)
        if (Has(iv[self], PAUSE)) { goto p_wait };
p_and:  Rmw("and", FlagsOf(CrOf[self]), -(PAUSED + 1), ClrB(mem[FlagsOf(CrOf[self])], PAUSED));   \* uatomic_and(&crdp->flags, ~URCU_CALL_RCU_PAUSED); rcu_register_thread()
s_e1:   Ld(pa[self], NextOf(Hd(CrOf[self])));                    \* __cds_wfcq_splice_blocking(&cbs_tmp, &crdp->cbs): _cds_wfcq_empty(src)
        if (pa[self] # NULL) { goto s_xh };
s_e2:   Ld(pa[self], TailOf(CrOf[self]));
        if (pa[self] = Hd(CrOf[self])) { goto h_stop };
s_xh:   Xchg(hd[self], NextOf(Hd(CrOf[self])), NULL);            \* head = uatomic_xchg(&src_q_head->node.next, NULL)
        if (hd[self] # NULL) { goto s_mb };
s_lt:   Ld(pa[self], TailOf(CrOf[self]));                        \* if (uatomic_load(&src_q_tail->p) == &src_q_head->node) return SRC_EMPTY
        if (pa[self] = Hd(CrOf[self])) { goto h_stop } else { goto s_xh };
s_mb:   Mb();                                                    \* cmm_emit_legacy_smp_mb()
s_xt:   Xchg(tl[self], TailOf(CrOf[self]), Hd(CrOf[self]));      \* tail = uatomic_xchg(&src_q_tail->p, &src_q_head->node); append to the private cbs_tmp
        if ("nogp" \in Mut) { goto it_0 };
h_gp:   call synchronize_rcu();                                  \* synchronize_rcu()
it_0:   cur[self] := hd[self]; cbc[self] := 0;                   \* __cds_wfcq_for_each_blocking_safe(&cbs_tmp_head, &cbs_tmp_tail, cbs, cbs_tmp_n)
it_ld:  Ld(nx[self], NextOf(cur[self]));                         \* ___cds_wfcq_next(cbs): next = uatomic_load(&node->next); tail->p == node ? NULL : sync_next
        if (nx[self] = NULL /\ cur[self] # tl[self]) { goto it_ld };
it_inv: if (cur[self] \in Works) {                               \* rhp->func(rhp)
          if (func[cur[self]] # "barrier_complete") { Fail("RightArg") };
          bk[self] := WComp[cur[self]];
          call barrier_complete();
        } else {
          cnt[cur[self]] := cnt[cur[self]] + 1;
          if (cnt[cur[self]] >= 1) { Fail("AtMostOnce") };
          if (StillOpen(snap[cur[self]])) { Fail("AfterGP") };
          if (func[cur[self]] # FName(cur[self])) { Fail("RightArg") };
          acc := Ev(self, "cb", cur[self], func[cur[self]], "-", "-");
          if (Re[cur[self]] = "-") { goto it_end };
        };
it_re:  if (cur[self] \in Works) { goto it_nxt };
        cn[self] := Re[cur[self]];                               \* the callback passes another rcu_head to call_rcu()
        snap[Re[cur[self]]] := cs;
        acc := Ev(self, "call", Re[cur[self]], "call", "-", "-");
        call call_rcu();
it_rr:  queued := queued \cup {cn[self]};
        acc := Ev(self, "ret", "-", "-", "-", "-");
it_end: fin := fin \cup {cur[self]};                             \* the callback returns
        acc := Ev(self, "cbend", cur[self], "-", "-", "-");
it_nxt: cbc[self] := cbc[self] + 1;                              \* cbcount++
        cur[self] := nx[self];
        if (nx[self] # NULL) { goto it_ld };
h_sub:  Rmw("add", QlenOf(CrOf[self]), -cbc[self], mem[QlenOf(CrOf[self])] - cbc[self]);   \* uatomic_sub(&crdp->qlen, cbcount)
h_stop: Ld(iv[self], FlagsOf(CrOf[self]));                       \* if (uatomic_load(&crdp->flags) & URCU_CALL_RCU_STOP) break
        hd[self] := NULL; tl[self] := NULL; cur[self] := NULL; nx[self] := NULL; cbc[self] := 0;
        if (Has(iv[self], STOP)) { goto h_out };
h_rt:   if (isrt[self]) { goto h_top };                          \* rcu_thread_offline(); if (!rt) ... else poll(NULL, 0, 10); rcu_thread_online()
h_e1:   Ld(pa[self], NextOf(Hd(CrOf[self])));                    \* if (cds_wfcq_empty(&crdp->cbs_head, &crdp->cbs_tail))
        if (pa[self] # NULL) { goto h_top };                     \* else poll(NULL, 0, 10)
h_e2:   Ld(pa[self], TailOf(CrOf[self]));
        if (pa[self] # Hd(CrOf[self])) { goto h_top };
w_mb:   Mb();                                                    \* call_rcu_wait(crdp): cmm_smp_mb(): read call_rcu list before read futex
w_ld:   Ld(iv[self], FutexOf(CrOf[self]));                       \* while (uatomic_load(&crdp->futex) == -1)
        if (iv[self] # -1) { goto w_dec };
w_fwait: await Drained(self);                                    \*   futex_async(&crdp->futex, FUTEX_WAIT, -1, ...)
        uaf := uaf \/ Dead(FutexOf(CrOf[self]));
        if (mem[FutexOf(CrOf[self])] = -1) { fsleep := fsleep \cup {self}; wloc[self] := FutexOf(CrOf[self]);
                                             acc := Ev(self, "fwait", FutexOf(CrOf[self]), -1, "-", "SLEEP") }
        else { acc := Ev(self, "fwait", FutexOf(CrOf[self]), -1, "-", "EAGAIN"); goto w_dec };   \* EAGAIN: value already changed
w_fwoke: either { await self \notin fsleep; acc := Ev(self, "fwoke", FutexOf(CrOf[self]), "-", "-", "WAKE") }
        or { await self \in fsleep /\ spur > 0; spur := spur - 1; fsleep := fsleep \ {self};
             with (k \in {"SPURIOUS", "EINTR"}) { acc := Ev(self, "fwoke", FutexOf(CrOf[self]), "-", "-", k) } };
        goto w_ld;                                               \* 0 / EINTR: check the value again
w_dec:  Rmw("dec", FutexOf(CrOf[self]), 1, mem[FutexOf(CrOf[self])] - 1);   \* (poll(NULL, 0, 10)) uatomic_dec(&crdp->futex)
w_mb2:  Mb();                                                    \* cmm_smp_mb(): decrement futex before reading call_rcu list
        goto h_top;
h_out:  if (isrt[self]) { goto o_or };
o_mb:   Mb();                                                    \* cmm_smp_mb(): read call_rcu list before write futex
o_st:   St(FutexOf(CrOf[self]), 0);                              \* uatomic_store(&crdp->futex, 0)
o_or:   Rmw("or", FlagsOf(CrOf[self]), STOPPED, SetB(mem[FlagsOf(CrOf[self])], STOPPED));   \* uatomic_or(&crdp->flags, URCU_CALL_RCU_STOPPED)
h_exit: await Drained(self);                                     \* rcu_unregister_thread(); return NULL
        acc := Ev(self, "exit", "-", "-", "-", "-");
}

\* ------------------------------------------------------------------ scenario threads
fair process (thr \in Threads) {
t_top:  while (pci[self] <= Len(Prog[self])) {
          opx[self] := Prog[self][pci[self]];
          if (opx[self].op = "rlock") {
            if (rnest[self] = 0) { cs[self] := ncs[self] + 1; ncs[self] := ncs[self] + 1 };
            rnest[self] := rnest[self] + 1; pci[self] := pci[self] + 1;
            acc := Ev(self, "rlock", "-", "-", "-", rnest[self] + 1);
            goto t_top
          } else if (opx[self].op = "runlock") {
            rnest[self] := rnest[self] - 1; pci[self] := pci[self] + 1;
            if (rnest[self] = 1) { cs[self] := 0 };
            acc := Ev(self, "runlock", "-", "-", "-", rnest[self] - 1);
            goto t_top
          } else if (opx[self].op = "cpu") {
            mycpu[self] := opx[self].c; pci[self] := pci[self] + 1;
            goto t_top
          } else {
            if (opx[self].op = "call") { cn[self] := opx[self].n; snap[opx[self].n] := cs }
            else if (opx[self].op = "barrier") {
              bk[self] := KName(self, pci[self]); alive[KName(self, pci[self])] := "yes"; bsnap[self] := queued }
            else if (opx[self].op = "free") { fc[self] := slot[opx[self].x] }
            else if (opx[self].op = "setcpu") { en[self] := IF opx[self].x = NULL THEN NULL ELSE slot[opx[self].x] }
            else if (opx[self].op = "create") { cidef[self] := FALSE; cifl[self] := opx[self].f };
            res[self] := "-";
            acc := Ev(self, "call", IF opx[self].op = "call" THEN opx[self].n ELSE IF opx[self].op \in {"free", "setcpu", "setthr"} /\ opx[self].x # NULL THEN slot[opx[self].x] ELSE "-",
                      opx[self].op, "-", "-");
          };
t_disp:   if (opx[self].op = "call") { call call_rcu() }
          else if (opx[self].op = "sync") { call synchronize_rcu() }
          else if (opx[self].op = "getdef") { call get_default() }
          else if (opx[self].op = "create") { goto t_crl }
          else if (opx[self].op = "setthr") { tcrd[self] := IF opx[self].x = NULL THEN NULL ELSE slot[opx[self].x] }
          else if (opx[self].op = "setcpu") { call set_cpu() }
          else if (opx[self].op = "free") { call data_free() }
          else if (opx[self].op = "barrier") { call barrier() }
          else if (opx[self].op = "pause") { call before_fork() }
          else { call after_fork_parent() };
t_ret:    if (opx[self].op = "call") { queued := queued \cup {opx[self].n} }
          else if (opx[self].op = "barrier") {
            if (bsnap[self] \ fin # {}) { Fail("BarrierComplete") } };
          acc := Ev(self, "ret", "-", "-", "-", res[self]);
          pci[self] := pci[self] + 1;
          goto t_top;
t_crl:    Lock();                                                \* create_call_rcu_data(): call_rcu_lock(&call_rcu_mutex)
          call data_init();                                      \*   __create_call_rcu_data(flags, cpu_affinity)
t_cru:    slot[opx[self].x] := newc[self]; res[self] := newc[self];
          Unlock();                                              \*   call_rcu_unlock(&call_rcu_mutex)
          goto t_ret;
        };
t_exit: await Drained(self);
        acc := Ev(self, "exit", "-", "-", "-", "-");
}
} *)
\* BEGIN TRANSLATION
\* END TRANSLATION

AllDone == \A t \in Threads : pc[t] = "Done"
NoErr == errs = {}
AtMostOnce == "AtMostOnce" \notin errs
AfterGP == "AfterGP" \notin errs
RightArg == "RightArg" \notin errs
BarrierComplete == "BarrierComplete" \notin errs
FreedOnce == "completion freed twice" \notin errs /\ "call_rcu_data freed twice" \notin errs
NoUseAfterFree == ~uaf
Called == {n \in Nodes : snap[n] # NoSnap \/ n \in queued \/ cnt[n] > 0}
\* a helper is at rest: never started, finished, asleep in FUTEX_WAIT, or (real-time) polling an empty queue
HelperIdle(h) == \/ pc[h] \in {"h_idle", "Done"}
                 \/ (pc[h] = "w_fwoke" /\ h \in fsleep)
                 \/ (isrt[h] /\ pc[h] = "h_top" /\ mem[TailOf(CrOf[h])] = Hd(CrOf[h]) /\ ~Has(mem[FlagsOf(CrOf[h])], STOP))
Quiescent == AllDone /\ (\A p \in Procs : sb[p] = <<>>) /\ \A h \in Helpers : HelperIdle(h)
\* NoLoss: once every scenario thread has finished and all helpers are at rest, every callback passed to call_rcu() has run
Queued == {n \in Nodes : n \in queued}
NoLoss == Quiescent => \A n \in Queued : cnt[n] = 1 /\ n \in fin
\* deadlock freedom with an explicit notion of termination (flushers never terminate, helpers stay parked)
DeadlockFree == AllDone \/ ENABLED Next
SBBound == \A t \in Procs : Len(sb[t]) <= SBMax
\* liveness (no state constraint): every queued callback is eventually invoked, every rcu_barrier() returns
FairSpec == Spec
EventuallyInvoked == \A n \in Nodes : (n \in queued) ~> (n \in fin)
BarrierReturns == \A t \in Threads : (pc[t] = "t_disp" /\ opx[t].op = "barrier") ~> (pc[t] = "t_ret")
AllReturn == <>(AllDone)
=============================================================================
