------------------------------ MODULE CallRcu ------------------------------
(***************************************************************************)
(* C03 / C04: call_rcu(), the call_rcu helper threads and rcu_barrier() of *)
(* src/urcu-call-rcu-impl.h, one action per shared-memory access or        *)
(* blocking call, under SC or x86-TSO store buffers.                       *)
(*                                                                         *)
(* Objects.  call_rcu_data structures are "c1", "c2", ... in order of      *)
(* creation (call_rcu_data_init under call_rcu_mutex); the helper thread   *)
(* created for cK is the process "hK".  Per crdp: cK.flags (RT 1, STOP 4,  *)
(* STOPPED 8, PAUSE 16, PAUSED 32), cK.futex, cK.qlen, the callback queue  *)
(* cK.tail / HcK.next (wfcqueue at its own linearisation granularity: tail *)
(* xchg + link store; splice = xchg of head.next, xchg of tail, append).   *)
(* rcu_head nodes "n1".. (n.next); completion objects of rcu_barrier()     *)
(* k<thread>.<op index> with .count / .futex / .ref, their per-helper work *)
(* items w.<completion>.<crdp>.  Globals: "dflt" (default_call_rcu_data),  *)
(* "pcpu" (per_cpu_call_rcu_data) and its slots pcpu0.. .                  *)
(* Plain data touched only under call_rcu_mutex or thread-privately        *)
(* (call_rcu_data_list, thread_call_rcu_data, cpus_array_len, the helper's *)
(* temporary queue cbs_tmp_head/tail, the caller's slots) are ordinary     *)
(* variables updated inside the adjacent step; the two plain reads made    *)
(* without the mutex (cpus_array_len in get_call_rcu_data, and             *)
(* default_call_rcu_data in _call_rcu_data_free) are their own steps.      *)
(*                                                                         *)
(* Grace period: abstract (DESIGN: AbstractRcu).  Read-side sections are   *)
(* ghost intervals (cs / rnest, also for the rcu_read_lock held inside     *)
(* call_rcu()); synchronize_rcu() is gp_b (snapshot of the open sections)  *)
(* followed by gp_e, a blocking step enabled once all of them have ended.  *)
(*                                                                         *)
(* Scenario programs (Prog[t], records [op, n, x, f, c]):                  *)
(*   call n        call_rcu(&n, F(n))   F(n) re-enqueues Re[n] if # "-"    *)
(*   rlock/runlock rcu_read_lock / rcu_read_unlock                         *)
(*   sync          synchronize_rcu()                                       *)
(*   getdef        get_default_call_rcu_data()                             *)
(*   create x f    slot[x] = create_call_rcu_data(f, -1)                   *)
(*   setthr x      set_thread_call_rcu_data(slot[x])      (x = "NULL")     *)
(*   setcpu c x    set_cpu_call_rcu_data(c, slot[x])                       *)
(*   cpu c         environment: the thread now runs on model CPU c         *)
(*   offline / online   rcu_thread_offline() / rcu_thread_online() (qsbr   *)
(*                 integration runs; no effect on the abstract flavor)     *)
(*   createall f   create_all_cpu_call_rcu_data(f)                         *)
(*   freeall       free_all_cpu_call_rcu_data()                            *)
(*   free x        call_rcu_data_free(slot[x])                             *)
(*   barrier       rcu_barrier()                                           *)
(*   pause/resume  call_rcu_before_fork() / call_rcu_after_fork_parent()   *)
(*   pub n         old = rcu_xchg_pointer(&gptr, n)   (n = "obj1", ...)     *)
(*   qfree         the object unpublished by this thread's last pub is      *)
(*                 reclaimed (C19 scenarios: pub; sync; qfree)              *)
(*                                                                         *)
(* C19 (signal handlers).  For every t in SigThreads the process "S:"t is  *)
(* a signal handler that may interrupt t between any two of its steps --   *)
(* inside call_rcu(), between the two steps of the wfcq enqueue, inside the *)
(* lazy creation of the default helper under call_rcu_mutex, ... -- at most *)
(* SigBudget times per execution; t takes no step while its handler runs   *)
(* (SigNext below).  The handler does rcu_read_lock(); p =                 *)
(* rcu_dereference(gptr); touch *p; rcu_read_unlock() on the abstract      *)
(* reader state (rnest / cs) of t, through t's store buffer.  SigRestores: *)
(* at sig_exit nesting and open section of t are those found at sig_enter. *)
(* The handler's section is an ordinary section of t for gp_b / gp_e, snap *)
(* (AfterGP) and NoUseAfterFree (a handler touching a reclaimed object).   *)
(* With SigThreads = {} there is no such process, no gptr location and the *)
(* state space is that of the module without signals.                      *)
(*                                                                         *)
(* Ghosts / properties: cnt (invocations per rcu_head), snap (sections     *)
(* open at call_rcu entry), fin (callback returned), bsnap (call_rcu()s    *)
(* that had returned when rcu_barrier was called), alive (crdp, completion *)
(* and work objects: allocated / freed), errs (set of violated clauses).   *)
(* Mut: model-level mutants (negative controls); {} for every claim.       *)
(***************************************************************************)
EXTENDS Naturals, Integers, Sequences, FiniteSets, TLC

CONSTANTS Threads,    \* set of scenario thread ids (strings)
          Prog,       \* [Threads -> Seq(op record)]
          TSO,        \* TRUE: stores are buffered (x86-TSO); FALSE: sequential consistency
          Tracing,    \* TRUE: maintain acc (last event) for trace validation / schedule generation
          SBMax,      \* capacity of a store buffer
          NHelp,      \* number of call_rcu_data structures / helper threads that can be created
          NCpu,       \* number of model CPUs (possible-CPU array length)
          Re,         \* [rcu_head node -> node its callback passes to call_rcu, or "-"]
          Spurious,   \* budget of spurious / EINTR returns of FUTEX_WAIT
          SigThreads, \* threads that the signal handler may interrupt (C19); {} otherwise
          SigBudget,  \* number of signal deliveries per execution
          Mut         \* model-level mutants (subset of {"nogp","gpfirst","nowake","nohandover","earlycount","nomutex","noref","norlock","nofasync",
                      \*  C19: "sigleak" the handler's nested rcu_read_unlock is lost, "nousync" the updater's synchronize_rcu() does nothing})

NULL == "NULL"
RT == 1  STOP == 4  STOPPED == 8  PAUSE == 16  PAUSED == 32
Has(v, b) == (v \div b) % 2 = 1
SetB(v, b) == IF Has(v, b) THEN v ELSE v + b
ClrB(v, b) == IF Has(v, b) THEN v - b ELSE v

CName(k) == "c" \o ToString(k)
HName(k) == "h" \o ToString(k)
Crdps == {CName(k) : k \in 1..NHelp}
Helpers == {HName(k) : k \in 1..NHelp}
CrOf == [h \in Helpers |-> CName(CHOOSE k \in 1..NHelp : HName(k) = h)]
HOf == [c \in Crdps |-> HName(CHOOSE k \in 1..NHelp : CName(k) = c)]
Procs == Threads \cup Helpers
CM == "call_rcu_mutex"

OpsOf(t) == {Prog[t][j] : j \in DOMAIN Prog[t]}
AllOps == UNION {OpsOf(t) : t \in Threads}
Nodes == {o.n : o \in {x \in AllOps : x.op = "call"}} \cup ({Re[n] : n \in DOMAIN Re} \ {"-"})
Slots == {o.x : o \in {x \in AllOps : x.op = "create"}}
KName(t, j) == "k" \o t \o "." \o ToString(j)
Comps == UNION {{KName(t, j) : j \in {i \in DOMAIN Prog[t] : Prog[t][i].op = "barrier"}} : t \in Threads}
WName(k, c) == "w." \o k \o "." \o c
Works == {WName(k, c) : k \in Comps, c \in Crdps}
WComp == [w \in Works |-> CHOOSE k \in Comps : \E c \in Crdps : WName(k, c) = w]

Hd(c) == "H" \o c
NextOf(n) == n \o ".next"
TailOf(c) == c \o ".tail"
FlagsOf(c) == c \o ".flags"
FutexOf(c) == c \o ".futex"
QlenOf(c) == c \o ".qlen"
CountOf(k) == k \o ".count"
RefOf(k) == k \o ".ref"
PSlot(i) == "pcpu" \o ToString(i)
CrLocs(c) == {NextOf(Hd(c)), TailOf(c), FlagsOf(c), FutexOf(c), QlenOf(c)}
KLocs(k) == {CountOf(k), FutexOf(k), RefOf(k)}
SigId(t) == "S:" \o t
SigIds == {SigId(t) : t \in SigThreads}
SigOf == [h \in SigIds |-> CHOOSE t \in SigThreads : SigId(t) = h]
GObjs == {"obj0", "obj1", "obj2"}                   \* objects published through gptr (C19 scenarios)
UsesGptr == SigThreads # {} \/ \E o \in AllOps : o.op \in {"pub", "qfree"}
GLocs == IF UsesGptr THEN {"gptr"} ELSE {}
PtrLocs == GLocs \cup {TailOf(c) : c \in Crdps} \cup {NextOf(Hd(c)) : c \in Crdps} \cup {NextOf(n) : n \in Nodes \cup Works}
          \cup {"dflt", "pcpu"} \cup {PSlot(i) : i \in 0..(NCpu - 1)}
IntLocs == UNION {{FlagsOf(c), FutexOf(c), QlenOf(c)} : c \in Crdps} \cup UNION {KLocs(k) : k \in Comps}
Locs == PtrLocs \cup IntLocs
Objs == Crdps \cup Comps \cup Works
\* object a location belongs to ("static" for globals and caller-owned rcu_heads)
ObjOf(l) == IF \E c \in Crdps : l \in CrLocs(c) THEN CHOOSE c \in Crdps : l \in CrLocs(c)
            ELSE IF \E k \in Comps : l \in KLocs(k) THEN CHOOSE k \in Comps : l \in KLocs(k)
            ELSE IF \E w \in Works : l = NextOf(w) THEN CHOOSE w \in Works : l = NextOf(w)
            ELSE "static"
LocObj == [l \in Locs |-> ObjOf(l)]

FlId(t) == "F:" \o t
Flushers == {FlId(t) : t \in Procs}
FlOf == [f \in Flushers |-> CHOOSE t \in Procs : FlId(t) = f]
NoOp == [op |-> "none", n |-> "-", x |-> "-", f |-> 0, c |-> 0]
Without(s, x) == SelectSeq(s, LAMBDA y : y # x)
NoSnap == [p \in Procs |-> 0]
HasCpuOps == \E o \in AllOps : o.op \in {"setcpu", "createall"}
FName(n) == IF n \in Works THEN "barrier_complete" ELSE IF Re[n] = "-" THEN "cb" ELSE "re"

(* --algorithm callrcu {
variables
  mem = [l \in Locs |-> IF l \in IntLocs THEN 0
                        ELSE IF l = "gptr" THEN "obj0"
                        ELSE IF \E c \in Crdps : l = TailOf(c) THEN Hd(CHOOSE c \in Crdps : l = TailOf(c))
                        ELSE NULL],
  sb = [t \in Procs |-> <<>>],
  lock = "free",                            \* call_rcu_mutex
  acc = [k |-> 0],
  fsleep = {},                              \* processes blocked in FUTEX_WAIT
  wloc = [t \in Procs |-> "-"],             \* ... and the futex word each of them sleeps on
  spur = Spurious,
  wkind = [t \in Procs |-> "WAKE"],         \* how the FUTEX_WAIT of t ends: "WAKE", or "SPURIOUS" / "EINTR" (environment)
  \* plain data (under call_rcu_mutex, thread-private, or environment)
  crlist = <<>>,                            \* call_rcu_data_list, newest first (cds_list_add)
  nhelp = 0,                                \* call_rcu_data structures created so far
  started = [h \in Helpers |-> FALSE],      \* pthread_create done
  cpulen = 0,                               \* cpus_array_len
  tcrd = [t \in Procs |-> NULL],            \* URCU_TLS(thread_call_rcu_data)
  mycpu = [t \in Procs |-> 0],              \* sched_getcpu() of the thread
  slot = [s \in Slots |-> NULL],            \* the scenario's call_rcu_data pointers
  func = [n \in Nodes \cup Works |-> "-"],  \* head->func
  \* abstract RCU
  rnest = [t \in Procs |-> 0],
  cs = [t \in Procs |-> 0],                 \* number of the open outermost section of t (0: none)
  ncs = [t \in Procs |-> 0],                \* sections begun so far by t
  \* ghosts of the properties
  cnt = [n \in Nodes |-> 0],                \* invocations of n's callback
  snap = [n \in Nodes |-> NoSnap],          \* sections open when call_rcu(n) was entered
  queued = {},                              \* nodes whose call_rcu() has returned
  fin = {},                                 \* nodes whose callback has returned
  bsnap = [t \in Threads |-> {}],           \* queued at the call of the rcu_barrier() in progress
  alive = [o \in Objs |-> "no"],            \* "no" (not allocated yet), "yes", "freed"
  uaf = FALSE,                              \* a location of a freed object was accessed
  errs = {},                                \* violated clauses
  \* per-process temporaries (procedures have no locals)
  pci = [t \in Threads |-> 1],
  opx = [t \in Threads |-> NoOp],
  iv = [t \in Procs |-> 0],                 \* integer loaded
  pa = [t \in Procs |-> NULL],              \* pointer loaded (emptiness tests)
  hd = [t \in Procs |-> NULL],              \* splice: head
  tl = [t \in Procs |-> NULL],              \* splice: tail
  old = [t \in Procs |-> NULL],             \* append: old tail
  cur = [t \in Procs |-> NULL],             \* helper iteration: current node
  nx = [t \in Procs |-> NULL],              \* helper iteration: next node
  cbc = [t \in Procs |-> 0],                \* cbcount
  isrt = [t \in Procs |-> FALSE],           \* helper: rt
  en = [t \in Procs |-> NULL],              \* _call_rcu: head
  ec = [t \in Procs |-> NULL],              \* _call_rcu: crdp
  wc = [t \in Procs |-> NULL],              \* wake_call_rcu_thread: crdp
  res = [t \in Procs |-> "-"],             \* result of the current API call
  gd = [t \in Procs |-> NULL],              \* get_default_call_rcu_data: result
  fc = [t \in Procs |-> NULL],              \* _call_rcu_data_free: crdp
  dc = [t \in Procs |-> NULL],              \* _call_rcu_data_free: default_call_rcu_data
  newc = [t \in Procs |-> NULL],            \* call_rcu_data_init: crdp
  cidef = [t \in Procs |-> FALSE],          \* call_rcu_data_init: crdpp == &default_call_rcu_data
  cifl = [t \in Procs |-> 0],               \* call_rcu_data_init: flags
  cn = [t \in Procs |-> NULL],              \* call_rcu: head
  bk = [t \in Procs |-> NULL],              \* rcu_barrier / _rcu_barrier_complete: completion
  regs = [t \in Procs |-> <<>>],            \* list traversal: call_rcu_data_list as seen under the mutex
  kk = [t \in Procs |-> 1],                 \* loop index
  sci = [t \in Procs |-> 0],                \* set_cpu_call_rcu_data: cpu
  ci = [t \in Procs |-> 0],                 \* create_all / free_all: cpu loop index
  cac = [t \in Procs |-> NULL],             \* create_all: crdp just created
  fa = [t \in Procs |-> [i \in 0..(NCpu - 1) |-> NULL]],   \* free_all: local crdp[] array
  gps = [t \in Procs |-> NoSnap],           \* synchronize_rcu: sections to wait for
  \* C19: signal handlers, objects published through gptr
  sigs = 0,                                 \* signals delivered so far
  insig = [t \in Threads |-> FALSE],        \* the thread is executing the signal handler
  oalive = [o \in GObjs |-> TRUE],          \* the object has not been reclaimed
  gold = [t \in Threads |-> NULL];          \* pub: the pointer this thread unpublished

define {
  LastIdx(t, loc) == LET S == {i \in DOMAIN sb[t] : sb[t][i][1] = loc} IN
                     IF S = {} THEN 0 ELSE CHOOSE i \in S : \A j \in S : j <= i
  Rd(t, loc) == IF LastIdx(t, loc) = 0 THEN mem[loc] ELSE sb[t][LastIdx(t, loc)][2]
  Drained(t) == sb[t] = <<>>
  Ev(t, op, var, a, b, r) == IF Tracing THEN [k |-> acc.k + 1, t |-> t, op |-> op, var |-> var, a |-> a, b |-> b, r |-> r] ELSE acc
  Dead(loc) == LocObj[loc] # "static" /\ alive[LocObj[loc]] = "freed"
  StillOpen(s) == \E p \in Procs : s[p] # 0 /\ cs[p] = s[p]
  Sleepers(loc) == {p \in fsleep : wloc[p] = loc}
}

macro Ld(dst, loc)    { dst := Rd(self, loc); uaf := uaf \/ Dead(loc); acc := Ev(self, "ld", loc, "-", "-", Rd(self, loc)); }
\* load whose value is only used by the test that follows in the same step (no temporary kept: dead afterwards)
macro Ldx(loc)        { uaf := uaf \/ Dead(loc); acc := Ev(self, "ld", loc, "-", "-", Rd(self, loc)); }
macro St(loc, v)      { if (TSO) { await Len(sb[self]) < SBMax; sb[self] := Append(sb[self], <<loc, v>>) } else { mem[loc] := v };
                        uaf := uaf \/ Dead(loc); acc := Ev(self, "st", loc, v, "-", "-"); }
\* plain store (no event): buffered like any store under TSO when model checking; the executed runtime commits a plain
\* store at once, after draining the thread's buffer
macro PlainSt(loc, v) { if (TSO /\ ~Tracing) { await Len(sb[self]) < SBMax; sb[self] := Append(sb[self], <<loc, v>>) }
                        else { await Drained(self); mem[loc] := v };
                        uaf := uaf \/ Dead(loc); }
macro Xchg(dst, loc, v) { await Drained(self); dst := mem[loc]; mem[loc] := v; uaf := uaf \/ Dead(loc); acc := Ev(self, "xchg", loc, v, "-", dst); }
\* locked read-modify-write; `new` is evaluated in the state before the step (acc is assigned first)
macro Rmw(opn, loc, a, new) { await Drained(self); acc := Ev(self, opn, loc, a, "-", new); uaf := uaf \/ Dead(loc); mem[loc] := new; }
macro Mb()            { await Drained(self); acc := Ev(self, "mb", "-", "-", "-", "-"); }
macro Lock()          { await Drained(self) /\ lock = "free"; lock := self; acc := Ev(self, "lock", CM, "-", "-", "-"); }
macro Unlock()        { await Drained(self); lock := "free"; acc := Ev(self, "unlock", CM, "-", "-", "-"); }
macro FWake(loc)      { await Drained(self); uaf := uaf \/ Dead(loc); acc := Ev(self, "fwake", loc, "-", "-", Cardinality(Sleepers(loc)));
                        fsleep := fsleep \ Sleepers(loc); }
macro Fail(what)      { errs := errs \cup {what} }

\* ------------------------------------------------------------------ synchronize_rcu(): abstract grace period
procedure synchronize_rcu() {
gp_b:   await Drained(self);
        gps[self] := [p \in Procs |-> IF p = self THEN 0 ELSE cs[p]];
        acc := Ev(self, "gp_begin", "-", "-", "-", "-");
gp_e:   await ~StillOpen(gps[self]);
        acc := Ev(self, "gp_end", "-", "-", "-", "-");
        return;
}

\* ------------------------------------------------------------------ wake_call_rcu_thread(wc) -> call_rcu_wake_up
procedure wake() {
wk_fl:  Ldx(FlagsOf(wc[self]));                         \* if (!(uatomic_load(&crdp->flags) & URCU_CALL_RCU_RT))
        if (Has(Rd(self, FlagsOf(wc[self])), RT) \/ "nowake" \in Mut) { return };
wk_mb:  Mb();                                                    \* cmm_smp_mb(): write to call_rcu list before reading/writing futex
wk_ld:  Ldx(FutexOf(wc[self]));                         \* if (uatomic_load(&crdp->futex) == -1)
        if (Rd(self, FutexOf(wc[self])) # -1) { return };
wk_st:  St(FutexOf(wc[self]), 0);                                \*   uatomic_store(&crdp->futex, 0)
wk_fw:  FWake(FutexOf(wc[self]));                                \*   futex_async(&crdp->futex, FUTEX_WAKE, 1, ...)
        return;
}

\* ------------------------------------------------------------------ _call_rcu(en, func, ec)
procedure enqueue() {
e_mb:   Mb();                                                    \* cds_wfcq_enqueue: cmm_emit_legacy_smp_mb()
e_xchg: Xchg(old[self], TailOf(ec[self]), en[self]);             \* old_tail = uatomic_xchg(&tail->p, new_tail)
e_link: St(NextOf(old[self]), en[self]);                         \* uatomic_store(&old_tail->next, new_head, RELEASE)
        old[self] := NULL;
e_qlen: Rmw("inc", QlenOf(ec[self]), 1, mem[QlenOf(ec[self])] + 1);   \* uatomic_inc(&crdp->qlen)
        wc[self] := ec[self];
        call wake();                                             \* wake_call_rcu_thread(crdp)
        return;
}

\* ------------------------------------------------------------------ call_rcu_data_init(crdpp, cifl, -1)  (call_rcu_mutex held)
procedure data_init() {
ci_new: await nhelp < NHelp;                                     \* (scenario bound)
        newc[self] := CName(nhelp + 1);                          \* malloc, memset, cds_wfcq_init, qlen = futex = 0, flags, cds_list_add
        nhelp := nhelp + 1;
        alive[newc[self]] := "yes";
        crlist := <<newc[self]>> \o crlist;
        PlainSt(FlagsOf(newc[self]), cifl[self]);
ci_pub: if (cidef[self]) { St("dflt", newc[self]) };             \* rcu_set_pointer(crdpp, crdp)
ci_spawn: await Drained(self) \/ Tracing;                        \* pthread_create(&crdp->tid, NULL, call_rcu_thread, crdp): a system call, the creator's
                                                                 \* stores are visible to the new thread (the VSCHED runtime does not drain at
                                                                 \* pthread_create: accepted when validating recorded executions, see c03.py)
        started[HOf[newc[self]]] := TRUE;
        acc := Ev(self, "spawn", HOf[newc[self]], "-", "-", "-");
        return;
}

\* ------------------------------------------------------------------ get_default_call_rcu_data() -> gd
procedure get_default() {
gd_ld:  Ld(gd[self], "dflt");                                    \* crdp = rcu_dereference(default_call_rcu_data)
        if (gd[self] # NULL) { return };
gd_lock: Lock();                                                 \* call_rcu_lock(&call_rcu_mutex)
        if (Rd(self, "dflt") = NULL) {                           \* if (default_call_rcu_data == NULL)
          cidef[self] := TRUE; cifl[self] := 0;
          call data_init();                                      \*   call_rcu_data_init(&default_call_rcu_data, 0, -1)
        };
gd_unl: gd[self] := Rd(self, "dflt");                            \* crdp = default_call_rcu_data
        Unlock();
        return;
}

\* ------------------------------------------------------------------ call_rcu(cn, F(cn))
procedure call_rcu() {
cr_lock: if ("norlock" \notin Mut) {                             \* _rcu_read_lock()
          if (rnest[self] = 0) { cs[self] := ncs[self] + 1; ncs[self] := ncs[self] + 1 };
          rnest[self] := rnest[self] + 1;
          acc := Ev(self, "rlock", "-", "-", "-", rnest[self]);
        };
        if (tcrd[self] # NULL) { ec[self] := tcrd[self]; goto cr_enq }   \* get_call_rcu_data(): thread_call_rcu_data
        else if (~HasCpuOps) { goto cr_def };                    \* (cpus_array_len is never written in this scenario)
cr_len: if (cpulen = 0) { goto cr_def };                         \* if (cpus_array_len > 0)          (plain read, no mutex)
cr_pc:  Ldx("pcpu");                                    \* pcpu_crdp = rcu_dereference(per_cpu_call_rcu_data)
        if (Rd(self, "pcpu") = NULL) { goto cr_def };
cr_pcs: Ldx(PSlot(mycpu[self]));                        \* rcu_dereference(pcpu_crdp[urcu_sched_getcpu()])
        if (Rd(self, PSlot(mycpu[self])) # NULL) { ec[self] := Rd(self, PSlot(mycpu[self])); goto cr_enq };
cr_def: call get_default();                                      \* get_default_call_rcu_data()
cr_got: ec[self] := gd[self]; en[self] := cn[self];
        func[cn[self]] := FName(cn[self]);
        call enqueue();
        goto cr_unl;
cr_enq: en[self] := cn[self];                                    \* cds_wfcq_node_init(&head->next); head->func = func
        func[cn[self]] := FName(cn[self]);
        call enqueue();
cr_unl: if ("norlock" \notin Mut) {                              \* _rcu_read_unlock()
          rnest[self] := rnest[self] - 1;
          if (rnest[self] = 0) { cs[self] := 0 };
          acc := Ev(self, "runlock", "-", "-", "-", rnest[self]);
        };
        return;
}

\* ------------------------------------------------------------------ set_cpu_call_rcu_data(opx.c, crdp = en)
procedure set_cpu() {   \* (cpu = sci, crdp = en)
sc_lock: Lock();                                                 \* call_rcu_lock(&call_rcu_mutex); alloc_cpu_call_rcu_data()
        if (cpulen # 0) { goto sc_chk };
sc_len: cpulen := NCpu;                                          \* cpus_array_len = get_possible_cpus_array_len(); p = malloc(); memset()
sc_arr: St("pcpu", "ARR");                                       \* rcu_set_pointer(&per_cpu_call_rcu_data, p)
sc_chk: if (Rd(self, PSlot(sci[self])) # NULL /\ en[self] # NULL) { res[self] := "EEXIST"; goto sc_unl };   \* per_cpu_call_rcu_data[cpu] != NULL && crdp != NULL
sc_st:  St(PSlot(sci[self]), en[self]);                        \* rcu_set_pointer(&per_cpu_call_rcu_data[cpu], crdp)
        res[self] := "0";
sc_unl: Unlock();
        return;
}

\* ------------------------------------------------------------------ _call_rcu_data_free(fc, CRDF_FLAG_JOIN_THREAD)
procedure data_free() {
f_chk:  if (fc[self] = NULL \/ fc[self] = Rd(self, "dflt")) { return };   \* crdp == NULL || crdp == default_call_rcu_data (plain read, no mutex)
f_ld:   Ldx(FlagsOf(fc[self]));                         \* if ((uatomic_load(&crdp->flags) & URCU_CALL_RCU_STOPPED) == 0)
        if (Has(Rd(self, FlagsOf(fc[self])), STOPPED)) { goto f_lock };
f_or:   Rmw("or", FlagsOf(fc[self]), STOP, SetB(mem[FlagsOf(fc[self])], STOP));   \* uatomic_or(&crdp->flags, URCU_CALL_RCU_STOP)
        wc[self] := fc[self];
        call wake();                                             \* wake_call_rcu_thread(crdp)
f_wait: Ldx(FlagsOf(fc[self]));                         \* while ((uatomic_load(&crdp->flags) & URCU_CALL_RCU_STOPPED) == 0) poll(NULL, 0, 1)
        if (~Has(Rd(self, FlagsOf(fc[self])), STOPPED)) { goto f_wait };
f_lock: Lock();                                                  \* call_rcu_lock(&call_rcu_mutex)
f_e1:   Ldx(NextOf(Hd(fc[self])));                      \* if (!cds_wfcq_empty(&crdp->cbs_head, &crdp->cbs_tail))
        if (Rd(self, NextOf(Hd(fc[self]))) # NULL) { if ("nohandover" \in Mut) { goto f_unl2 } else { goto f_unl1 } };
f_e2:   Ldx(TailOf(fc[self]));
        if (Rd(self, TailOf(fc[self])) = Hd(fc[self]) \/ "nohandover" \in Mut) { goto f_unl2 };
f_unl1: Unlock();                                                \* call_rcu_unlock(&call_rcu_mutex)
        call get_default();                                      \* (void) get_default_call_rcu_data()
f_lock2: Lock();                                                 \* call_rcu_lock(&call_rcu_mutex)
        dc[self] := Rd(self, "dflt");
fs_e1:  Ldx(NextOf(Hd(fc[self])));                      \* __cds_wfcq_splice_blocking(default, crdp): _cds_wfcq_empty(src)
        if (Rd(self, NextOf(Hd(fc[self]))) # NULL) { goto fs_xh };
fs_e2:  Ldx(TailOf(fc[self]));
        if (Rd(self, TailOf(fc[self])) = Hd(fc[self])) { goto f_ldq };
fs_xh:  Xchg(hd[self], NextOf(Hd(fc[self])), NULL);              \* head = uatomic_xchg(&src_q_head->node.next, NULL)
        if (hd[self] # NULL) { goto fs_mb };
fs_lt:  Ldx(TailOf(fc[self]));                          \* if (uatomic_load(&src_q_tail->p) == &src_q_head->node) return SRC_EMPTY
        if (Rd(self, TailOf(fc[self])) = Hd(fc[self])) { goto f_ldq } else { goto fs_xh };
fs_mb:  Mb();                                                    \* cmm_emit_legacy_smp_mb()
fs_xt:  Xchg(tl[self], TailOf(fc[self]), Hd(fc[self]));          \* tail = uatomic_xchg(&src_q_tail->p, &src_q_head->node)
fs_ax:  Xchg(old[self], TailOf(dc[self]), tl[self]);             \* ___cds_wfcq_append(dest, head, tail): xchg(&dest_tail->p, tail)
fs_al:  St(NextOf(old[self]), hd[self]);                         \*   uatomic_store(&old_tail->next, head, RELEASE)
        old[self] := NULL; hd[self] := NULL; tl[self] := NULL;
f_ldq:  Ld(iv[self], QlenOf(fc[self]));                          \* uatomic_add(&default->qlen, uatomic_load(&crdp->qlen))
f_add:  Rmw("add", QlenOf(dc[self]), iv[self], mem[QlenOf(dc[self])] + iv[self]);
        iv[self] := 0;
        wc[self] := dc[self];
        call wake();                                             \* wake_call_rcu_thread(default_call_rcu_data)
f_unl2: crlist := Without(crlist, fc[self]);                     \* cds_list_del(&crdp->list); call_rcu_unlock(&call_rcu_mutex)
        Unlock();
f_join: await pc[HOf[fc[self]]] = "Done";                        \* pthread_join(get_call_rcu_thread(crdp), NULL)
        acc := Ev(self, "join", HOf[fc[self]], "-", "-", "-");
f_free: if (alive[fc[self]] # "yes") { Fail("call_rcu_data freed twice") };   \* free(crdp)
        alive[fc[self]] := "freed";
        acc := Ev(self, "free", fc[self], "-", "-", "-");
        return;
}

\* ------------------------------------------------------------------ create_all_cpu_call_rcu_data(opx.f)
procedure create_all() {
ca_lock: Lock();                                                 \* call_rcu_lock(&call_rcu_mutex); alloc_cpu_call_rcu_data()
        if (cpulen # 0) { goto ca_unl };
ca_len: cpulen := NCpu;                                          \* cpus_array_len = get_possible_cpus_array_len(); p = malloc(); memset()
ca_arr: St("pcpu", "ARR");                                       \* rcu_set_pointer(&per_cpu_call_rcu_data, p)
ca_unl: Unlock();                                                \* call_rcu_unlock(&call_rcu_mutex)
        ci[self] := 0;                                           \* (cpus_array_len > 0, per_cpu_call_rcu_data != NULL: written under the mutex just released)
ca_top: if (ci[self] >= NCpu) { res[self] := "0"; return };      \* for (i = 0; i < cpus_array_len; i++)
ca_lk:  Lock();                                                  \*   call_rcu_lock(&call_rcu_mutex)
ca_g1:  Ldx("pcpu");                                             \*   get_cpu_call_rcu_data(i): pcpu_crdp = rcu_dereference(per_cpu_call_rcu_data)
ca_g2:  Ldx(PSlot(ci[self]));                                    \*     rcu_dereference(pcpu_crdp[i])
        if (Rd(self, PSlot(ci[self])) # NULL) { goto ca_skip }
        else {
          cidef[self] := FALSE; cifl[self] := opx[self].f;
          call data_init();                                      \*   crdp = __create_call_rcu_data(flags, i)
        };
ca_cu:  Unlock();                                                \*   call_rcu_unlock(&call_rcu_mutex)
        cac[self] := newc[self]; en[self] := newc[self]; sci[self] := ci[self];
        call set_cpu();                                          \*   ret = set_cpu_call_rcu_data(i, crdp)
ca_chk: if (res[self] = "EEXIST") {                              \*   if (ret) call_rcu_data_free(crdp)   ("it has been created by other thread")
          fc[self] := cac[self];
          call data_free();
        };
ca_nx:  ci[self] := ci[self] + 1; cac[self] := NULL;
        goto ca_top;
ca_skip: Unlock();                                               \*   call_rcu_unlock(&call_rcu_mutex); continue
        ci[self] := ci[self] + 1;
        goto ca_top;
}

\* ------------------------------------------------------------------ free_all_cpu_call_rcu_data()
procedure free_all() {
fa_len: if (cpulen = 0) { res[self] := "-"; return }              \* if (cpus_array_len <= 0) return     (plain read, no mutex); crdp = malloc()
        else { ci[self] := 0 };
fa_top: if (ci[self] >= NCpu) { goto fa_sync };                  \* for (cpu = 0; cpu < cpus_array_len; cpu++)
fa_g1:  Ldx("pcpu");                                             \*   crdp[cpu] = get_cpu_call_rcu_data(cpu): rcu_dereference(per_cpu_call_rcu_data)
        if (Rd(self, "pcpu") = NULL) { goto fa_nx };
fa_g2:  Ldx(PSlot(ci[self]));                                    \*     rcu_dereference(pcpu_crdp[cpu])
        fa[self][ci[self]] := Rd(self, PSlot(ci[self]));
        if (Rd(self, PSlot(ci[self])) = NULL) { goto fa_nx }     \*   if (crdp[cpu] == NULL) continue
        else {
          en[self] := NULL; sci[self] := ci[self];
          call set_cpu();                                        \*   set_cpu_call_rcu_data(cpu, NULL)
        };
fa_nx:  ci[self] := ci[self] + 1;
        goto fa_top;
fa_sync: if ("nofasync" \notin Mut) { call synchronize_rcu() };                               \* synchronize_rcu(): call_rcu sites acting as readers of the call_rcu_data
fa_f0:  ci[self] := 0;
fa_ftop: if (ci[self] >= NCpu) { res[self] := "-"; fa[self] := [i \in 0..(NCpu - 1) |-> NULL]; return };   \* for (cpu...) ; free(crdp)
fa_fchk: if (fa[self][ci[self]] = NULL) { goto fa_fnx }          \*   if (crdp[cpu] == NULL) continue
        else {
          fc[self] := fa[self][ci[self]];
          call data_free();                                      \*   call_rcu_data_free(crdp[cpu])
        };
fa_fnx: ci[self] := ci[self] + 1;
        goto fa_ftop;
}

\* ------------------------------------------------------------------ _rcu_barrier_complete(&work->head), work = cur, completion = bk
procedure barrier_complete() {
bc_sub: Rmw("addret", CountOf(bk[self]), -1, mem[CountOf(bk[self])] - 1);   \* if (!uatomic_sub_return(&completion->barrier_count, 1))
        if (mem[CountOf(bk[self])] # 0) { goto bc_put };
bc_mb:  Mb();                                                    \* call_rcu_completion_wake_up: cmm_smp_mb()
bc_ld:  Ldx(FutexOf(bk[self]));                         \* if (uatomic_load(&completion->futex) == -1)
        if (Rd(self, FutexOf(bk[self])) # -1) { goto bc_put };
bc_st:  St(FutexOf(bk[self]), 0);                                \*   uatomic_store(&completion->futex, 0)
bc_fw:  FWake(FutexOf(bk[self]));                                \*   futex_async(&completion->futex, FUTEX_WAKE, 1, ...)
bc_put: Rmw("addret", RefOf(bk[self]), -1, mem[RefOf(bk[self])] - 1);   \* urcu_ref_put(&completion->ref, free_completion)
        if (mem[RefOf(bk[self])] # 0 /\ "noref" \notin Mut) { goto bc_frw };
bc_frk: if (alive[bk[self]] # "yes") { Fail("completion freed twice") };   \* free_completion(): free(completion)
        alive[bk[self]] := "freed";
        acc := Ev(self, "free", bk[self], "-", "-", "-");
bc_frw: alive[cur[self]] := "freed";                             \* free(work)
        acc := Ev(self, "free", cur[self], "-", "-", "-");
        return;
}

\* ------------------------------------------------------------------ rcu_barrier()
procedure barrier() {
b_lock: if ("nomutex" \notin Mut) { Lock() };                    \* call_rcu_lock(&call_rcu_mutex)
        regs[self] := crlist;                                    \* cds_list_for_each_entry(crdp, &call_rcu_data_list, list) count++
        kk[self] := 1;
b_ref:  St(RefOf(bk[self]), Len(regs[self]) + 1);                \* urcu_ref_set(&completion->ref, count + 1)
b_cnt:  PlainSt(CountOf(bk[self]), IF "earlycount" \in Mut THEN 0 ELSE Len(regs[self]));   \* completion->barrier_count = count
b_loop: while (kk[self] <= Len(regs[self])) {                    \* cds_list_for_each_entry(crdp, &call_rcu_data_list, list)
          en[self] := WName(bk[self], regs[self][kk[self]]);     \*   work = calloc(); work->completion = completion
          ec[self] := regs[self][kk[self]];
          alive[WName(bk[self], regs[self][kk[self]])] := "yes";
          func[WName(bk[self], regs[self][kk[self]])] := "barrier_complete";
          kk[self] := kk[self] + 1;
          call enqueue();                                        \*   _call_rcu(&work->head, _rcu_barrier_complete, crdp)
        };
b_unl:  if ("nomutex" \notin Mut) { Unlock() };                  \* call_rcu_unlock(&call_rcu_mutex)
b_dec:  Rmw("dec", FutexOf(bk[self]), 1, mem[FutexOf(bk[self])] - 1);   \* for (;;) { uatomic_dec(&completion->futex)
b_mb:   Mb();                                                    \*   cmm_smp_mb(): decrement futex before reading barrier_count
b_ldc:  Ldx(CountOf(bk[self]));                         \*   if (!uatomic_load(&completion->barrier_count)) break
        if (Rd(self, CountOf(bk[self])) = 0) { goto b_put };
cw_mb:  Mb();                                                    \*   call_rcu_completion_wait(): cmm_smp_mb()
cw_ld:  Ldx(FutexOf(bk[self]));                         \*   while (uatomic_load(&completion->futex) == -1)
        if (Rd(self, FutexOf(bk[self])) # -1) { goto b_dec };
cw_fwait: await Drained(self);                                   \*     futex_async(&completion->futex, FUTEX_WAIT, -1, ...)
        uaf := uaf \/ Dead(FutexOf(bk[self]));
        if (mem[FutexOf(bk[self])] = -1) { fsleep := fsleep \cup {self}; wloc[self] := FutexOf(bk[self]);
                                           acc := Ev(self, "fwait", FutexOf(bk[self]), -1, "-", "SLEEP") }
        else { acc := Ev(self, "fwait", FutexOf(bk[self]), -1, "-", "EAGAIN"); goto b_dec };
cw_fwoke: await self \notin fsleep;                              \*     woken by FUTEX_WAKE, or spuriously / by a signal (process spurw)
        acc := Ev(self, "fwoke", FutexOf(bk[self]), "-", "-", wkind[self]);
        wkind[self] := "WAKE";
        goto cw_ld;
b_put:  Rmw("addret", RefOf(bk[self]), -1, mem[RefOf(bk[self])] - 1);   \* urcu_ref_put(&completion->ref, free_completion)
        if (mem[RefOf(bk[self])] # 0 /\ "noref" \notin Mut) { return };
b_free: if (alive[bk[self]] # "yes") { Fail("completion freed twice") };   \* free(completion)
        alive[bk[self]] := "freed";
        acc := Ev(self, "free", bk[self], "-", "-", "-");
        return;
}

\* ------------------------------------------------------------------ call_rcu_before_fork() / call_rcu_after_fork_parent()
procedure before_fork() {
bf_lock: Lock();                                                 \* call_rcu_lock(&call_rcu_mutex)
        regs[self] := crlist; kk[self] := 1;
bf_or:  while (kk[self] <= Len(regs[self])) {                    \* cds_list_for_each_entry: uatomic_or(&crdp->flags, URCU_CALL_RCU_PAUSE)
          Rmw("or", FlagsOf(regs[self][kk[self]]), PAUSE, SetB(mem[FlagsOf(regs[self][kk[self]])], PAUSE));
          wc[self] := regs[self][kk[self]];
          kk[self] := kk[self] + 1;
          call wake();                                           \*   wake_call_rcu_thread(crdp)
        };
bf_w0:  kk[self] := 1;
bf_wait: while (kk[self] <= Len(regs[self])) {                   \* while ((uatomic_load(&crdp->flags) & URCU_CALL_RCU_PAUSED) == 0) poll(NULL, 0, 1)
          Ldx(FlagsOf(regs[self][kk[self]]));
          if (Has(Rd(self, FlagsOf(regs[self][kk[self]])), PAUSED)) { kk[self] := kk[self] + 1 };
        };
        return;
}
procedure after_fork_parent() {
af_0:   regs[self] := crlist; kk[self] := 1;
af_and: while (kk[self] <= Len(regs[self])) {                    \* uatomic_and(&crdp->flags, ~URCU_CALL_RCU_PAUSE)
          Rmw("and", FlagsOf(regs[self][kk[self]]), "xffffffef", ClrB(mem[FlagsOf(regs[self][kk[self]])], PAUSE));
          kk[self] := kk[self] + 1;
        };
af_w0:  kk[self] := 1;
af_wait: while (kk[self] <= Len(regs[self])) {                   \* while ((uatomic_load(&crdp->flags) & URCU_CALL_RCU_PAUSED) != 0) poll(NULL, 0, 1)
          Ldx(FlagsOf(regs[self][kk[self]]));
          if (~Has(Rd(self, FlagsOf(regs[self][kk[self]])), PAUSED)) { kk[self] := kk[self] + 1 };
        };
af_unl: Unlock();                                                \* call_rcu_unlock(&call_rcu_mutex)
        return;
}

fair process (flusher \in Flushers) {
fl: while (TRUE) {
      await sb[FlOf[self]] # <<>>;
      mem[Head(sb[FlOf[self]])[1]] := Head(sb[FlOf[self]])[2] || sb[FlOf[self]] := Tail(sb[FlOf[self]])
      || acc := IF Tracing THEN [k |-> acc.k + 1, t |-> FlOf[self], op |-> "flush", var |-> Head(sb[FlOf[self]])[1],
                               a |-> Head(sb[FlOf[self]])[2], b |-> "-", r |-> "-"] ELSE acc;
    }
}

\* environment: FUTEX_WAIT returns 0 although nobody called FUTEX_WAKE, or fails with EINTR (budget Spurious)
process (spurw \in {"W:env"}) {
sw: while (TRUE) {
      await spur > 0;
      with (p \in fsleep) { with (k \in {"SPURIOUS", "EINTR"}) {
        fsleep := fsleep \ {p}; wkind[p] := k; spur := spur - 1 } };
    }
}

\* ------------------------------------------------------------------ C19: signal handler interrupting thread ST
\* rcu_read_lock(); p = rcu_dereference(gptr); touch *p; rcu_read_unlock() at ANY point of ST (between any two of its steps);
\* delivery and sigreturn go through the kernel: full barriers for ST.  The sig_enter / sig_exit events carry the nesting count
\* and rcu_read_ongoing() of ST (the executed code logs the values read from the flavor's reader word).
process (sig \in SigIds)
variables ST = SigOf[self], hheld = NULL, hent = <<0, 0>>;
{
sg_idle: while (TRUE) {
          await sigs < SigBudget /\ ~insig[ST] /\ pc[ST] \notin {"Done", "t_exit"} /\ ST \notin fsleep /\ Drained(ST);
          sigs := sigs + 1; insig[ST] := TRUE; hent := <<rnest[ST], cs[ST]>>;
          acc := Ev(ST, "sig_enter", "-", rnest[ST], "-", IF rnest[ST] > 0 THEN 1 ELSE 0);
sg_lock:  if (rnest[ST] = 0) { cs[ST] := ncs[ST] + 1; ncs[ST] := ncs[ST] + 1 };   \* rcu_read_lock()
          rnest[ST] := rnest[ST] + 1;
          acc := Ev(ST, "rlock", "-", "-", "-", rnest[ST]);
sg_deref: hheld := Rd(ST, "gptr");                               \* p = rcu_dereference(gptr)
          acc := Ev(ST, "ld", "gptr", "-", "-", Rd(ST, "gptr"));
sg_use:   if (~oalive[hheld]) { uaf := TRUE };                   \* touch *p
sg_unl:   if ("sigleak" \notin Mut \/ hent[1] = 0) { rnest[ST] := rnest[ST] - 1 };   \* rcu_read_unlock()
          if (rnest[ST] = 0) { cs[ST] := 0 };
          hheld := NULL;
          acc := Ev(ST, "runlock", "-", "-", "-", rnest[ST]);
sg_exit:  await Drained(ST);                                     \* sigreturn
          if (<<rnest[ST], cs[ST]>> # hent) { Fail("SigRestores") };
          insig[ST] := FALSE; hent := <<0, 0>>;
          acc := Ev(ST, "sig_exit", "-", rnest[ST], "-", IF rnest[ST] > 0 THEN 1 ELSE 0);
        }
}

\* ------------------------------------------------------------------ call_rcu_thread(crdp), crdp = CrOf[self]
fair process (helper \in Helpers) {
h_idle: await started[self];
h_flags: Ldx(FlagsOf(CrOf[self]));                               \* rt = !!(uatomic_load(&crdp->flags) & URCU_CALL_RCU_RT)
        isrt[self] := Has(Rd(self, FlagsOf(CrOf[self])), RT);   \* rcu_register_thread(); URCU_TLS(thread_call_rcu_data) = crdp
        tcrd[self] := CrOf[self];
        if (Has(Rd(self, FlagsOf(CrOf[self])), RT)) { goto h_top };
h_dec0: Rmw("dec", FutexOf(CrOf[self]), 1, mem[FutexOf(CrOf[self])] - 1);   \* uatomic_dec(&crdp->futex)
h_mb0:  Mb();                                                    \* cmm_smp_mb(): decrement futex before reading call_rcu list
h_top:  Ldx(FlagsOf(CrOf[self]));                       \* for (;;) { if (uatomic_load(&crdp->flags) & URCU_CALL_RCU_PAUSE)
        if (~Has(Rd(self, FlagsOf(CrOf[self])), PAUSE)) { goto s_e1 };
p_or:   Rmw("or", FlagsOf(CrOf[self]), PAUSED, SetB(mem[FlagsOf(CrOf[self])], PAUSED));   \* rcu_unregister_thread(); uatomic_or(&crdp->flags, URCU_CALL_RCU_PAUSED)
p_wait: Ldx(FlagsOf(CrOf[self]));                       \* while ((uatomic_load(&crdp->flags) & URCU_CALL_RCU_PAUSE) != 0) poll(NULL, 0, 1)
        if (Has(Rd(self, FlagsOf(CrOf[self])), PAUSE)) { goto p_wait };
p_and:  Rmw("and", FlagsOf(CrOf[self]), "xffffffdf", ClrB(mem[FlagsOf(CrOf[self])], PAUSED));   \* uatomic_and(&crdp->flags, ~URCU_CALL_RCU_PAUSED); rcu_register_thread()
s_e1:   Ldx(NextOf(Hd(CrOf[self])));                    \* __cds_wfcq_splice_blocking(&cbs_tmp, &crdp->cbs): _cds_wfcq_empty(src)
        if (Rd(self, NextOf(Hd(CrOf[self]))) # NULL) { if ("gpfirst" \in Mut) { goto m_gp } else { goto s_xh } };
s_e2:   Ldx(TailOf(CrOf[self]));
        if (Rd(self, TailOf(CrOf[self])) = Hd(CrOf[self])) { goto h_stop }
        else if ("gpfirst" \notin Mut) { goto s_xh };
m_gp:   call synchronize_rcu();                                  \* (mutant "gpfirst" only: grace period BEFORE the splice)
s_xh:   Xchg(hd[self], NextOf(Hd(CrOf[self])), NULL);            \* head = uatomic_xchg(&src_q_head->node.next, NULL)
        if (hd[self] # NULL) { goto s_mb };
s_lt:   Ldx(TailOf(CrOf[self]));                        \* if (uatomic_load(&src_q_tail->p) == &src_q_head->node) return SRC_EMPTY
        if (Rd(self, TailOf(CrOf[self])) = Hd(CrOf[self])) { goto h_stop } else { goto s_xh };
s_mb:   Mb();                                                    \* cmm_emit_legacy_smp_mb()
s_xt:   Xchg(tl[self], TailOf(CrOf[self]), Hd(CrOf[self]));      \* tail = uatomic_xchg(&src_q_tail->p, &src_q_head->node); append to the private cbs_tmp
        cur[self] := hd[self]; cbc[self] := 0;
        if ("nogp" \in Mut \/ "gpfirst" \in Mut) { goto it_ld };
h_gp:   call synchronize_rcu();                                  \* synchronize_rcu(); __cds_wfcq_for_each_blocking_safe(&cbs_tmp_head, &cbs_tmp_tail, cbs, cbs_tmp_n)
it_ld:  Ld(nx[self], NextOf(cur[self]));                         \* ___cds_wfcq_next(cbs): next = uatomic_load(&node->next); tail->p == node ? NULL : sync_next
        if (nx[self] = NULL /\ cur[self] # tl[self]) { goto it_ld } else { goto it_inv };
it_re:  cn[self] := Re[cur[self]];                               \* the callback passes another rcu_head to call_rcu()
        snap[Re[cur[self]]] := cs;
        acc := Ev(self, "call", Re[cur[self]], "call", "-", "-");
        call call_rcu();
it_rr:  queued := queued \cup {cn[self]};
        acc := Ev(self, "ret", "-", "-", "-", "-");
it_end: fin := fin \cup {cur[self]};                             \* the callback returns
        acc := Ev(self, "cbend", cur[self], "-", "-", "-");
        cbc[self] := cbc[self] + 1;                              \* cbcount++
        cur[self] := nx[self];
        if (nx[self] # NULL) { goto it_ld } else { goto h_sub };
it_inv: if (cur[self] \in Works) {                               \* rhp->func(rhp)
          if (func[cur[self]] # "barrier_complete") { Fail("RightArg") };
          bk[self] := WComp[cur[self]];
          call barrier_complete();
        } else {
          if (cnt[cur[self]] >= 1) { Fail("AtMostOnce") }
          else if (StillOpen(snap[cur[self]])) { Fail("AfterGP") }
          else if (func[cur[self]] # FName(cur[self])) { Fail("RightArg") };
          cnt[cur[self]] := cnt[cur[self]] + 1;
          acc := Ev(self, "cb", cur[self], func[cur[self]], "-", "-");
          if (Re[cur[self]] = "-") { goto it_end } else { goto it_re };
        };
it_nxt: cbc[self] := cbc[self] + 1;                              \* cbcount++
        cur[self] := nx[self];
        if (nx[self] # NULL) { goto it_ld };
h_sub:  Rmw("add", QlenOf(CrOf[self]), -cbc[self], mem[QlenOf(CrOf[self])] - cbc[self]);   \* uatomic_sub(&crdp->qlen, cbcount)
h_stop: Ldx(FlagsOf(CrOf[self]));                       \* if (uatomic_load(&crdp->flags) & URCU_CALL_RCU_STOP) break
        hd[self] := NULL; tl[self] := NULL; cur[self] := NULL; nx[self] := NULL; cbc[self] := 0;
        if (Has(Rd(self, FlagsOf(CrOf[self])), STOP)) { if (isrt[self]) { goto o_or } else { goto o_mb } }
        else if (isrt[self]) { goto h_top };                     \* rcu_thread_offline(); if (!rt) ... else poll(NULL, 0, 10); rcu_thread_online()
h_e1:   Ldx(NextOf(Hd(CrOf[self])));                    \* if (cds_wfcq_empty(&crdp->cbs_head, &crdp->cbs_tail))
        if (Rd(self, NextOf(Hd(CrOf[self]))) # NULL) { goto h_top };                     \* else poll(NULL, 0, 10)
h_e2:   Ldx(TailOf(CrOf[self]));
        if (Rd(self, TailOf(CrOf[self])) # Hd(CrOf[self])) { goto h_top };
w_mb:   Mb();                                                    \* call_rcu_wait(crdp): cmm_smp_mb(): read call_rcu list before read futex
w_ld:   Ldx(FutexOf(CrOf[self]));                       \* while (uatomic_load(&crdp->futex) == -1)
        if (Rd(self, FutexOf(CrOf[self])) # -1) { goto w_dec };
w_fwait: await Drained(self);                                    \*   futex_async(&crdp->futex, FUTEX_WAIT, -1, ...)
        uaf := uaf \/ Dead(FutexOf(CrOf[self]));
        if (mem[FutexOf(CrOf[self])] = -1) { fsleep := fsleep \cup {self}; wloc[self] := FutexOf(CrOf[self]);
                                             acc := Ev(self, "fwait", FutexOf(CrOf[self]), -1, "-", "SLEEP") }
        else { acc := Ev(self, "fwait", FutexOf(CrOf[self]), -1, "-", "EAGAIN"); goto w_dec };   \* EAGAIN: value already changed
w_fwoke: await self \notin fsleep;                               \*   woken by FUTEX_WAKE, or spuriously / by a signal (process spurw)
        acc := Ev(self, "fwoke", FutexOf(CrOf[self]), "-", "-", wkind[self]);
        wkind[self] := "WAKE";
        goto w_ld;                                               \* 0 / EINTR: check the value again
w_dec:  Rmw("dec", FutexOf(CrOf[self]), 1, mem[FutexOf(CrOf[self])] - 1);   \* (poll(NULL, 0, 10)) uatomic_dec(&crdp->futex)
w_mb2:  Mb();                                                    \* cmm_smp_mb(): decrement futex before reading call_rcu list
        goto h_top;
o_mb:   Mb();                                                    \* cmm_smp_mb(): read call_rcu list before write futex
o_st:   St(FutexOf(CrOf[self]), 0);                              \* uatomic_store(&crdp->futex, 0)
o_or:   Rmw("or", FlagsOf(CrOf[self]), STOPPED, SetB(mem[FlagsOf(CrOf[self])], STOPPED));   \* uatomic_or(&crdp->flags, URCU_CALL_RCU_STOPPED)
h_exit: await Drained(self);                                     \* rcu_unregister_thread(); return NULL
        acc := Ev(self, "exit", "-", "-", "-", "-");
}

\* ------------------------------------------------------------------ scenario threads
fair process (thr \in Threads) {
t_top:  while (pci[self] <= Len(Prog[self])) {
          opx[self] := Prog[self][pci[self]];
          if (opx[self].op = "rlock") {
            if (rnest[self] = 0) { cs[self] := ncs[self] + 1; ncs[self] := ncs[self] + 1 };
            rnest[self] := rnest[self] + 1; pci[self] := pci[self] + 1;
            acc := Ev(self, "rlock", "-", "-", "-", rnest[self]);
            goto t_top
          } else if (opx[self].op = "runlock") {
            rnest[self] := rnest[self] - 1; pci[self] := pci[self] + 1;
            if (rnest[self] = 0) { cs[self] := 0 };
            acc := Ev(self, "runlock", "-", "-", "-", rnest[self]);
            goto t_top
          } else if (opx[self].op = "cpu") {
            mycpu[self] := opx[self].c; pci[self] := pci[self] + 1;
            goto t_top
          } else if (opx[self].op \in {"offline", "online"}) {     \* qsbr: rcu_thread_offline() / rcu_thread_online(); nothing at this level
            pci[self] := pci[self] + 1;
            goto t_top
          } else {
            if (opx[self].op = "call") { cn[self] := opx[self].n; snap[opx[self].n] := cs }
            else if (opx[self].op = "barrier") {
              bk[self] := KName(self, pci[self]); alive[KName(self, pci[self])] := "yes"; bsnap[self] := queued }
            else if (opx[self].op = "free") { fc[self] := slot[opx[self].x] }
            else if (opx[self].op = "setcpu") { en[self] := IF opx[self].x = NULL THEN NULL ELSE slot[opx[self].x]; sci[self] := opx[self].c }
            else if (opx[self].op = "create") { cidef[self] := FALSE; cifl[self] := opx[self].f };
            res[self] := "-";
            acc := Ev(self, "call", IF opx[self].op = "call" THEN opx[self].n ELSE IF opx[self].op \in {"free", "setcpu", "setthr"} /\ opx[self].x # NULL THEN slot[opx[self].x] ELSE "-",
                      opx[self].op, "-", "-");
            if (opx[self].op = "call") { call call_rcu() }
            else if (opx[self].op = "sync") { if ("nousync" \in Mut) { goto t_ret } else { call synchronize_rcu() } }
            else if (opx[self].op = "getdef") { call get_default() }
            else if (opx[self].op = "create") { goto t_crl }
            else if (opx[self].op = "setthr") { tcrd[self] := IF opx[self].x = NULL THEN NULL ELSE slot[opx[self].x]; goto t_ret }
            else if (opx[self].op = "setcpu") { call set_cpu() }
            else if (opx[self].op = "createall") { call create_all() }
            else if (opx[self].op = "freeall") { call free_all() }
            else if (opx[self].op = "free") { call data_free() }
            else if (opx[self].op = "barrier") { call barrier() }
            else if (opx[self].op = "pause") { call before_fork() }
            else if (opx[self].op = "pub") { goto t_pub }
            else if (opx[self].op = "qfree") { oalive[gold[self]] := FALSE; gold[self] := NULL; goto t_ret }
            else { call after_fork_parent() };
          };
t_ret:    if (opx[self].op = "call") { queued := queued \cup {opx[self].n} }
          else if (opx[self].op = "barrier") {
            if (bsnap[self] \ fin # {}) { Fail("BarrierComplete") } };
          acc := Ev(self, "ret", "-", "-", "-", res[self]);
          pci[self] := pci[self] + 1;
          goto t_top;
t_pub:    Xchg(gold[self], "gptr", opx[self].n);                 \* old = rcu_xchg_pointer(&gptr, obj)
          res[self] := gold[self];
          goto t_ret;
t_crl:    Lock();                                                \* create_call_rcu_data(): call_rcu_lock(&call_rcu_mutex)
          call data_init();                                      \*   __create_call_rcu_data(flags, cpu_affinity)
t_cru:    slot[opx[self].x] := newc[self]; res[self] := newc[self];
          Unlock();                                              \*   call_rcu_unlock(&call_rcu_mutex)
          goto t_ret;
        };
t_exit: await Drained(self);
        acc := Ev(self, "exit", "-", "-", "-", "-");
}
} *)
\* BEGIN TRANSLATION
VARIABLES pc, mem, sb, lock, acc, fsleep, wloc, spur, wkind, crlist, nhelp, 
          started, cpulen, tcrd, mycpu, slot, func, rnest, cs, ncs, cnt, snap, 
          queued, fin, bsnap, alive, uaf, errs, pci, opx, iv, pa, hd, tl, old, 
          cur, nx, cbc, isrt, en, ec, wc, res, gd, fc, dc, newc, cidef, cifl, 
          cn, bk, regs, kk, sci, ci, cac, fa, gps, sigs, insig, oalive, gold, 
          stack

(* define statement *)
LastIdx(t, loc) == LET S == {i \in DOMAIN sb[t] : sb[t][i][1] = loc} IN
                   IF S = {} THEN 0 ELSE CHOOSE i \in S : \A j \in S : j <= i
Rd(t, loc) == IF LastIdx(t, loc) = 0 THEN mem[loc] ELSE sb[t][LastIdx(t, loc)][2]
Drained(t) == sb[t] = <<>>
Ev(t, op, var, a, b, r) == IF Tracing THEN [k |-> acc.k + 1, t |-> t, op |-> op, var |-> var, a |-> a, b |-> b, r |-> r] ELSE acc
Dead(loc) == LocObj[loc] # "static" /\ alive[LocObj[loc]] = "freed"
StillOpen(s) == \E p \in Procs : s[p] # 0 /\ cs[p] = s[p]
Sleepers(loc) == {p \in fsleep : wloc[p] = loc}

VARIABLES ST, hheld, hent

vars == << pc, mem, sb, lock, acc, fsleep, wloc, spur, wkind, crlist, nhelp, 
           started, cpulen, tcrd, mycpu, slot, func, rnest, cs, ncs, cnt, 
           snap, queued, fin, bsnap, alive, uaf, errs, pci, opx, iv, pa, hd, 
           tl, old, cur, nx, cbc, isrt, en, ec, wc, res, gd, fc, dc, newc, 
           cidef, cifl, cn, bk, regs, kk, sci, ci, cac, fa, gps, sigs, insig, 
           oalive, gold, stack, ST, hheld, hent >>

ProcSet == (Flushers) \cup ({"W:env"}) \cup (SigIds) \cup (Helpers) \cup (Threads)

Init == (* Global variables *)
        /\ mem = [l \in Locs |-> IF l \in IntLocs THEN 0
                                 ELSE IF l = "gptr" THEN "obj0"
                                 ELSE IF \E c \in Crdps : l = TailOf(c) THEN Hd(CHOOSE c \in Crdps : l = TailOf(c))
                                 ELSE NULL]
        /\ sb = [t \in Procs |-> <<>>]
        /\ lock = "free"
        /\ acc = [k |-> 0]
        /\ fsleep = {}
        /\ wloc = [t \in Procs |-> "-"]
        /\ spur = Spurious
        /\ wkind = [t \in Procs |-> "WAKE"]
        /\ crlist = <<>>
        /\ nhelp = 0
        /\ started = [h \in Helpers |-> FALSE]
        /\ cpulen = 0
        /\ tcrd = [t \in Procs |-> NULL]
        /\ mycpu = [t \in Procs |-> 0]
        /\ slot = [s \in Slots |-> NULL]
        /\ func = [n \in Nodes \cup Works |-> "-"]
        /\ rnest = [t \in Procs |-> 0]
        /\ cs = [t \in Procs |-> 0]
        /\ ncs = [t \in Procs |-> 0]
        /\ cnt = [n \in Nodes |-> 0]
        /\ snap = [n \in Nodes |-> NoSnap]
        /\ queued = {}
        /\ fin = {}
        /\ bsnap = [t \in Threads |-> {}]
        /\ alive = [o \in Objs |-> "no"]
        /\ uaf = FALSE
        /\ errs = {}
        /\ pci = [t \in Threads |-> 1]
        /\ opx = [t \in Threads |-> NoOp]
        /\ iv = [t \in Procs |-> 0]
        /\ pa = [t \in Procs |-> NULL]
        /\ hd = [t \in Procs |-> NULL]
        /\ tl = [t \in Procs |-> NULL]
        /\ old = [t \in Procs |-> NULL]
        /\ cur = [t \in Procs |-> NULL]
        /\ nx = [t \in Procs |-> NULL]
        /\ cbc = [t \in Procs |-> 0]
        /\ isrt = [t \in Procs |-> FALSE]
        /\ en = [t \in Procs |-> NULL]
        /\ ec = [t \in Procs |-> NULL]
        /\ wc = [t \in Procs |-> NULL]
        /\ res = [t \in Procs |-> "-"]
        /\ gd = [t \in Procs |-> NULL]
        /\ fc = [t \in Procs |-> NULL]
        /\ dc = [t \in Procs |-> NULL]
        /\ newc = [t \in Procs |-> NULL]
        /\ cidef = [t \in Procs |-> FALSE]
        /\ cifl = [t \in Procs |-> 0]
        /\ cn = [t \in Procs |-> NULL]
        /\ bk = [t \in Procs |-> NULL]
        /\ regs = [t \in Procs |-> <<>>]
        /\ kk = [t \in Procs |-> 1]
        /\ sci = [t \in Procs |-> 0]
        /\ ci = [t \in Procs |-> 0]
        /\ cac = [t \in Procs |-> NULL]
        /\ fa = [t \in Procs |-> [i \in 0..(NCpu - 1) |-> NULL]]
        /\ gps = [t \in Procs |-> NoSnap]
        /\ sigs = 0
        /\ insig = [t \in Threads |-> FALSE]
        /\ oalive = [o \in GObjs |-> TRUE]
        /\ gold = [t \in Threads |-> NULL]
        (* Process sig *)
        /\ ST = [self \in SigIds |-> SigOf[self]]
        /\ hheld = [self \in SigIds |-> NULL]
        /\ hent = [self \in SigIds |-> <<0, 0>>]
        /\ stack = [self \in ProcSet |-> << >>]
        /\ pc = [self \in ProcSet |-> CASE self \in Flushers -> "fl"
                                        [] self \in {"W:env"} -> "sw"
                                        [] self \in SigIds -> "sg_idle"
                                        [] self \in Helpers -> "h_idle"
                                        [] self \in Threads -> "t_top"]

gp_b(self) == /\ pc[self] = "gp_b"
              /\ Drained(self)
              /\ gps' = [gps EXCEPT ![self] = [p \in Procs |-> IF p = self THEN 0 ELSE cs[p]]]
              /\ acc' = Ev(self, "gp_begin", "-", "-", "-", "-")
              /\ pc' = [pc EXCEPT ![self] = "gp_e"]
              /\ UNCHANGED << mem, sb, lock, fsleep, wloc, spur, wkind, crlist, 
                              nhelp, started, cpulen, tcrd, mycpu, slot, func, 
                              rnest, cs, ncs, cnt, snap, queued, fin, bsnap, 
                              alive, uaf, errs, pci, opx, iv, pa, hd, tl, old, 
                              cur, nx, cbc, isrt, en, ec, wc, res, gd, fc, dc, 
                              newc, cidef, cifl, cn, bk, regs, kk, sci, ci, 
                              cac, fa, sigs, insig, oalive, gold, stack, ST, 
                              hheld, hent >>

gp_e(self) == /\ pc[self] = "gp_e"
              /\ ~StillOpen(gps[self])
              /\ acc' = Ev(self, "gp_end", "-", "-", "-", "-")
              /\ pc' = [pc EXCEPT ![self] = Head(stack[self]).pc]
              /\ stack' = [stack EXCEPT ![self] = Tail(stack[self])]
              /\ UNCHANGED << mem, sb, lock, fsleep, wloc, spur, wkind, crlist, 
                              nhelp, started, cpulen, tcrd, mycpu, slot, func, 
                              rnest, cs, ncs, cnt, snap, queued, fin, bsnap, 
                              alive, uaf, errs, pci, opx, iv, pa, hd, tl, old, 
                              cur, nx, cbc, isrt, en, ec, wc, res, gd, fc, dc, 
                              newc, cidef, cifl, cn, bk, regs, kk, sci, ci, 
                              cac, fa, gps, sigs, insig, oalive, gold, ST, 
                              hheld, hent >>

synchronize_rcu(self) == gp_b(self) \/ gp_e(self)

wk_fl(self) == /\ pc[self] = "wk_fl"
               /\ uaf' = (uaf \/ Dead((FlagsOf(wc[self]))))
               /\ acc' = Ev(self, "ld", (FlagsOf(wc[self])), "-", "-", Rd(self, (FlagsOf(wc[self]))))
               /\ IF Has(Rd(self, FlagsOf(wc[self])), RT) \/ "nowake" \in Mut
                     THEN /\ pc' = [pc EXCEPT ![self] = Head(stack[self]).pc]
                          /\ stack' = [stack EXCEPT ![self] = Tail(stack[self])]
                     ELSE /\ pc' = [pc EXCEPT ![self] = "wk_mb"]
                          /\ stack' = stack
               /\ UNCHANGED << mem, sb, lock, fsleep, wloc, spur, wkind, 
                               crlist, nhelp, started, cpulen, tcrd, mycpu, 
                               slot, func, rnest, cs, ncs, cnt, snap, queued, 
                               fin, bsnap, alive, errs, pci, opx, iv, pa, hd, 
                               tl, old, cur, nx, cbc, isrt, en, ec, wc, res, 
                               gd, fc, dc, newc, cidef, cifl, cn, bk, regs, kk, 
                               sci, ci, cac, fa, gps, sigs, insig, oalive, 
                               gold, ST, hheld, hent >>

wk_mb(self) == /\ pc[self] = "wk_mb"
               /\ Drained(self)
               /\ acc' = Ev(self, "mb", "-", "-", "-", "-")
               /\ pc' = [pc EXCEPT ![self] = "wk_ld"]
               /\ UNCHANGED << mem, sb, lock, fsleep, wloc, spur, wkind, 
                               crlist, nhelp, started, cpulen, tcrd, mycpu, 
                               slot, func, rnest, cs, ncs, cnt, snap, queued, 
                               fin, bsnap, alive, uaf, errs, pci, opx, iv, pa, 
                               hd, tl, old, cur, nx, cbc, isrt, en, ec, wc, 
                               res, gd, fc, dc, newc, cidef, cifl, cn, bk, 
                               regs, kk, sci, ci, cac, fa, gps, sigs, insig, 
                               oalive, gold, stack, ST, hheld, hent >>

wk_ld(self) == /\ pc[self] = "wk_ld"
               /\ uaf' = (uaf \/ Dead((FutexOf(wc[self]))))
               /\ acc' = Ev(self, "ld", (FutexOf(wc[self])), "-", "-", Rd(self, (FutexOf(wc[self]))))
               /\ IF Rd(self, FutexOf(wc[self])) # -1
                     THEN /\ pc' = [pc EXCEPT ![self] = Head(stack[self]).pc]
                          /\ stack' = [stack EXCEPT ![self] = Tail(stack[self])]
                     ELSE /\ pc' = [pc EXCEPT ![self] = "wk_st"]
                          /\ stack' = stack
               /\ UNCHANGED << mem, sb, lock, fsleep, wloc, spur, wkind, 
                               crlist, nhelp, started, cpulen, tcrd, mycpu, 
                               slot, func, rnest, cs, ncs, cnt, snap, queued, 
                               fin, bsnap, alive, errs, pci, opx, iv, pa, hd, 
                               tl, old, cur, nx, cbc, isrt, en, ec, wc, res, 
                               gd, fc, dc, newc, cidef, cifl, cn, bk, regs, kk, 
                               sci, ci, cac, fa, gps, sigs, insig, oalive, 
                               gold, ST, hheld, hent >>

wk_st(self) == /\ pc[self] = "wk_st"
               /\ IF TSO
                     THEN /\ Len(sb[self]) < SBMax
                          /\ sb' = [sb EXCEPT ![self] = Append(sb[self], <<(FutexOf(wc[self])), 0>>)]
                          /\ mem' = mem
                     ELSE /\ mem' = [mem EXCEPT ![(FutexOf(wc[self]))] = 0]
                          /\ sb' = sb
               /\ uaf' = (uaf \/ Dead((FutexOf(wc[self]))))
               /\ acc' = Ev(self, "st", (FutexOf(wc[self])), 0, "-", "-")
               /\ pc' = [pc EXCEPT ![self] = "wk_fw"]
               /\ UNCHANGED << lock, fsleep, wloc, spur, wkind, crlist, nhelp, 
                               started, cpulen, tcrd, mycpu, slot, func, rnest, 
                               cs, ncs, cnt, snap, queued, fin, bsnap, alive, 
                               errs, pci, opx, iv, pa, hd, tl, old, cur, nx, 
                               cbc, isrt, en, ec, wc, res, gd, fc, dc, newc, 
                               cidef, cifl, cn, bk, regs, kk, sci, ci, cac, fa, 
                               gps, sigs, insig, oalive, gold, stack, ST, 
                               hheld, hent >>

wk_fw(self) == /\ pc[self] = "wk_fw"
               /\ Drained(self)
               /\ uaf' = (uaf \/ Dead((FutexOf(wc[self]))))
               /\ acc' = Ev(self, "fwake", (FutexOf(wc[self])), "-", "-", Cardinality(Sleepers((FutexOf(wc[self])))))
               /\ fsleep' = fsleep \ Sleepers((FutexOf(wc[self])))
               /\ pc' = [pc EXCEPT ![self] = Head(stack[self]).pc]
               /\ stack' = [stack EXCEPT ![self] = Tail(stack[self])]
               /\ UNCHANGED << mem, sb, lock, wloc, spur, wkind, crlist, nhelp, 
                               started, cpulen, tcrd, mycpu, slot, func, rnest, 
                               cs, ncs, cnt, snap, queued, fin, bsnap, alive, 
                               errs, pci, opx, iv, pa, hd, tl, old, cur, nx, 
                               cbc, isrt, en, ec, wc, res, gd, fc, dc, newc, 
                               cidef, cifl, cn, bk, regs, kk, sci, ci, cac, fa, 
                               gps, sigs, insig, oalive, gold, ST, hheld, hent >>

wake(self) == wk_fl(self) \/ wk_mb(self) \/ wk_ld(self) \/ wk_st(self)
                 \/ wk_fw(self)

e_mb(self) == /\ pc[self] = "e_mb"
              /\ Drained(self)
              /\ acc' = Ev(self, "mb", "-", "-", "-", "-")
              /\ pc' = [pc EXCEPT ![self] = "e_xchg"]
              /\ UNCHANGED << mem, sb, lock, fsleep, wloc, spur, wkind, crlist, 
                              nhelp, started, cpulen, tcrd, mycpu, slot, func, 
                              rnest, cs, ncs, cnt, snap, queued, fin, bsnap, 
                              alive, uaf, errs, pci, opx, iv, pa, hd, tl, old, 
                              cur, nx, cbc, isrt, en, ec, wc, res, gd, fc, dc, 
                              newc, cidef, cifl, cn, bk, regs, kk, sci, ci, 
                              cac, fa, gps, sigs, insig, oalive, gold, stack, 
                              ST, hheld, hent >>

e_xchg(self) == /\ pc[self] = "e_xchg"
                /\ Drained(self)
                /\ old' = [old EXCEPT ![self] = mem[(TailOf(ec[self]))]]
                /\ mem' = [mem EXCEPT ![(TailOf(ec[self]))] = en[self]]
                /\ uaf' = (uaf \/ Dead((TailOf(ec[self]))))
                /\ acc' = Ev(self, "xchg", (TailOf(ec[self])), (en[self]), "-", (old'[self]))
                /\ pc' = [pc EXCEPT ![self] = "e_link"]
                /\ UNCHANGED << sb, lock, fsleep, wloc, spur, wkind, crlist, 
                                nhelp, started, cpulen, tcrd, mycpu, slot, 
                                func, rnest, cs, ncs, cnt, snap, queued, fin, 
                                bsnap, alive, errs, pci, opx, iv, pa, hd, tl, 
                                cur, nx, cbc, isrt, en, ec, wc, res, gd, fc, 
                                dc, newc, cidef, cifl, cn, bk, regs, kk, sci, 
                                ci, cac, fa, gps, sigs, insig, oalive, gold, 
                                stack, ST, hheld, hent >>

e_link(self) == /\ pc[self] = "e_link"
                /\ IF TSO
                      THEN /\ Len(sb[self]) < SBMax
                           /\ sb' = [sb EXCEPT ![self] = Append(sb[self], <<(NextOf(old[self])), (en[self])>>)]
                           /\ mem' = mem
                      ELSE /\ mem' = [mem EXCEPT ![(NextOf(old[self]))] = en[self]]
                           /\ sb' = sb
                /\ uaf' = (uaf \/ Dead((NextOf(old[self]))))
                /\ acc' = Ev(self, "st", (NextOf(old[self])), (en[self]), "-", "-")
                /\ old' = [old EXCEPT ![self] = NULL]
                /\ pc' = [pc EXCEPT ![self] = "e_qlen"]
                /\ UNCHANGED << lock, fsleep, wloc, spur, wkind, crlist, nhelp, 
                                started, cpulen, tcrd, mycpu, slot, func, 
                                rnest, cs, ncs, cnt, snap, queued, fin, bsnap, 
                                alive, errs, pci, opx, iv, pa, hd, tl, cur, nx, 
                                cbc, isrt, en, ec, wc, res, gd, fc, dc, newc, 
                                cidef, cifl, cn, bk, regs, kk, sci, ci, cac, 
                                fa, gps, sigs, insig, oalive, gold, stack, ST, 
                                hheld, hent >>

e_qlen(self) == /\ pc[self] = "e_qlen"
                /\ Drained(self)
                /\ acc' = Ev(self, "inc", (QlenOf(ec[self])), 1, "-", (mem[QlenOf(ec[self])] + 1))
                /\ uaf' = (uaf \/ Dead((QlenOf(ec[self]))))
                /\ mem' = [mem EXCEPT ![(QlenOf(ec[self]))] = mem[QlenOf(ec[self])] + 1]
                /\ wc' = [wc EXCEPT ![self] = ec[self]]
                /\ stack' = [stack EXCEPT ![self] = << [ procedure |->  "wake",
                                                         pc        |->  Head(stack[self]).pc ] >>
                                                     \o Tail(stack[self])]
                /\ pc' = [pc EXCEPT ![self] = "wk_fl"]
                /\ UNCHANGED << sb, lock, fsleep, wloc, spur, wkind, crlist, 
                                nhelp, started, cpulen, tcrd, mycpu, slot, 
                                func, rnest, cs, ncs, cnt, snap, queued, fin, 
                                bsnap, alive, errs, pci, opx, iv, pa, hd, tl, 
                                old, cur, nx, cbc, isrt, en, ec, res, gd, fc, 
                                dc, newc, cidef, cifl, cn, bk, regs, kk, sci, 
                                ci, cac, fa, gps, sigs, insig, oalive, gold, 
                                ST, hheld, hent >>

enqueue(self) == e_mb(self) \/ e_xchg(self) \/ e_link(self) \/ e_qlen(self)

ci_new(self) == /\ pc[self] = "ci_new"
                /\ nhelp < NHelp
                /\ newc' = [newc EXCEPT ![self] = CName(nhelp + 1)]
                /\ nhelp' = nhelp + 1
                /\ alive' = [alive EXCEPT ![newc'[self]] = "yes"]
                /\ crlist' = <<newc'[self]>> \o crlist
                /\ IF TSO /\ ~Tracing
                      THEN /\ Len(sb[self]) < SBMax
                           /\ sb' = [sb EXCEPT ![self] = Append(sb[self], <<(FlagsOf(newc'[self])), (cifl[self])>>)]
                           /\ mem' = mem
                      ELSE /\ Drained(self)
                           /\ mem' = [mem EXCEPT ![(FlagsOf(newc'[self]))] = cifl[self]]
                           /\ sb' = sb
                /\ uaf' = (uaf \/ Dead((FlagsOf(newc'[self]))))
                /\ pc' = [pc EXCEPT ![self] = "ci_pub"]
                /\ UNCHANGED << lock, acc, fsleep, wloc, spur, wkind, started, 
                                cpulen, tcrd, mycpu, slot, func, rnest, cs, 
                                ncs, cnt, snap, queued, fin, bsnap, errs, pci, 
                                opx, iv, pa, hd, tl, old, cur, nx, cbc, isrt, 
                                en, ec, wc, res, gd, fc, dc, cidef, cifl, cn, 
                                bk, regs, kk, sci, ci, cac, fa, gps, sigs, 
                                insig, oalive, gold, stack, ST, hheld, hent >>

ci_pub(self) == /\ pc[self] = "ci_pub"
                /\ IF cidef[self]
                      THEN /\ IF TSO
                                 THEN /\ Len(sb[self]) < SBMax
                                      /\ sb' = [sb EXCEPT ![self] = Append(sb[self], <<"dflt", (newc[self])>>)]
                                      /\ mem' = mem
                                 ELSE /\ mem' = [mem EXCEPT !["dflt"] = newc[self]]
                                      /\ sb' = sb
                           /\ uaf' = (uaf \/ Dead("dflt"))
                           /\ acc' = Ev(self, "st", "dflt", (newc[self]), "-", "-")
                      ELSE /\ TRUE
                           /\ UNCHANGED << mem, sb, acc, uaf >>
                /\ pc' = [pc EXCEPT ![self] = "ci_spawn"]
                /\ UNCHANGED << lock, fsleep, wloc, spur, wkind, crlist, nhelp, 
                                started, cpulen, tcrd, mycpu, slot, func, 
                                rnest, cs, ncs, cnt, snap, queued, fin, bsnap, 
                                alive, errs, pci, opx, iv, pa, hd, tl, old, 
                                cur, nx, cbc, isrt, en, ec, wc, res, gd, fc, 
                                dc, newc, cidef, cifl, cn, bk, regs, kk, sci, 
                                ci, cac, fa, gps, sigs, insig, oalive, gold, 
                                stack, ST, hheld, hent >>

ci_spawn(self) == /\ pc[self] = "ci_spawn"
                  /\ Drained(self) \/ Tracing
                  /\ started' = [started EXCEPT ![HOf[newc[self]]] = TRUE]
                  /\ acc' = Ev(self, "spawn", HOf[newc[self]], "-", "-", "-")
                  /\ pc' = [pc EXCEPT ![self] = Head(stack[self]).pc]
                  /\ stack' = [stack EXCEPT ![self] = Tail(stack[self])]
                  /\ UNCHANGED << mem, sb, lock, fsleep, wloc, spur, wkind, 
                                  crlist, nhelp, cpulen, tcrd, mycpu, slot, 
                                  func, rnest, cs, ncs, cnt, snap, queued, fin, 
                                  bsnap, alive, uaf, errs, pci, opx, iv, pa, 
                                  hd, tl, old, cur, nx, cbc, isrt, en, ec, wc, 
                                  res, gd, fc, dc, newc, cidef, cifl, cn, bk, 
                                  regs, kk, sci, ci, cac, fa, gps, sigs, insig, 
                                  oalive, gold, ST, hheld, hent >>

data_init(self) == ci_new(self) \/ ci_pub(self) \/ ci_spawn(self)

gd_ld(self) == /\ pc[self] = "gd_ld"
               /\ gd' = [gd EXCEPT ![self] = Rd(self, "dflt")]
               /\ uaf' = (uaf \/ Dead("dflt"))
               /\ acc' = Ev(self, "ld", "dflt", "-", "-", Rd(self, "dflt"))
               /\ IF gd'[self] # NULL
                     THEN /\ pc' = [pc EXCEPT ![self] = Head(stack[self]).pc]
                          /\ stack' = [stack EXCEPT ![self] = Tail(stack[self])]
                     ELSE /\ pc' = [pc EXCEPT ![self] = "gd_lock"]
                          /\ stack' = stack
               /\ UNCHANGED << mem, sb, lock, fsleep, wloc, spur, wkind, 
                               crlist, nhelp, started, cpulen, tcrd, mycpu, 
                               slot, func, rnest, cs, ncs, cnt, snap, queued, 
                               fin, bsnap, alive, errs, pci, opx, iv, pa, hd, 
                               tl, old, cur, nx, cbc, isrt, en, ec, wc, res, 
                               fc, dc, newc, cidef, cifl, cn, bk, regs, kk, 
                               sci, ci, cac, fa, gps, sigs, insig, oalive, 
                               gold, ST, hheld, hent >>

gd_lock(self) == /\ pc[self] = "gd_lock"
                 /\ Drained(self) /\ lock = "free"
                 /\ lock' = self
                 /\ acc' = Ev(self, "lock", CM, "-", "-", "-")
                 /\ IF Rd(self, "dflt") = NULL
                       THEN /\ cidef' = [cidef EXCEPT ![self] = TRUE]
                            /\ cifl' = [cifl EXCEPT ![self] = 0]
                            /\ stack' = [stack EXCEPT ![self] = << [ procedure |->  "data_init",
                                                                     pc        |->  "gd_unl" ] >>
                                                                 \o stack[self]]
                            /\ pc' = [pc EXCEPT ![self] = "ci_new"]
                       ELSE /\ pc' = [pc EXCEPT ![self] = "gd_unl"]
                            /\ UNCHANGED << cidef, cifl, stack >>
                 /\ UNCHANGED << mem, sb, fsleep, wloc, spur, wkind, crlist, 
                                 nhelp, started, cpulen, tcrd, mycpu, slot, 
                                 func, rnest, cs, ncs, cnt, snap, queued, fin, 
                                 bsnap, alive, uaf, errs, pci, opx, iv, pa, hd, 
                                 tl, old, cur, nx, cbc, isrt, en, ec, wc, res, 
                                 gd, fc, dc, newc, cn, bk, regs, kk, sci, ci, 
                                 cac, fa, gps, sigs, insig, oalive, gold, ST, 
                                 hheld, hent >>

gd_unl(self) == /\ pc[self] = "gd_unl"
                /\ gd' = [gd EXCEPT ![self] = Rd(self, "dflt")]
                /\ Drained(self)
                /\ lock' = "free"
                /\ acc' = Ev(self, "unlock", CM, "-", "-", "-")
                /\ pc' = [pc EXCEPT ![self] = Head(stack[self]).pc]
                /\ stack' = [stack EXCEPT ![self] = Tail(stack[self])]
                /\ UNCHANGED << mem, sb, fsleep, wloc, spur, wkind, crlist, 
                                nhelp, started, cpulen, tcrd, mycpu, slot, 
                                func, rnest, cs, ncs, cnt, snap, queued, fin, 
                                bsnap, alive, uaf, errs, pci, opx, iv, pa, hd, 
                                tl, old, cur, nx, cbc, isrt, en, ec, wc, res, 
                                fc, dc, newc, cidef, cifl, cn, bk, regs, kk, 
                                sci, ci, cac, fa, gps, sigs, insig, oalive, 
                                gold, ST, hheld, hent >>

get_default(self) == gd_ld(self) \/ gd_lock(self) \/ gd_unl(self)

cr_lock(self) == /\ pc[self] = "cr_lock"
                 /\ IF "norlock" \notin Mut
                       THEN /\ IF rnest[self] = 0
                                  THEN /\ cs' = [cs EXCEPT ![self] = ncs[self] + 1]
                                       /\ ncs' = [ncs EXCEPT ![self] = ncs[self] + 1]
                                  ELSE /\ TRUE
                                       /\ UNCHANGED << cs, ncs >>
                            /\ rnest' = [rnest EXCEPT ![self] = rnest[self] + 1]
                            /\ acc' = Ev(self, "rlock", "-", "-", "-", rnest'[self])
                       ELSE /\ TRUE
                            /\ UNCHANGED << acc, rnest, cs, ncs >>
                 /\ IF tcrd[self] # NULL
                       THEN /\ ec' = [ec EXCEPT ![self] = tcrd[self]]
                            /\ pc' = [pc EXCEPT ![self] = "cr_enq"]
                       ELSE /\ IF ~HasCpuOps
                                  THEN /\ pc' = [pc EXCEPT ![self] = "cr_def"]
                                  ELSE /\ pc' = [pc EXCEPT ![self] = "cr_len"]
                            /\ ec' = ec
                 /\ UNCHANGED << mem, sb, lock, fsleep, wloc, spur, wkind, 
                                 crlist, nhelp, started, cpulen, tcrd, mycpu, 
                                 slot, func, cnt, snap, queued, fin, bsnap, 
                                 alive, uaf, errs, pci, opx, iv, pa, hd, tl, 
                                 old, cur, nx, cbc, isrt, en, wc, res, gd, fc, 
                                 dc, newc, cidef, cifl, cn, bk, regs, kk, sci, 
                                 ci, cac, fa, gps, sigs, insig, oalive, gold, 
                                 stack, ST, hheld, hent >>

cr_len(self) == /\ pc[self] = "cr_len"
                /\ IF cpulen = 0
                      THEN /\ pc' = [pc EXCEPT ![self] = "cr_def"]
                      ELSE /\ pc' = [pc EXCEPT ![self] = "cr_pc"]
                /\ UNCHANGED << mem, sb, lock, acc, fsleep, wloc, spur, wkind, 
                                crlist, nhelp, started, cpulen, tcrd, mycpu, 
                                slot, func, rnest, cs, ncs, cnt, snap, queued, 
                                fin, bsnap, alive, uaf, errs, pci, opx, iv, pa, 
                                hd, tl, old, cur, nx, cbc, isrt, en, ec, wc, 
                                res, gd, fc, dc, newc, cidef, cifl, cn, bk, 
                                regs, kk, sci, ci, cac, fa, gps, sigs, insig, 
                                oalive, gold, stack, ST, hheld, hent >>

cr_pc(self) == /\ pc[self] = "cr_pc"
               /\ uaf' = (uaf \/ Dead("pcpu"))
               /\ acc' = Ev(self, "ld", "pcpu", "-", "-", Rd(self, "pcpu"))
               /\ IF Rd(self, "pcpu") = NULL
                     THEN /\ pc' = [pc EXCEPT ![self] = "cr_def"]
                     ELSE /\ pc' = [pc EXCEPT ![self] = "cr_pcs"]
               /\ UNCHANGED << mem, sb, lock, fsleep, wloc, spur, wkind, 
                               crlist, nhelp, started, cpulen, tcrd, mycpu, 
                               slot, func, rnest, cs, ncs, cnt, snap, queued, 
                               fin, bsnap, alive, errs, pci, opx, iv, pa, hd, 
                               tl, old, cur, nx, cbc, isrt, en, ec, wc, res, 
                               gd, fc, dc, newc, cidef, cifl, cn, bk, regs, kk, 
                               sci, ci, cac, fa, gps, sigs, insig, oalive, 
                               gold, stack, ST, hheld, hent >>

cr_pcs(self) == /\ pc[self] = "cr_pcs"
                /\ uaf' = (uaf \/ Dead((PSlot(mycpu[self]))))
                /\ acc' = Ev(self, "ld", (PSlot(mycpu[self])), "-", "-", Rd(self, (PSlot(mycpu[self]))))
                /\ IF Rd(self, PSlot(mycpu[self])) # NULL
                      THEN /\ ec' = [ec EXCEPT ![self] = Rd(self, PSlot(mycpu[self]))]
                           /\ pc' = [pc EXCEPT ![self] = "cr_enq"]
                      ELSE /\ pc' = [pc EXCEPT ![self] = "cr_def"]
                           /\ ec' = ec
                /\ UNCHANGED << mem, sb, lock, fsleep, wloc, spur, wkind, 
                                crlist, nhelp, started, cpulen, tcrd, mycpu, 
                                slot, func, rnest, cs, ncs, cnt, snap, queued, 
                                fin, bsnap, alive, errs, pci, opx, iv, pa, hd, 
                                tl, old, cur, nx, cbc, isrt, en, wc, res, gd, 
                                fc, dc, newc, cidef, cifl, cn, bk, regs, kk, 
                                sci, ci, cac, fa, gps, sigs, insig, oalive, 
                                gold, stack, ST, hheld, hent >>

cr_def(self) == /\ pc[self] = "cr_def"
                /\ stack' = [stack EXCEPT ![self] = << [ procedure |->  "get_default",
                                                         pc        |->  "cr_got" ] >>
                                                     \o stack[self]]
                /\ pc' = [pc EXCEPT ![self] = "gd_ld"]
                /\ UNCHANGED << mem, sb, lock, acc, fsleep, wloc, spur, wkind, 
                                crlist, nhelp, started, cpulen, tcrd, mycpu, 
                                slot, func, rnest, cs, ncs, cnt, snap, queued, 
                                fin, bsnap, alive, uaf, errs, pci, opx, iv, pa, 
                                hd, tl, old, cur, nx, cbc, isrt, en, ec, wc, 
                                res, gd, fc, dc, newc, cidef, cifl, cn, bk, 
                                regs, kk, sci, ci, cac, fa, gps, sigs, insig, 
                                oalive, gold, ST, hheld, hent >>

cr_got(self) == /\ pc[self] = "cr_got"
                /\ ec' = [ec EXCEPT ![self] = gd[self]]
                /\ en' = [en EXCEPT ![self] = cn[self]]
                /\ func' = [func EXCEPT ![cn[self]] = FName(cn[self])]
                /\ stack' = [stack EXCEPT ![self] = << [ procedure |->  "enqueue",
                                                         pc        |->  "cr_unl" ] >>
                                                     \o stack[self]]
                /\ pc' = [pc EXCEPT ![self] = "e_mb"]
                /\ UNCHANGED << mem, sb, lock, acc, fsleep, wloc, spur, wkind, 
                                crlist, nhelp, started, cpulen, tcrd, mycpu, 
                                slot, rnest, cs, ncs, cnt, snap, queued, fin, 
                                bsnap, alive, uaf, errs, pci, opx, iv, pa, hd, 
                                tl, old, cur, nx, cbc, isrt, wc, res, gd, fc, 
                                dc, newc, cidef, cifl, cn, bk, regs, kk, sci, 
                                ci, cac, fa, gps, sigs, insig, oalive, gold, 
                                ST, hheld, hent >>

cr_enq(self) == /\ pc[self] = "cr_enq"
                /\ en' = [en EXCEPT ![self] = cn[self]]
                /\ func' = [func EXCEPT ![cn[self]] = FName(cn[self])]
                /\ stack' = [stack EXCEPT ![self] = << [ procedure |->  "enqueue",
                                                         pc        |->  "cr_unl" ] >>
                                                     \o stack[self]]
                /\ pc' = [pc EXCEPT ![self] = "e_mb"]
                /\ UNCHANGED << mem, sb, lock, acc, fsleep, wloc, spur, wkind, 
                                crlist, nhelp, started, cpulen, tcrd, mycpu, 
                                slot, rnest, cs, ncs, cnt, snap, queued, fin, 
                                bsnap, alive, uaf, errs, pci, opx, iv, pa, hd, 
                                tl, old, cur, nx, cbc, isrt, ec, wc, res, gd, 
                                fc, dc, newc, cidef, cifl, cn, bk, regs, kk, 
                                sci, ci, cac, fa, gps, sigs, insig, oalive, 
                                gold, ST, hheld, hent >>

cr_unl(self) == /\ pc[self] = "cr_unl"
                /\ IF "norlock" \notin Mut
                      THEN /\ rnest' = [rnest EXCEPT ![self] = rnest[self] - 1]
                           /\ IF rnest'[self] = 0
                                 THEN /\ cs' = [cs EXCEPT ![self] = 0]
                                 ELSE /\ TRUE
                                      /\ cs' = cs
                           /\ acc' = Ev(self, "runlock", "-", "-", "-", rnest'[self])
                      ELSE /\ TRUE
                           /\ UNCHANGED << acc, rnest, cs >>
                /\ pc' = [pc EXCEPT ![self] = Head(stack[self]).pc]
                /\ stack' = [stack EXCEPT ![self] = Tail(stack[self])]
                /\ UNCHANGED << mem, sb, lock, fsleep, wloc, spur, wkind, 
                                crlist, nhelp, started, cpulen, tcrd, mycpu, 
                                slot, func, ncs, cnt, snap, queued, fin, bsnap, 
                                alive, uaf, errs, pci, opx, iv, pa, hd, tl, 
                                old, cur, nx, cbc, isrt, en, ec, wc, res, gd, 
                                fc, dc, newc, cidef, cifl, cn, bk, regs, kk, 
                                sci, ci, cac, fa, gps, sigs, insig, oalive, 
                                gold, ST, hheld, hent >>

call_rcu(self) == cr_lock(self) \/ cr_len(self) \/ cr_pc(self)
                     \/ cr_pcs(self) \/ cr_def(self) \/ cr_got(self)
                     \/ cr_enq(self) \/ cr_unl(self)

sc_lock(self) == /\ pc[self] = "sc_lock"
                 /\ Drained(self) /\ lock = "free"
                 /\ lock' = self
                 /\ acc' = Ev(self, "lock", CM, "-", "-", "-")
                 /\ IF cpulen # 0
                       THEN /\ pc' = [pc EXCEPT ![self] = "sc_chk"]
                       ELSE /\ pc' = [pc EXCEPT ![self] = "sc_len"]
                 /\ UNCHANGED << mem, sb, fsleep, wloc, spur, wkind, crlist, 
                                 nhelp, started, cpulen, tcrd, mycpu, slot, 
                                 func, rnest, cs, ncs, cnt, snap, queued, fin, 
                                 bsnap, alive, uaf, errs, pci, opx, iv, pa, hd, 
                                 tl, old, cur, nx, cbc, isrt, en, ec, wc, res, 
                                 gd, fc, dc, newc, cidef, cifl, cn, bk, regs, 
                                 kk, sci, ci, cac, fa, gps, sigs, insig, 
                                 oalive, gold, stack, ST, hheld, hent >>

sc_len(self) == /\ pc[self] = "sc_len"
                /\ cpulen' = NCpu
                /\ pc' = [pc EXCEPT ![self] = "sc_arr"]
                /\ UNCHANGED << mem, sb, lock, acc, fsleep, wloc, spur, wkind, 
                                crlist, nhelp, started, tcrd, mycpu, slot, 
                                func, rnest, cs, ncs, cnt, snap, queued, fin, 
                                bsnap, alive, uaf, errs, pci, opx, iv, pa, hd, 
                                tl, old, cur, nx, cbc, isrt, en, ec, wc, res, 
                                gd, fc, dc, newc, cidef, cifl, cn, bk, regs, 
                                kk, sci, ci, cac, fa, gps, sigs, insig, oalive, 
                                gold, stack, ST, hheld, hent >>

sc_arr(self) == /\ pc[self] = "sc_arr"
                /\ IF TSO
                      THEN /\ Len(sb[self]) < SBMax
                           /\ sb' = [sb EXCEPT ![self] = Append(sb[self], <<"pcpu", "ARR">>)]
                           /\ mem' = mem
                      ELSE /\ mem' = [mem EXCEPT !["pcpu"] = "ARR"]
                           /\ sb' = sb
                /\ uaf' = (uaf \/ Dead("pcpu"))
                /\ acc' = Ev(self, "st", "pcpu", "ARR", "-", "-")
                /\ pc' = [pc EXCEPT ![self] = "sc_chk"]
                /\ UNCHANGED << lock, fsleep, wloc, spur, wkind, crlist, nhelp, 
                                started, cpulen, tcrd, mycpu, slot, func, 
                                rnest, cs, ncs, cnt, snap, queued, fin, bsnap, 
                                alive, errs, pci, opx, iv, pa, hd, tl, old, 
                                cur, nx, cbc, isrt, en, ec, wc, res, gd, fc, 
                                dc, newc, cidef, cifl, cn, bk, regs, kk, sci, 
                                ci, cac, fa, gps, sigs, insig, oalive, gold, 
                                stack, ST, hheld, hent >>

sc_chk(self) == /\ pc[self] = "sc_chk"
                /\ IF Rd(self, PSlot(sci[self])) # NULL /\ en[self] # NULL
                      THEN /\ res' = [res EXCEPT ![self] = "EEXIST"]
                           /\ pc' = [pc EXCEPT ![self] = "sc_unl"]
                      ELSE /\ pc' = [pc EXCEPT ![self] = "sc_st"]
                           /\ res' = res
                /\ UNCHANGED << mem, sb, lock, acc, fsleep, wloc, spur, wkind, 
                                crlist, nhelp, started, cpulen, tcrd, mycpu, 
                                slot, func, rnest, cs, ncs, cnt, snap, queued, 
                                fin, bsnap, alive, uaf, errs, pci, opx, iv, pa, 
                                hd, tl, old, cur, nx, cbc, isrt, en, ec, wc, 
                                gd, fc, dc, newc, cidef, cifl, cn, bk, regs, 
                                kk, sci, ci, cac, fa, gps, sigs, insig, oalive, 
                                gold, stack, ST, hheld, hent >>

sc_st(self) == /\ pc[self] = "sc_st"
               /\ IF TSO
                     THEN /\ Len(sb[self]) < SBMax
                          /\ sb' = [sb EXCEPT ![self] = Append(sb[self], <<(PSlot(sci[self])), (en[self])>>)]
                          /\ mem' = mem
                     ELSE /\ mem' = [mem EXCEPT ![(PSlot(sci[self]))] = en[self]]
                          /\ sb' = sb
               /\ uaf' = (uaf \/ Dead((PSlot(sci[self]))))
               /\ acc' = Ev(self, "st", (PSlot(sci[self])), (en[self]), "-", "-")
               /\ res' = [res EXCEPT ![self] = "0"]
               /\ pc' = [pc EXCEPT ![self] = "sc_unl"]
               /\ UNCHANGED << lock, fsleep, wloc, spur, wkind, crlist, nhelp, 
                               started, cpulen, tcrd, mycpu, slot, func, rnest, 
                               cs, ncs, cnt, snap, queued, fin, bsnap, alive, 
                               errs, pci, opx, iv, pa, hd, tl, old, cur, nx, 
                               cbc, isrt, en, ec, wc, gd, fc, dc, newc, cidef, 
                               cifl, cn, bk, regs, kk, sci, ci, cac, fa, gps, 
                               sigs, insig, oalive, gold, stack, ST, hheld, 
                               hent >>

sc_unl(self) == /\ pc[self] = "sc_unl"
                /\ Drained(self)
                /\ lock' = "free"
                /\ acc' = Ev(self, "unlock", CM, "-", "-", "-")
                /\ pc' = [pc EXCEPT ![self] = Head(stack[self]).pc]
                /\ stack' = [stack EXCEPT ![self] = Tail(stack[self])]
                /\ UNCHANGED << mem, sb, fsleep, wloc, spur, wkind, crlist, 
                                nhelp, started, cpulen, tcrd, mycpu, slot, 
                                func, rnest, cs, ncs, cnt, snap, queued, fin, 
                                bsnap, alive, uaf, errs, pci, opx, iv, pa, hd, 
                                tl, old, cur, nx, cbc, isrt, en, ec, wc, res, 
                                gd, fc, dc, newc, cidef, cifl, cn, bk, regs, 
                                kk, sci, ci, cac, fa, gps, sigs, insig, oalive, 
                                gold, ST, hheld, hent >>

set_cpu(self) == sc_lock(self) \/ sc_len(self) \/ sc_arr(self)
                    \/ sc_chk(self) \/ sc_st(self) \/ sc_unl(self)

f_chk(self) == /\ pc[self] = "f_chk"
               /\ IF fc[self] = NULL \/ fc[self] = Rd(self, "dflt")
                     THEN /\ pc' = [pc EXCEPT ![self] = Head(stack[self]).pc]
                          /\ stack' = [stack EXCEPT ![self] = Tail(stack[self])]
                     ELSE /\ pc' = [pc EXCEPT ![self] = "f_ld"]
                          /\ stack' = stack
               /\ UNCHANGED << mem, sb, lock, acc, fsleep, wloc, spur, wkind, 
                               crlist, nhelp, started, cpulen, tcrd, mycpu, 
                               slot, func, rnest, cs, ncs, cnt, snap, queued, 
                               fin, bsnap, alive, uaf, errs, pci, opx, iv, pa, 
                               hd, tl, old, cur, nx, cbc, isrt, en, ec, wc, 
                               res, gd, fc, dc, newc, cidef, cifl, cn, bk, 
                               regs, kk, sci, ci, cac, fa, gps, sigs, insig, 
                               oalive, gold, ST, hheld, hent >>

f_ld(self) == /\ pc[self] = "f_ld"
              /\ uaf' = (uaf \/ Dead((FlagsOf(fc[self]))))
              /\ acc' = Ev(self, "ld", (FlagsOf(fc[self])), "-", "-", Rd(self, (FlagsOf(fc[self]))))
              /\ IF Has(Rd(self, FlagsOf(fc[self])), STOPPED)
                    THEN /\ pc' = [pc EXCEPT ![self] = "f_lock"]
                    ELSE /\ pc' = [pc EXCEPT ![self] = "f_or"]
              /\ UNCHANGED << mem, sb, lock, fsleep, wloc, spur, wkind, crlist, 
                              nhelp, started, cpulen, tcrd, mycpu, slot, func, 
                              rnest, cs, ncs, cnt, snap, queued, fin, bsnap, 
                              alive, errs, pci, opx, iv, pa, hd, tl, old, cur, 
                              nx, cbc, isrt, en, ec, wc, res, gd, fc, dc, newc, 
                              cidef, cifl, cn, bk, regs, kk, sci, ci, cac, fa, 
                              gps, sigs, insig, oalive, gold, stack, ST, hheld, 
                              hent >>

f_or(self) == /\ pc[self] = "f_or"
              /\ Drained(self)
              /\ acc' = Ev(self, "or", (FlagsOf(fc[self])), STOP, "-", (SetB(mem[FlagsOf(fc[self])], STOP)))
              /\ uaf' = (uaf \/ Dead((FlagsOf(fc[self]))))
              /\ mem' = [mem EXCEPT ![(FlagsOf(fc[self]))] = SetB(mem[FlagsOf(fc[self])], STOP)]
              /\ wc' = [wc EXCEPT ![self] = fc[self]]
              /\ stack' = [stack EXCEPT ![self] = << [ procedure |->  "wake",
                                                       pc        |->  "f_wait" ] >>
                                                   \o stack[self]]
              /\ pc' = [pc EXCEPT ![self] = "wk_fl"]
              /\ UNCHANGED << sb, lock, fsleep, wloc, spur, wkind, crlist, 
                              nhelp, started, cpulen, tcrd, mycpu, slot, func, 
                              rnest, cs, ncs, cnt, snap, queued, fin, bsnap, 
                              alive, errs, pci, opx, iv, pa, hd, tl, old, cur, 
                              nx, cbc, isrt, en, ec, res, gd, fc, dc, newc, 
                              cidef, cifl, cn, bk, regs, kk, sci, ci, cac, fa, 
                              gps, sigs, insig, oalive, gold, ST, hheld, hent >>

f_wait(self) == /\ pc[self] = "f_wait"
                /\ uaf' = (uaf \/ Dead((FlagsOf(fc[self]))))
                /\ acc' = Ev(self, "ld", (FlagsOf(fc[self])), "-", "-", Rd(self, (FlagsOf(fc[self]))))
                /\ IF ~Has(Rd(self, FlagsOf(fc[self])), STOPPED)
                      THEN /\ pc' = [pc EXCEPT ![self] = "f_wait"]
                      ELSE /\ pc' = [pc EXCEPT ![self] = "f_lock"]
                /\ UNCHANGED << mem, sb, lock, fsleep, wloc, spur, wkind, 
                                crlist, nhelp, started, cpulen, tcrd, mycpu, 
                                slot, func, rnest, cs, ncs, cnt, snap, queued, 
                                fin, bsnap, alive, errs, pci, opx, iv, pa, hd, 
                                tl, old, cur, nx, cbc, isrt, en, ec, wc, res, 
                                gd, fc, dc, newc, cidef, cifl, cn, bk, regs, 
                                kk, sci, ci, cac, fa, gps, sigs, insig, oalive, 
                                gold, stack, ST, hheld, hent >>

f_lock(self) == /\ pc[self] = "f_lock"
                /\ Drained(self) /\ lock = "free"
                /\ lock' = self
                /\ acc' = Ev(self, "lock", CM, "-", "-", "-")
                /\ pc' = [pc EXCEPT ![self] = "f_e1"]
                /\ UNCHANGED << mem, sb, fsleep, wloc, spur, wkind, crlist, 
                                nhelp, started, cpulen, tcrd, mycpu, slot, 
                                func, rnest, cs, ncs, cnt, snap, queued, fin, 
                                bsnap, alive, uaf, errs, pci, opx, iv, pa, hd, 
                                tl, old, cur, nx, cbc, isrt, en, ec, wc, res, 
                                gd, fc, dc, newc, cidef, cifl, cn, bk, regs, 
                                kk, sci, ci, cac, fa, gps, sigs, insig, oalive, 
                                gold, stack, ST, hheld, hent >>

f_e1(self) == /\ pc[self] = "f_e1"
              /\ uaf' = (uaf \/ Dead((NextOf(Hd(fc[self])))))
              /\ acc' = Ev(self, "ld", (NextOf(Hd(fc[self]))), "-", "-", Rd(self, (NextOf(Hd(fc[self])))))
              /\ IF Rd(self, NextOf(Hd(fc[self]))) # NULL
                    THEN /\ IF "nohandover" \in Mut
                               THEN /\ pc' = [pc EXCEPT ![self] = "f_unl2"]
                               ELSE /\ pc' = [pc EXCEPT ![self] = "f_unl1"]
                    ELSE /\ pc' = [pc EXCEPT ![self] = "f_e2"]
              /\ UNCHANGED << mem, sb, lock, fsleep, wloc, spur, wkind, crlist, 
                              nhelp, started, cpulen, tcrd, mycpu, slot, func, 
                              rnest, cs, ncs, cnt, snap, queued, fin, bsnap, 
                              alive, errs, pci, opx, iv, pa, hd, tl, old, cur, 
                              nx, cbc, isrt, en, ec, wc, res, gd, fc, dc, newc, 
                              cidef, cifl, cn, bk, regs, kk, sci, ci, cac, fa, 
                              gps, sigs, insig, oalive, gold, stack, ST, hheld, 
                              hent >>

f_e2(self) == /\ pc[self] = "f_e2"
              /\ uaf' = (uaf \/ Dead((TailOf(fc[self]))))
              /\ acc' = Ev(self, "ld", (TailOf(fc[self])), "-", "-", Rd(self, (TailOf(fc[self]))))
              /\ IF Rd(self, TailOf(fc[self])) = Hd(fc[self]) \/ "nohandover" \in Mut
                    THEN /\ pc' = [pc EXCEPT ![self] = "f_unl2"]
                    ELSE /\ pc' = [pc EXCEPT ![self] = "f_unl1"]
              /\ UNCHANGED << mem, sb, lock, fsleep, wloc, spur, wkind, crlist, 
                              nhelp, started, cpulen, tcrd, mycpu, slot, func, 
                              rnest, cs, ncs, cnt, snap, queued, fin, bsnap, 
                              alive, errs, pci, opx, iv, pa, hd, tl, old, cur, 
                              nx, cbc, isrt, en, ec, wc, res, gd, fc, dc, newc, 
                              cidef, cifl, cn, bk, regs, kk, sci, ci, cac, fa, 
                              gps, sigs, insig, oalive, gold, stack, ST, hheld, 
                              hent >>

f_unl1(self) == /\ pc[self] = "f_unl1"
                /\ Drained(self)
                /\ lock' = "free"
                /\ acc' = Ev(self, "unlock", CM, "-", "-", "-")
                /\ stack' = [stack EXCEPT ![self] = << [ procedure |->  "get_default",
                                                         pc        |->  "f_lock2" ] >>
                                                     \o stack[self]]
                /\ pc' = [pc EXCEPT ![self] = "gd_ld"]
                /\ UNCHANGED << mem, sb, fsleep, wloc, spur, wkind, crlist, 
                                nhelp, started, cpulen, tcrd, mycpu, slot, 
                                func, rnest, cs, ncs, cnt, snap, queued, fin, 
                                bsnap, alive, uaf, errs, pci, opx, iv, pa, hd, 
                                tl, old, cur, nx, cbc, isrt, en, ec, wc, res, 
                                gd, fc, dc, newc, cidef, cifl, cn, bk, regs, 
                                kk, sci, ci, cac, fa, gps, sigs, insig, oalive, 
                                gold, ST, hheld, hent >>

f_lock2(self) == /\ pc[self] = "f_lock2"
                 /\ Drained(self) /\ lock = "free"
                 /\ lock' = self
                 /\ acc' = Ev(self, "lock", CM, "-", "-", "-")
                 /\ dc' = [dc EXCEPT ![self] = Rd(self, "dflt")]
                 /\ pc' = [pc EXCEPT ![self] = "fs_e1"]
                 /\ UNCHANGED << mem, sb, fsleep, wloc, spur, wkind, crlist, 
                                 nhelp, started, cpulen, tcrd, mycpu, slot, 
                                 func, rnest, cs, ncs, cnt, snap, queued, fin, 
                                 bsnap, alive, uaf, errs, pci, opx, iv, pa, hd, 
                                 tl, old, cur, nx, cbc, isrt, en, ec, wc, res, 
                                 gd, fc, newc, cidef, cifl, cn, bk, regs, kk, 
                                 sci, ci, cac, fa, gps, sigs, insig, oalive, 
                                 gold, stack, ST, hheld, hent >>

fs_e1(self) == /\ pc[self] = "fs_e1"
               /\ uaf' = (uaf \/ Dead((NextOf(Hd(fc[self])))))
               /\ acc' = Ev(self, "ld", (NextOf(Hd(fc[self]))), "-", "-", Rd(self, (NextOf(Hd(fc[self])))))
               /\ IF Rd(self, NextOf(Hd(fc[self]))) # NULL
                     THEN /\ pc' = [pc EXCEPT ![self] = "fs_xh"]
                     ELSE /\ pc' = [pc EXCEPT ![self] = "fs_e2"]
               /\ UNCHANGED << mem, sb, lock, fsleep, wloc, spur, wkind, 
                               crlist, nhelp, started, cpulen, tcrd, mycpu, 
                               slot, func, rnest, cs, ncs, cnt, snap, queued, 
                               fin, bsnap, alive, errs, pci, opx, iv, pa, hd, 
                               tl, old, cur, nx, cbc, isrt, en, ec, wc, res, 
                               gd, fc, dc, newc, cidef, cifl, cn, bk, regs, kk, 
                               sci, ci, cac, fa, gps, sigs, insig, oalive, 
                               gold, stack, ST, hheld, hent >>

fs_e2(self) == /\ pc[self] = "fs_e2"
               /\ uaf' = (uaf \/ Dead((TailOf(fc[self]))))
               /\ acc' = Ev(self, "ld", (TailOf(fc[self])), "-", "-", Rd(self, (TailOf(fc[self]))))
               /\ IF Rd(self, TailOf(fc[self])) = Hd(fc[self])
                     THEN /\ pc' = [pc EXCEPT ![self] = "f_ldq"]
                     ELSE /\ pc' = [pc EXCEPT ![self] = "fs_xh"]
               /\ UNCHANGED << mem, sb, lock, fsleep, wloc, spur, wkind, 
                               crlist, nhelp, started, cpulen, tcrd, mycpu, 
                               slot, func, rnest, cs, ncs, cnt, snap, queued, 
                               fin, bsnap, alive, errs, pci, opx, iv, pa, hd, 
                               tl, old, cur, nx, cbc, isrt, en, ec, wc, res, 
                               gd, fc, dc, newc, cidef, cifl, cn, bk, regs, kk, 
                               sci, ci, cac, fa, gps, sigs, insig, oalive, 
                               gold, stack, ST, hheld, hent >>

fs_xh(self) == /\ pc[self] = "fs_xh"
               /\ Drained(self)
               /\ hd' = [hd EXCEPT ![self] = mem[(NextOf(Hd(fc[self])))]]
               /\ mem' = [mem EXCEPT ![(NextOf(Hd(fc[self])))] = NULL]
               /\ uaf' = (uaf \/ Dead((NextOf(Hd(fc[self])))))
               /\ acc' = Ev(self, "xchg", (NextOf(Hd(fc[self]))), NULL, "-", (hd'[self]))
               /\ IF hd'[self] # NULL
                     THEN /\ pc' = [pc EXCEPT ![self] = "fs_mb"]
                     ELSE /\ pc' = [pc EXCEPT ![self] = "fs_lt"]
               /\ UNCHANGED << sb, lock, fsleep, wloc, spur, wkind, crlist, 
                               nhelp, started, cpulen, tcrd, mycpu, slot, func, 
                               rnest, cs, ncs, cnt, snap, queued, fin, bsnap, 
                               alive, errs, pci, opx, iv, pa, tl, old, cur, nx, 
                               cbc, isrt, en, ec, wc, res, gd, fc, dc, newc, 
                               cidef, cifl, cn, bk, regs, kk, sci, ci, cac, fa, 
                               gps, sigs, insig, oalive, gold, stack, ST, 
                               hheld, hent >>

fs_lt(self) == /\ pc[self] = "fs_lt"
               /\ uaf' = (uaf \/ Dead((TailOf(fc[self]))))
               /\ acc' = Ev(self, "ld", (TailOf(fc[self])), "-", "-", Rd(self, (TailOf(fc[self]))))
               /\ IF Rd(self, TailOf(fc[self])) = Hd(fc[self])
                     THEN /\ pc' = [pc EXCEPT ![self] = "f_ldq"]
                     ELSE /\ pc' = [pc EXCEPT ![self] = "fs_xh"]
               /\ UNCHANGED << mem, sb, lock, fsleep, wloc, spur, wkind, 
                               crlist, nhelp, started, cpulen, tcrd, mycpu, 
                               slot, func, rnest, cs, ncs, cnt, snap, queued, 
                               fin, bsnap, alive, errs, pci, opx, iv, pa, hd, 
                               tl, old, cur, nx, cbc, isrt, en, ec, wc, res, 
                               gd, fc, dc, newc, cidef, cifl, cn, bk, regs, kk, 
                               sci, ci, cac, fa, gps, sigs, insig, oalive, 
                               gold, stack, ST, hheld, hent >>

fs_mb(self) == /\ pc[self] = "fs_mb"
               /\ Drained(self)
               /\ acc' = Ev(self, "mb", "-", "-", "-", "-")
               /\ pc' = [pc EXCEPT ![self] = "fs_xt"]
               /\ UNCHANGED << mem, sb, lock, fsleep, wloc, spur, wkind, 
                               crlist, nhelp, started, cpulen, tcrd, mycpu, 
                               slot, func, rnest, cs, ncs, cnt, snap, queued, 
                               fin, bsnap, alive, uaf, errs, pci, opx, iv, pa, 
                               hd, tl, old, cur, nx, cbc, isrt, en, ec, wc, 
                               res, gd, fc, dc, newc, cidef, cifl, cn, bk, 
                               regs, kk, sci, ci, cac, fa, gps, sigs, insig, 
                               oalive, gold, stack, ST, hheld, hent >>

fs_xt(self) == /\ pc[self] = "fs_xt"
               /\ Drained(self)
               /\ tl' = [tl EXCEPT ![self] = mem[(TailOf(fc[self]))]]
               /\ mem' = [mem EXCEPT ![(TailOf(fc[self]))] = Hd(fc[self])]
               /\ uaf' = (uaf \/ Dead((TailOf(fc[self]))))
               /\ acc' = Ev(self, "xchg", (TailOf(fc[self])), (Hd(fc[self])), "-", (tl'[self]))
               /\ pc' = [pc EXCEPT ![self] = "fs_ax"]
               /\ UNCHANGED << sb, lock, fsleep, wloc, spur, wkind, crlist, 
                               nhelp, started, cpulen, tcrd, mycpu, slot, func, 
                               rnest, cs, ncs, cnt, snap, queued, fin, bsnap, 
                               alive, errs, pci, opx, iv, pa, hd, old, cur, nx, 
                               cbc, isrt, en, ec, wc, res, gd, fc, dc, newc, 
                               cidef, cifl, cn, bk, regs, kk, sci, ci, cac, fa, 
                               gps, sigs, insig, oalive, gold, stack, ST, 
                               hheld, hent >>

fs_ax(self) == /\ pc[self] = "fs_ax"
               /\ Drained(self)
               /\ old' = [old EXCEPT ![self] = mem[(TailOf(dc[self]))]]
               /\ mem' = [mem EXCEPT ![(TailOf(dc[self]))] = tl[self]]
               /\ uaf' = (uaf \/ Dead((TailOf(dc[self]))))
               /\ acc' = Ev(self, "xchg", (TailOf(dc[self])), (tl[self]), "-", (old'[self]))
               /\ pc' = [pc EXCEPT ![self] = "fs_al"]
               /\ UNCHANGED << sb, lock, fsleep, wloc, spur, wkind, crlist, 
                               nhelp, started, cpulen, tcrd, mycpu, slot, func, 
                               rnest, cs, ncs, cnt, snap, queued, fin, bsnap, 
                               alive, errs, pci, opx, iv, pa, hd, tl, cur, nx, 
                               cbc, isrt, en, ec, wc, res, gd, fc, dc, newc, 
                               cidef, cifl, cn, bk, regs, kk, sci, ci, cac, fa, 
                               gps, sigs, insig, oalive, gold, stack, ST, 
                               hheld, hent >>

fs_al(self) == /\ pc[self] = "fs_al"
               /\ IF TSO
                     THEN /\ Len(sb[self]) < SBMax
                          /\ sb' = [sb EXCEPT ![self] = Append(sb[self], <<(NextOf(old[self])), (hd[self])>>)]
                          /\ mem' = mem
                     ELSE /\ mem' = [mem EXCEPT ![(NextOf(old[self]))] = hd[self]]
                          /\ sb' = sb
               /\ uaf' = (uaf \/ Dead((NextOf(old[self]))))
               /\ acc' = Ev(self, "st", (NextOf(old[self])), (hd[self]), "-", "-")
               /\ old' = [old EXCEPT ![self] = NULL]
               /\ hd' = [hd EXCEPT ![self] = NULL]
               /\ tl' = [tl EXCEPT ![self] = NULL]
               /\ pc' = [pc EXCEPT ![self] = "f_ldq"]
               /\ UNCHANGED << lock, fsleep, wloc, spur, wkind, crlist, nhelp, 
                               started, cpulen, tcrd, mycpu, slot, func, rnest, 
                               cs, ncs, cnt, snap, queued, fin, bsnap, alive, 
                               errs, pci, opx, iv, pa, cur, nx, cbc, isrt, en, 
                               ec, wc, res, gd, fc, dc, newc, cidef, cifl, cn, 
                               bk, regs, kk, sci, ci, cac, fa, gps, sigs, 
                               insig, oalive, gold, stack, ST, hheld, hent >>

f_ldq(self) == /\ pc[self] = "f_ldq"
               /\ iv' = [iv EXCEPT ![self] = Rd(self, (QlenOf(fc[self])))]
               /\ uaf' = (uaf \/ Dead((QlenOf(fc[self]))))
               /\ acc' = Ev(self, "ld", (QlenOf(fc[self])), "-", "-", Rd(self, (QlenOf(fc[self]))))
               /\ pc' = [pc EXCEPT ![self] = "f_add"]
               /\ UNCHANGED << mem, sb, lock, fsleep, wloc, spur, wkind, 
                               crlist, nhelp, started, cpulen, tcrd, mycpu, 
                               slot, func, rnest, cs, ncs, cnt, snap, queued, 
                               fin, bsnap, alive, errs, pci, opx, pa, hd, tl, 
                               old, cur, nx, cbc, isrt, en, ec, wc, res, gd, 
                               fc, dc, newc, cidef, cifl, cn, bk, regs, kk, 
                               sci, ci, cac, fa, gps, sigs, insig, oalive, 
                               gold, stack, ST, hheld, hent >>

f_add(self) == /\ pc[self] = "f_add"
               /\ Drained(self)
               /\ acc' = Ev(self, "add", (QlenOf(dc[self])), (iv[self]), "-", (mem[QlenOf(dc[self])] + iv[self]))
               /\ uaf' = (uaf \/ Dead((QlenOf(dc[self]))))
               /\ mem' = [mem EXCEPT ![(QlenOf(dc[self]))] = mem[QlenOf(dc[self])] + iv[self]]
               /\ iv' = [iv EXCEPT ![self] = 0]
               /\ wc' = [wc EXCEPT ![self] = dc[self]]
               /\ stack' = [stack EXCEPT ![self] = << [ procedure |->  "wake",
                                                        pc        |->  "f_unl2" ] >>
                                                    \o stack[self]]
               /\ pc' = [pc EXCEPT ![self] = "wk_fl"]
               /\ UNCHANGED << sb, lock, fsleep, wloc, spur, wkind, crlist, 
                               nhelp, started, cpulen, tcrd, mycpu, slot, func, 
                               rnest, cs, ncs, cnt, snap, queued, fin, bsnap, 
                               alive, errs, pci, opx, pa, hd, tl, old, cur, nx, 
                               cbc, isrt, en, ec, res, gd, fc, dc, newc, cidef, 
                               cifl, cn, bk, regs, kk, sci, ci, cac, fa, gps, 
                               sigs, insig, oalive, gold, ST, hheld, hent >>

f_unl2(self) == /\ pc[self] = "f_unl2"
                /\ crlist' = Without(crlist, fc[self])
                /\ Drained(self)
                /\ lock' = "free"
                /\ acc' = Ev(self, "unlock", CM, "-", "-", "-")
                /\ pc' = [pc EXCEPT ![self] = "f_join"]
                /\ UNCHANGED << mem, sb, fsleep, wloc, spur, wkind, nhelp, 
                                started, cpulen, tcrd, mycpu, slot, func, 
                                rnest, cs, ncs, cnt, snap, queued, fin, bsnap, 
                                alive, uaf, errs, pci, opx, iv, pa, hd, tl, 
                                old, cur, nx, cbc, isrt, en, ec, wc, res, gd, 
                                fc, dc, newc, cidef, cifl, cn, bk, regs, kk, 
                                sci, ci, cac, fa, gps, sigs, insig, oalive, 
                                gold, stack, ST, hheld, hent >>

f_join(self) == /\ pc[self] = "f_join"
                /\ pc[HOf[fc[self]]] = "Done"
                /\ acc' = Ev(self, "join", HOf[fc[self]], "-", "-", "-")
                /\ pc' = [pc EXCEPT ![self] = "f_free"]
                /\ UNCHANGED << mem, sb, lock, fsleep, wloc, spur, wkind, 
                                crlist, nhelp, started, cpulen, tcrd, mycpu, 
                                slot, func, rnest, cs, ncs, cnt, snap, queued, 
                                fin, bsnap, alive, uaf, errs, pci, opx, iv, pa, 
                                hd, tl, old, cur, nx, cbc, isrt, en, ec, wc, 
                                res, gd, fc, dc, newc, cidef, cifl, cn, bk, 
                                regs, kk, sci, ci, cac, fa, gps, sigs, insig, 
                                oalive, gold, stack, ST, hheld, hent >>

f_free(self) == /\ pc[self] = "f_free"
                /\ IF alive[fc[self]] # "yes"
                      THEN /\ errs' = (errs \cup {"call_rcu_data freed twice"})
                      ELSE /\ TRUE
                           /\ errs' = errs
                /\ alive' = [alive EXCEPT ![fc[self]] = "freed"]
                /\ acc' = Ev(self, "free", fc[self], "-", "-", "-")
                /\ pc' = [pc EXCEPT ![self] = Head(stack[self]).pc]
                /\ stack' = [stack EXCEPT ![self] = Tail(stack[self])]
                /\ UNCHANGED << mem, sb, lock, fsleep, wloc, spur, wkind, 
                                crlist, nhelp, started, cpulen, tcrd, mycpu, 
                                slot, func, rnest, cs, ncs, cnt, snap, queued, 
                                fin, bsnap, uaf, pci, opx, iv, pa, hd, tl, old, 
                                cur, nx, cbc, isrt, en, ec, wc, res, gd, fc, 
                                dc, newc, cidef, cifl, cn, bk, regs, kk, sci, 
                                ci, cac, fa, gps, sigs, insig, oalive, gold, 
                                ST, hheld, hent >>

data_free(self) == f_chk(self) \/ f_ld(self) \/ f_or(self) \/ f_wait(self)
                      \/ f_lock(self) \/ f_e1(self) \/ f_e2(self)
                      \/ f_unl1(self) \/ f_lock2(self) \/ fs_e1(self)
                      \/ fs_e2(self) \/ fs_xh(self) \/ fs_lt(self)
                      \/ fs_mb(self) \/ fs_xt(self) \/ fs_ax(self)
                      \/ fs_al(self) \/ f_ldq(self) \/ f_add(self)
                      \/ f_unl2(self) \/ f_join(self) \/ f_free(self)

ca_lock(self) == /\ pc[self] = "ca_lock"
                 /\ Drained(self) /\ lock = "free"
                 /\ lock' = self
                 /\ acc' = Ev(self, "lock", CM, "-", "-", "-")
                 /\ IF cpulen # 0
                       THEN /\ pc' = [pc EXCEPT ![self] = "ca_unl"]
                       ELSE /\ pc' = [pc EXCEPT ![self] = "ca_len"]
                 /\ UNCHANGED << mem, sb, fsleep, wloc, spur, wkind, crlist, 
                                 nhelp, started, cpulen, tcrd, mycpu, slot, 
                                 func, rnest, cs, ncs, cnt, snap, queued, fin, 
                                 bsnap, alive, uaf, errs, pci, opx, iv, pa, hd, 
                                 tl, old, cur, nx, cbc, isrt, en, ec, wc, res, 
                                 gd, fc, dc, newc, cidef, cifl, cn, bk, regs, 
                                 kk, sci, ci, cac, fa, gps, sigs, insig, 
                                 oalive, gold, stack, ST, hheld, hent >>

ca_len(self) == /\ pc[self] = "ca_len"
                /\ cpulen' = NCpu
                /\ pc' = [pc EXCEPT ![self] = "ca_arr"]
                /\ UNCHANGED << mem, sb, lock, acc, fsleep, wloc, spur, wkind, 
                                crlist, nhelp, started, tcrd, mycpu, slot, 
                                func, rnest, cs, ncs, cnt, snap, queued, fin, 
                                bsnap, alive, uaf, errs, pci, opx, iv, pa, hd, 
                                tl, old, cur, nx, cbc, isrt, en, ec, wc, res, 
                                gd, fc, dc, newc, cidef, cifl, cn, bk, regs, 
                                kk, sci, ci, cac, fa, gps, sigs, insig, oalive, 
                                gold, stack, ST, hheld, hent >>

ca_arr(self) == /\ pc[self] = "ca_arr"
                /\ IF TSO
                      THEN /\ Len(sb[self]) < SBMax
                           /\ sb' = [sb EXCEPT ![self] = Append(sb[self], <<"pcpu", "ARR">>)]
                           /\ mem' = mem
                      ELSE /\ mem' = [mem EXCEPT !["pcpu"] = "ARR"]
                           /\ sb' = sb
                /\ uaf' = (uaf \/ Dead("pcpu"))
                /\ acc' = Ev(self, "st", "pcpu", "ARR", "-", "-")
                /\ pc' = [pc EXCEPT ![self] = "ca_unl"]
                /\ UNCHANGED << lock, fsleep, wloc, spur, wkind, crlist, nhelp, 
                                started, cpulen, tcrd, mycpu, slot, func, 
                                rnest, cs, ncs, cnt, snap, queued, fin, bsnap, 
                                alive, errs, pci, opx, iv, pa, hd, tl, old, 
                                cur, nx, cbc, isrt, en, ec, wc, res, gd, fc, 
                                dc, newc, cidef, cifl, cn, bk, regs, kk, sci, 
                                ci, cac, fa, gps, sigs, insig, oalive, gold, 
                                stack, ST, hheld, hent >>

ca_unl(self) == /\ pc[self] = "ca_unl"
                /\ Drained(self)
                /\ lock' = "free"
                /\ acc' = Ev(self, "unlock", CM, "-", "-", "-")
                /\ ci' = [ci EXCEPT ![self] = 0]
                /\ pc' = [pc EXCEPT ![self] = "ca_top"]
                /\ UNCHANGED << mem, sb, fsleep, wloc, spur, wkind, crlist, 
                                nhelp, started, cpulen, tcrd, mycpu, slot, 
                                func, rnest, cs, ncs, cnt, snap, queued, fin, 
                                bsnap, alive, uaf, errs, pci, opx, iv, pa, hd, 
                                tl, old, cur, nx, cbc, isrt, en, ec, wc, res, 
                                gd, fc, dc, newc, cidef, cifl, cn, bk, regs, 
                                kk, sci, cac, fa, gps, sigs, insig, oalive, 
                                gold, stack, ST, hheld, hent >>

ca_top(self) == /\ pc[self] = "ca_top"
                /\ IF ci[self] >= NCpu
                      THEN /\ res' = [res EXCEPT ![self] = "0"]
                           /\ pc' = [pc EXCEPT ![self] = Head(stack[self]).pc]
                           /\ stack' = [stack EXCEPT ![self] = Tail(stack[self])]
                      ELSE /\ pc' = [pc EXCEPT ![self] = "ca_lk"]
                           /\ UNCHANGED << res, stack >>
                /\ UNCHANGED << mem, sb, lock, acc, fsleep, wloc, spur, wkind, 
                                crlist, nhelp, started, cpulen, tcrd, mycpu, 
                                slot, func, rnest, cs, ncs, cnt, snap, queued, 
                                fin, bsnap, alive, uaf, errs, pci, opx, iv, pa, 
                                hd, tl, old, cur, nx, cbc, isrt, en, ec, wc, 
                                gd, fc, dc, newc, cidef, cifl, cn, bk, regs, 
                                kk, sci, ci, cac, fa, gps, sigs, insig, oalive, 
                                gold, ST, hheld, hent >>

ca_lk(self) == /\ pc[self] = "ca_lk"
               /\ Drained(self) /\ lock = "free"
               /\ lock' = self
               /\ acc' = Ev(self, "lock", CM, "-", "-", "-")
               /\ pc' = [pc EXCEPT ![self] = "ca_g1"]
               /\ UNCHANGED << mem, sb, fsleep, wloc, spur, wkind, crlist, 
                               nhelp, started, cpulen, tcrd, mycpu, slot, func, 
                               rnest, cs, ncs, cnt, snap, queued, fin, bsnap, 
                               alive, uaf, errs, pci, opx, iv, pa, hd, tl, old, 
                               cur, nx, cbc, isrt, en, ec, wc, res, gd, fc, dc, 
                               newc, cidef, cifl, cn, bk, regs, kk, sci, ci, 
                               cac, fa, gps, sigs, insig, oalive, gold, stack, 
                               ST, hheld, hent >>

ca_g1(self) == /\ pc[self] = "ca_g1"
               /\ uaf' = (uaf \/ Dead("pcpu"))
               /\ acc' = Ev(self, "ld", "pcpu", "-", "-", Rd(self, "pcpu"))
               /\ pc' = [pc EXCEPT ![self] = "ca_g2"]
               /\ UNCHANGED << mem, sb, lock, fsleep, wloc, spur, wkind, 
                               crlist, nhelp, started, cpulen, tcrd, mycpu, 
                               slot, func, rnest, cs, ncs, cnt, snap, queued, 
                               fin, bsnap, alive, errs, pci, opx, iv, pa, hd, 
                               tl, old, cur, nx, cbc, isrt, en, ec, wc, res, 
                               gd, fc, dc, newc, cidef, cifl, cn, bk, regs, kk, 
                               sci, ci, cac, fa, gps, sigs, insig, oalive, 
                               gold, stack, ST, hheld, hent >>

ca_g2(self) == /\ pc[self] = "ca_g2"
               /\ uaf' = (uaf \/ Dead((PSlot(ci[self]))))
               /\ acc' = Ev(self, "ld", (PSlot(ci[self])), "-", "-", Rd(self, (PSlot(ci[self]))))
               /\ IF Rd(self, PSlot(ci[self])) # NULL
                     THEN /\ pc' = [pc EXCEPT ![self] = "ca_skip"]
                          /\ UNCHANGED << cidef, cifl, stack >>
                     ELSE /\ cidef' = [cidef EXCEPT ![self] = FALSE]
                          /\ cifl' = [cifl EXCEPT ![self] = opx[self].f]
                          /\ stack' = [stack EXCEPT ![self] = << [ procedure |->  "data_init",
                                                                   pc        |->  "ca_cu" ] >>
                                                               \o stack[self]]
                          /\ pc' = [pc EXCEPT ![self] = "ci_new"]
               /\ UNCHANGED << mem, sb, lock, fsleep, wloc, spur, wkind, 
                               crlist, nhelp, started, cpulen, tcrd, mycpu, 
                               slot, func, rnest, cs, ncs, cnt, snap, queued, 
                               fin, bsnap, alive, errs, pci, opx, iv, pa, hd, 
                               tl, old, cur, nx, cbc, isrt, en, ec, wc, res, 
                               gd, fc, dc, newc, cn, bk, regs, kk, sci, ci, 
                               cac, fa, gps, sigs, insig, oalive, gold, ST, 
                               hheld, hent >>

ca_cu(self) == /\ pc[self] = "ca_cu"
               /\ Drained(self)
               /\ lock' = "free"
               /\ acc' = Ev(self, "unlock", CM, "-", "-", "-")
               /\ cac' = [cac EXCEPT ![self] = newc[self]]
               /\ en' = [en EXCEPT ![self] = newc[self]]
               /\ sci' = [sci EXCEPT ![self] = ci[self]]
               /\ stack' = [stack EXCEPT ![self] = << [ procedure |->  "set_cpu",
                                                        pc        |->  "ca_chk" ] >>
                                                    \o stack[self]]
               /\ pc' = [pc EXCEPT ![self] = "sc_lock"]
               /\ UNCHANGED << mem, sb, fsleep, wloc, spur, wkind, crlist, 
                               nhelp, started, cpulen, tcrd, mycpu, slot, func, 
                               rnest, cs, ncs, cnt, snap, queued, fin, bsnap, 
                               alive, uaf, errs, pci, opx, iv, pa, hd, tl, old, 
                               cur, nx, cbc, isrt, ec, wc, res, gd, fc, dc, 
                               newc, cidef, cifl, cn, bk, regs, kk, ci, fa, 
                               gps, sigs, insig, oalive, gold, ST, hheld, hent >>

ca_chk(self) == /\ pc[self] = "ca_chk"
                /\ IF res[self] = "EEXIST"
                      THEN /\ fc' = [fc EXCEPT ![self] = cac[self]]
                           /\ stack' = [stack EXCEPT ![self] = << [ procedure |->  "data_free",
                                                                    pc        |->  "ca_nx" ] >>
                                                                \o stack[self]]
                           /\ pc' = [pc EXCEPT ![self] = "f_chk"]
                      ELSE /\ pc' = [pc EXCEPT ![self] = "ca_nx"]
                           /\ UNCHANGED << fc, stack >>
                /\ UNCHANGED << mem, sb, lock, acc, fsleep, wloc, spur, wkind, 
                                crlist, nhelp, started, cpulen, tcrd, mycpu, 
                                slot, func, rnest, cs, ncs, cnt, snap, queued, 
                                fin, bsnap, alive, uaf, errs, pci, opx, iv, pa, 
                                hd, tl, old, cur, nx, cbc, isrt, en, ec, wc, 
                                res, gd, dc, newc, cidef, cifl, cn, bk, regs, 
                                kk, sci, ci, cac, fa, gps, sigs, insig, oalive, 
                                gold, ST, hheld, hent >>

ca_nx(self) == /\ pc[self] = "ca_nx"
               /\ ci' = [ci EXCEPT ![self] = ci[self] + 1]
               /\ cac' = [cac EXCEPT ![self] = NULL]
               /\ pc' = [pc EXCEPT ![self] = "ca_top"]
               /\ UNCHANGED << mem, sb, lock, acc, fsleep, wloc, spur, wkind, 
                               crlist, nhelp, started, cpulen, tcrd, mycpu, 
                               slot, func, rnest, cs, ncs, cnt, snap, queued, 
                               fin, bsnap, alive, uaf, errs, pci, opx, iv, pa, 
                               hd, tl, old, cur, nx, cbc, isrt, en, ec, wc, 
                               res, gd, fc, dc, newc, cidef, cifl, cn, bk, 
                               regs, kk, sci, fa, gps, sigs, insig, oalive, 
                               gold, stack, ST, hheld, hent >>

ca_skip(self) == /\ pc[self] = "ca_skip"
                 /\ Drained(self)
                 /\ lock' = "free"
                 /\ acc' = Ev(self, "unlock", CM, "-", "-", "-")
                 /\ ci' = [ci EXCEPT ![self] = ci[self] + 1]
                 /\ pc' = [pc EXCEPT ![self] = "ca_top"]
                 /\ UNCHANGED << mem, sb, fsleep, wloc, spur, wkind, crlist, 
                                 nhelp, started, cpulen, tcrd, mycpu, slot, 
                                 func, rnest, cs, ncs, cnt, snap, queued, fin, 
                                 bsnap, alive, uaf, errs, pci, opx, iv, pa, hd, 
                                 tl, old, cur, nx, cbc, isrt, en, ec, wc, res, 
                                 gd, fc, dc, newc, cidef, cifl, cn, bk, regs, 
                                 kk, sci, cac, fa, gps, sigs, insig, oalive, 
                                 gold, stack, ST, hheld, hent >>

create_all(self) == ca_lock(self) \/ ca_len(self) \/ ca_arr(self)
                       \/ ca_unl(self) \/ ca_top(self) \/ ca_lk(self)
                       \/ ca_g1(self) \/ ca_g2(self) \/ ca_cu(self)
                       \/ ca_chk(self) \/ ca_nx(self) \/ ca_skip(self)

fa_len(self) == /\ pc[self] = "fa_len"
                /\ IF cpulen = 0
                      THEN /\ res' = [res EXCEPT ![self] = "-"]
                           /\ pc' = [pc EXCEPT ![self] = Head(stack[self]).pc]
                           /\ stack' = [stack EXCEPT ![self] = Tail(stack[self])]
                           /\ ci' = ci
                      ELSE /\ ci' = [ci EXCEPT ![self] = 0]
                           /\ pc' = [pc EXCEPT ![self] = "fa_top"]
                           /\ UNCHANGED << res, stack >>
                /\ UNCHANGED << mem, sb, lock, acc, fsleep, wloc, spur, wkind, 
                                crlist, nhelp, started, cpulen, tcrd, mycpu, 
                                slot, func, rnest, cs, ncs, cnt, snap, queued, 
                                fin, bsnap, alive, uaf, errs, pci, opx, iv, pa, 
                                hd, tl, old, cur, nx, cbc, isrt, en, ec, wc, 
                                gd, fc, dc, newc, cidef, cifl, cn, bk, regs, 
                                kk, sci, cac, fa, gps, sigs, insig, oalive, 
                                gold, ST, hheld, hent >>

fa_top(self) == /\ pc[self] = "fa_top"
                /\ IF ci[self] >= NCpu
                      THEN /\ pc' = [pc EXCEPT ![self] = "fa_sync"]
                      ELSE /\ pc' = [pc EXCEPT ![self] = "fa_g1"]
                /\ UNCHANGED << mem, sb, lock, acc, fsleep, wloc, spur, wkind, 
                                crlist, nhelp, started, cpulen, tcrd, mycpu, 
                                slot, func, rnest, cs, ncs, cnt, snap, queued, 
                                fin, bsnap, alive, uaf, errs, pci, opx, iv, pa, 
                                hd, tl, old, cur, nx, cbc, isrt, en, ec, wc, 
                                res, gd, fc, dc, newc, cidef, cifl, cn, bk, 
                                regs, kk, sci, ci, cac, fa, gps, sigs, insig, 
                                oalive, gold, stack, ST, hheld, hent >>

fa_g1(self) == /\ pc[self] = "fa_g1"
               /\ uaf' = (uaf \/ Dead("pcpu"))
               /\ acc' = Ev(self, "ld", "pcpu", "-", "-", Rd(self, "pcpu"))
               /\ IF Rd(self, "pcpu") = NULL
                     THEN /\ pc' = [pc EXCEPT ![self] = "fa_nx"]
                     ELSE /\ pc' = [pc EXCEPT ![self] = "fa_g2"]
               /\ UNCHANGED << mem, sb, lock, fsleep, wloc, spur, wkind, 
                               crlist, nhelp, started, cpulen, tcrd, mycpu, 
                               slot, func, rnest, cs, ncs, cnt, snap, queued, 
                               fin, bsnap, alive, errs, pci, opx, iv, pa, hd, 
                               tl, old, cur, nx, cbc, isrt, en, ec, wc, res, 
                               gd, fc, dc, newc, cidef, cifl, cn, bk, regs, kk, 
                               sci, ci, cac, fa, gps, sigs, insig, oalive, 
                               gold, stack, ST, hheld, hent >>

fa_g2(self) == /\ pc[self] = "fa_g2"
               /\ uaf' = (uaf \/ Dead((PSlot(ci[self]))))
               /\ acc' = Ev(self, "ld", (PSlot(ci[self])), "-", "-", Rd(self, (PSlot(ci[self]))))
               /\ fa' = [fa EXCEPT ![self][ci[self]] = Rd(self, PSlot(ci[self]))]
               /\ IF Rd(self, PSlot(ci[self])) = NULL
                     THEN /\ pc' = [pc EXCEPT ![self] = "fa_nx"]
                          /\ UNCHANGED << en, sci, stack >>
                     ELSE /\ en' = [en EXCEPT ![self] = NULL]
                          /\ sci' = [sci EXCEPT ![self] = ci[self]]
                          /\ stack' = [stack EXCEPT ![self] = << [ procedure |->  "set_cpu",
                                                                   pc        |->  "fa_nx" ] >>
                                                               \o stack[self]]
                          /\ pc' = [pc EXCEPT ![self] = "sc_lock"]
               /\ UNCHANGED << mem, sb, lock, fsleep, wloc, spur, wkind, 
                               crlist, nhelp, started, cpulen, tcrd, mycpu, 
                               slot, func, rnest, cs, ncs, cnt, snap, queued, 
                               fin, bsnap, alive, errs, pci, opx, iv, pa, hd, 
                               tl, old, cur, nx, cbc, isrt, ec, wc, res, gd, 
                               fc, dc, newc, cidef, cifl, cn, bk, regs, kk, ci, 
                               cac, gps, sigs, insig, oalive, gold, ST, hheld, 
                               hent >>

fa_nx(self) == /\ pc[self] = "fa_nx"
               /\ ci' = [ci EXCEPT ![self] = ci[self] + 1]
               /\ pc' = [pc EXCEPT ![self] = "fa_top"]
               /\ UNCHANGED << mem, sb, lock, acc, fsleep, wloc, spur, wkind, 
                               crlist, nhelp, started, cpulen, tcrd, mycpu, 
                               slot, func, rnest, cs, ncs, cnt, snap, queued, 
                               fin, bsnap, alive, uaf, errs, pci, opx, iv, pa, 
                               hd, tl, old, cur, nx, cbc, isrt, en, ec, wc, 
                               res, gd, fc, dc, newc, cidef, cifl, cn, bk, 
                               regs, kk, sci, cac, fa, gps, sigs, insig, 
                               oalive, gold, stack, ST, hheld, hent >>

fa_sync(self) == /\ pc[self] = "fa_sync"
                 /\ IF "nofasync" \notin Mut
                       THEN /\ stack' = [stack EXCEPT ![self] = << [ procedure |->  "synchronize_rcu",
                                                                     pc        |->  "fa_f0" ] >>
                                                                 \o stack[self]]
                            /\ pc' = [pc EXCEPT ![self] = "gp_b"]
                       ELSE /\ pc' = [pc EXCEPT ![self] = "fa_f0"]
                            /\ stack' = stack
                 /\ UNCHANGED << mem, sb, lock, acc, fsleep, wloc, spur, wkind, 
                                 crlist, nhelp, started, cpulen, tcrd, mycpu, 
                                 slot, func, rnest, cs, ncs, cnt, snap, queued, 
                                 fin, bsnap, alive, uaf, errs, pci, opx, iv, 
                                 pa, hd, tl, old, cur, nx, cbc, isrt, en, ec, 
                                 wc, res, gd, fc, dc, newc, cidef, cifl, cn, 
                                 bk, regs, kk, sci, ci, cac, fa, gps, sigs, 
                                 insig, oalive, gold, ST, hheld, hent >>

fa_f0(self) == /\ pc[self] = "fa_f0"
               /\ ci' = [ci EXCEPT ![self] = 0]
               /\ pc' = [pc EXCEPT ![self] = "fa_ftop"]
               /\ UNCHANGED << mem, sb, lock, acc, fsleep, wloc, spur, wkind, 
                               crlist, nhelp, started, cpulen, tcrd, mycpu, 
                               slot, func, rnest, cs, ncs, cnt, snap, queued, 
                               fin, bsnap, alive, uaf, errs, pci, opx, iv, pa, 
                               hd, tl, old, cur, nx, cbc, isrt, en, ec, wc, 
                               res, gd, fc, dc, newc, cidef, cifl, cn, bk, 
                               regs, kk, sci, cac, fa, gps, sigs, insig, 
                               oalive, gold, stack, ST, hheld, hent >>

fa_ftop(self) == /\ pc[self] = "fa_ftop"
                 /\ IF ci[self] >= NCpu
                       THEN /\ res' = [res EXCEPT ![self] = "-"]
                            /\ fa' = [fa EXCEPT ![self] = [i \in 0..(NCpu - 1) |-> NULL]]
                            /\ pc' = [pc EXCEPT ![self] = Head(stack[self]).pc]
                            /\ stack' = [stack EXCEPT ![self] = Tail(stack[self])]
                       ELSE /\ pc' = [pc EXCEPT ![self] = "fa_fchk"]
                            /\ UNCHANGED << res, fa, stack >>
                 /\ UNCHANGED << mem, sb, lock, acc, fsleep, wloc, spur, wkind, 
                                 crlist, nhelp, started, cpulen, tcrd, mycpu, 
                                 slot, func, rnest, cs, ncs, cnt, snap, queued, 
                                 fin, bsnap, alive, uaf, errs, pci, opx, iv, 
                                 pa, hd, tl, old, cur, nx, cbc, isrt, en, ec, 
                                 wc, gd, fc, dc, newc, cidef, cifl, cn, bk, 
                                 regs, kk, sci, ci, cac, gps, sigs, insig, 
                                 oalive, gold, ST, hheld, hent >>

fa_fchk(self) == /\ pc[self] = "fa_fchk"
                 /\ IF fa[self][ci[self]] = NULL
                       THEN /\ pc' = [pc EXCEPT ![self] = "fa_fnx"]
                            /\ UNCHANGED << fc, stack >>
                       ELSE /\ fc' = [fc EXCEPT ![self] = fa[self][ci[self]]]
                            /\ stack' = [stack EXCEPT ![self] = << [ procedure |->  "data_free",
                                                                     pc        |->  "fa_fnx" ] >>
                                                                 \o stack[self]]
                            /\ pc' = [pc EXCEPT ![self] = "f_chk"]
                 /\ UNCHANGED << mem, sb, lock, acc, fsleep, wloc, spur, wkind, 
                                 crlist, nhelp, started, cpulen, tcrd, mycpu, 
                                 slot, func, rnest, cs, ncs, cnt, snap, queued, 
                                 fin, bsnap, alive, uaf, errs, pci, opx, iv, 
                                 pa, hd, tl, old, cur, nx, cbc, isrt, en, ec, 
                                 wc, res, gd, dc, newc, cidef, cifl, cn, bk, 
                                 regs, kk, sci, ci, cac, fa, gps, sigs, insig, 
                                 oalive, gold, ST, hheld, hent >>

fa_fnx(self) == /\ pc[self] = "fa_fnx"
                /\ ci' = [ci EXCEPT ![self] = ci[self] + 1]
                /\ pc' = [pc EXCEPT ![self] = "fa_ftop"]
                /\ UNCHANGED << mem, sb, lock, acc, fsleep, wloc, spur, wkind, 
                                crlist, nhelp, started, cpulen, tcrd, mycpu, 
                                slot, func, rnest, cs, ncs, cnt, snap, queued, 
                                fin, bsnap, alive, uaf, errs, pci, opx, iv, pa, 
                                hd, tl, old, cur, nx, cbc, isrt, en, ec, wc, 
                                res, gd, fc, dc, newc, cidef, cifl, cn, bk, 
                                regs, kk, sci, cac, fa, gps, sigs, insig, 
                                oalive, gold, stack, ST, hheld, hent >>

free_all(self) == fa_len(self) \/ fa_top(self) \/ fa_g1(self)
                     \/ fa_g2(self) \/ fa_nx(self) \/ fa_sync(self)
                     \/ fa_f0(self) \/ fa_ftop(self) \/ fa_fchk(self)
                     \/ fa_fnx(self)

bc_sub(self) == /\ pc[self] = "bc_sub"
                /\ Drained(self)
                /\ acc' = Ev(self, "addret", (CountOf(bk[self])), (-1), "-", (mem[CountOf(bk[self])] - 1))
                /\ uaf' = (uaf \/ Dead((CountOf(bk[self]))))
                /\ mem' = [mem EXCEPT ![(CountOf(bk[self]))] = mem[CountOf(bk[self])] - 1]
                /\ IF mem'[CountOf(bk[self])] # 0
                      THEN /\ pc' = [pc EXCEPT ![self] = "bc_put"]
                      ELSE /\ pc' = [pc EXCEPT ![self] = "bc_mb"]
                /\ UNCHANGED << sb, lock, fsleep, wloc, spur, wkind, crlist, 
                                nhelp, started, cpulen, tcrd, mycpu, slot, 
                                func, rnest, cs, ncs, cnt, snap, queued, fin, 
                                bsnap, alive, errs, pci, opx, iv, pa, hd, tl, 
                                old, cur, nx, cbc, isrt, en, ec, wc, res, gd, 
                                fc, dc, newc, cidef, cifl, cn, bk, regs, kk, 
                                sci, ci, cac, fa, gps, sigs, insig, oalive, 
                                gold, stack, ST, hheld, hent >>

bc_mb(self) == /\ pc[self] = "bc_mb"
               /\ Drained(self)
               /\ acc' = Ev(self, "mb", "-", "-", "-", "-")
               /\ pc' = [pc EXCEPT ![self] = "bc_ld"]
               /\ UNCHANGED << mem, sb, lock, fsleep, wloc, spur, wkind, 
                               crlist, nhelp, started, cpulen, tcrd, mycpu, 
                               slot, func, rnest, cs, ncs, cnt, snap, queued, 
                               fin, bsnap, alive, uaf, errs, pci, opx, iv, pa, 
                               hd, tl, old, cur, nx, cbc, isrt, en, ec, wc, 
                               res, gd, fc, dc, newc, cidef, cifl, cn, bk, 
                               regs, kk, sci, ci, cac, fa, gps, sigs, insig, 
                               oalive, gold, stack, ST, hheld, hent >>

bc_ld(self) == /\ pc[self] = "bc_ld"
               /\ uaf' = (uaf \/ Dead((FutexOf(bk[self]))))
               /\ acc' = Ev(self, "ld", (FutexOf(bk[self])), "-", "-", Rd(self, (FutexOf(bk[self]))))
               /\ IF Rd(self, FutexOf(bk[self])) # -1
                     THEN /\ pc' = [pc EXCEPT ![self] = "bc_put"]
                     ELSE /\ pc' = [pc EXCEPT ![self] = "bc_st"]
               /\ UNCHANGED << mem, sb, lock, fsleep, wloc, spur, wkind, 
                               crlist, nhelp, started, cpulen, tcrd, mycpu, 
                               slot, func, rnest, cs, ncs, cnt, snap, queued, 
                               fin, bsnap, alive, errs, pci, opx, iv, pa, hd, 
                               tl, old, cur, nx, cbc, isrt, en, ec, wc, res, 
                               gd, fc, dc, newc, cidef, cifl, cn, bk, regs, kk, 
                               sci, ci, cac, fa, gps, sigs, insig, oalive, 
                               gold, stack, ST, hheld, hent >>

bc_st(self) == /\ pc[self] = "bc_st"
               /\ IF TSO
                     THEN /\ Len(sb[self]) < SBMax
                          /\ sb' = [sb EXCEPT ![self] = Append(sb[self], <<(FutexOf(bk[self])), 0>>)]
                          /\ mem' = mem
                     ELSE /\ mem' = [mem EXCEPT ![(FutexOf(bk[self]))] = 0]
                          /\ sb' = sb
               /\ uaf' = (uaf \/ Dead((FutexOf(bk[self]))))
               /\ acc' = Ev(self, "st", (FutexOf(bk[self])), 0, "-", "-")
               /\ pc' = [pc EXCEPT ![self] = "bc_fw"]
               /\ UNCHANGED << lock, fsleep, wloc, spur, wkind, crlist, nhelp, 
                               started, cpulen, tcrd, mycpu, slot, func, rnest, 
                               cs, ncs, cnt, snap, queued, fin, bsnap, alive, 
                               errs, pci, opx, iv, pa, hd, tl, old, cur, nx, 
                               cbc, isrt, en, ec, wc, res, gd, fc, dc, newc, 
                               cidef, cifl, cn, bk, regs, kk, sci, ci, cac, fa, 
                               gps, sigs, insig, oalive, gold, stack, ST, 
                               hheld, hent >>

bc_fw(self) == /\ pc[self] = "bc_fw"
               /\ Drained(self)
               /\ uaf' = (uaf \/ Dead((FutexOf(bk[self]))))
               /\ acc' = Ev(self, "fwake", (FutexOf(bk[self])), "-", "-", Cardinality(Sleepers((FutexOf(bk[self])))))
               /\ fsleep' = fsleep \ Sleepers((FutexOf(bk[self])))
               /\ pc' = [pc EXCEPT ![self] = "bc_put"]
               /\ UNCHANGED << mem, sb, lock, wloc, spur, wkind, crlist, nhelp, 
                               started, cpulen, tcrd, mycpu, slot, func, rnest, 
                               cs, ncs, cnt, snap, queued, fin, bsnap, alive, 
                               errs, pci, opx, iv, pa, hd, tl, old, cur, nx, 
                               cbc, isrt, en, ec, wc, res, gd, fc, dc, newc, 
                               cidef, cifl, cn, bk, regs, kk, sci, ci, cac, fa, 
                               gps, sigs, insig, oalive, gold, stack, ST, 
                               hheld, hent >>

bc_put(self) == /\ pc[self] = "bc_put"
                /\ Drained(self)
                /\ acc' = Ev(self, "addret", (RefOf(bk[self])), (-1), "-", (mem[RefOf(bk[self])] - 1))
                /\ uaf' = (uaf \/ Dead((RefOf(bk[self]))))
                /\ mem' = [mem EXCEPT ![(RefOf(bk[self]))] = mem[RefOf(bk[self])] - 1]
                /\ IF mem'[RefOf(bk[self])] # 0 /\ "noref" \notin Mut
                      THEN /\ pc' = [pc EXCEPT ![self] = "bc_frw"]
                      ELSE /\ pc' = [pc EXCEPT ![self] = "bc_frk"]
                /\ UNCHANGED << sb, lock, fsleep, wloc, spur, wkind, crlist, 
                                nhelp, started, cpulen, tcrd, mycpu, slot, 
                                func, rnest, cs, ncs, cnt, snap, queued, fin, 
                                bsnap, alive, errs, pci, opx, iv, pa, hd, tl, 
                                old, cur, nx, cbc, isrt, en, ec, wc, res, gd, 
                                fc, dc, newc, cidef, cifl, cn, bk, regs, kk, 
                                sci, ci, cac, fa, gps, sigs, insig, oalive, 
                                gold, stack, ST, hheld, hent >>

bc_frk(self) == /\ pc[self] = "bc_frk"
                /\ IF alive[bk[self]] # "yes"
                      THEN /\ errs' = (errs \cup {"completion freed twice"})
                      ELSE /\ TRUE
                           /\ errs' = errs
                /\ alive' = [alive EXCEPT ![bk[self]] = "freed"]
                /\ acc' = Ev(self, "free", bk[self], "-", "-", "-")
                /\ pc' = [pc EXCEPT ![self] = "bc_frw"]
                /\ UNCHANGED << mem, sb, lock, fsleep, wloc, spur, wkind, 
                                crlist, nhelp, started, cpulen, tcrd, mycpu, 
                                slot, func, rnest, cs, ncs, cnt, snap, queued, 
                                fin, bsnap, uaf, pci, opx, iv, pa, hd, tl, old, 
                                cur, nx, cbc, isrt, en, ec, wc, res, gd, fc, 
                                dc, newc, cidef, cifl, cn, bk, regs, kk, sci, 
                                ci, cac, fa, gps, sigs, insig, oalive, gold, 
                                stack, ST, hheld, hent >>

bc_frw(self) == /\ pc[self] = "bc_frw"
                /\ alive' = [alive EXCEPT ![cur[self]] = "freed"]
                /\ acc' = Ev(self, "free", cur[self], "-", "-", "-")
                /\ pc' = [pc EXCEPT ![self] = Head(stack[self]).pc]
                /\ stack' = [stack EXCEPT ![self] = Tail(stack[self])]
                /\ UNCHANGED << mem, sb, lock, fsleep, wloc, spur, wkind, 
                                crlist, nhelp, started, cpulen, tcrd, mycpu, 
                                slot, func, rnest, cs, ncs, cnt, snap, queued, 
                                fin, bsnap, uaf, errs, pci, opx, iv, pa, hd, 
                                tl, old, cur, nx, cbc, isrt, en, ec, wc, res, 
                                gd, fc, dc, newc, cidef, cifl, cn, bk, regs, 
                                kk, sci, ci, cac, fa, gps, sigs, insig, oalive, 
                                gold, ST, hheld, hent >>

barrier_complete(self) == bc_sub(self) \/ bc_mb(self) \/ bc_ld(self)
                             \/ bc_st(self) \/ bc_fw(self) \/ bc_put(self)
                             \/ bc_frk(self) \/ bc_frw(self)

b_lock(self) == /\ pc[self] = "b_lock"
                /\ IF "nomutex" \notin Mut
                      THEN /\ Drained(self) /\ lock = "free"
                           /\ lock' = self
                           /\ acc' = Ev(self, "lock", CM, "-", "-", "-")
                      ELSE /\ TRUE
                           /\ UNCHANGED << lock, acc >>
                /\ regs' = [regs EXCEPT ![self] = crlist]
                /\ kk' = [kk EXCEPT ![self] = 1]
                /\ pc' = [pc EXCEPT ![self] = "b_ref"]
                /\ UNCHANGED << mem, sb, fsleep, wloc, spur, wkind, crlist, 
                                nhelp, started, cpulen, tcrd, mycpu, slot, 
                                func, rnest, cs, ncs, cnt, snap, queued, fin, 
                                bsnap, alive, uaf, errs, pci, opx, iv, pa, hd, 
                                tl, old, cur, nx, cbc, isrt, en, ec, wc, res, 
                                gd, fc, dc, newc, cidef, cifl, cn, bk, sci, ci, 
                                cac, fa, gps, sigs, insig, oalive, gold, stack, 
                                ST, hheld, hent >>

b_ref(self) == /\ pc[self] = "b_ref"
               /\ IF TSO
                     THEN /\ Len(sb[self]) < SBMax
                          /\ sb' = [sb EXCEPT ![self] = Append(sb[self], <<(RefOf(bk[self])), (Len(regs[self]) + 1)>>)]
                          /\ mem' = mem
                     ELSE /\ mem' = [mem EXCEPT ![(RefOf(bk[self]))] = Len(regs[self]) + 1]
                          /\ sb' = sb
               /\ uaf' = (uaf \/ Dead((RefOf(bk[self]))))
               /\ acc' = Ev(self, "st", (RefOf(bk[self])), (Len(regs[self]) + 1), "-", "-")
               /\ pc' = [pc EXCEPT ![self] = "b_cnt"]
               /\ UNCHANGED << lock, fsleep, wloc, spur, wkind, crlist, nhelp, 
                               started, cpulen, tcrd, mycpu, slot, func, rnest, 
                               cs, ncs, cnt, snap, queued, fin, bsnap, alive, 
                               errs, pci, opx, iv, pa, hd, tl, old, cur, nx, 
                               cbc, isrt, en, ec, wc, res, gd, fc, dc, newc, 
                               cidef, cifl, cn, bk, regs, kk, sci, ci, cac, fa, 
                               gps, sigs, insig, oalive, gold, stack, ST, 
                               hheld, hent >>

b_cnt(self) == /\ pc[self] = "b_cnt"
               /\ IF TSO /\ ~Tracing
                     THEN /\ Len(sb[self]) < SBMax
                          /\ sb' = [sb EXCEPT ![self] = Append(sb[self], <<(CountOf(bk[self])), (IF "earlycount" \in Mut THEN 0 ELSE Len(regs[self]))>>)]
                          /\ mem' = mem
                     ELSE /\ Drained(self)
                          /\ mem' = [mem EXCEPT ![(CountOf(bk[self]))] = IF "earlycount" \in Mut THEN 0 ELSE Len(regs[self])]
                          /\ sb' = sb
               /\ uaf' = (uaf \/ Dead((CountOf(bk[self]))))
               /\ pc' = [pc EXCEPT ![self] = "b_loop"]
               /\ UNCHANGED << lock, acc, fsleep, wloc, spur, wkind, crlist, 
                               nhelp, started, cpulen, tcrd, mycpu, slot, func, 
                               rnest, cs, ncs, cnt, snap, queued, fin, bsnap, 
                               alive, errs, pci, opx, iv, pa, hd, tl, old, cur, 
                               nx, cbc, isrt, en, ec, wc, res, gd, fc, dc, 
                               newc, cidef, cifl, cn, bk, regs, kk, sci, ci, 
                               cac, fa, gps, sigs, insig, oalive, gold, stack, 
                               ST, hheld, hent >>

b_loop(self) == /\ pc[self] = "b_loop"
                /\ IF kk[self] <= Len(regs[self])
                      THEN /\ en' = [en EXCEPT ![self] = WName(bk[self], regs[self][kk[self]])]
                           /\ ec' = [ec EXCEPT ![self] = regs[self][kk[self]]]
                           /\ alive' = [alive EXCEPT ![WName(bk[self], regs[self][kk[self]])] = "yes"]
                           /\ func' = [func EXCEPT ![WName(bk[self], regs[self][kk[self]])] = "barrier_complete"]
                           /\ kk' = [kk EXCEPT ![self] = kk[self] + 1]
                           /\ stack' = [stack EXCEPT ![self] = << [ procedure |->  "enqueue",
                                                                    pc        |->  "b_loop" ] >>
                                                                \o stack[self]]
                           /\ pc' = [pc EXCEPT ![self] = "e_mb"]
                      ELSE /\ pc' = [pc EXCEPT ![self] = "b_unl"]
                           /\ UNCHANGED << func, alive, en, ec, kk, stack >>
                /\ UNCHANGED << mem, sb, lock, acc, fsleep, wloc, spur, wkind, 
                                crlist, nhelp, started, cpulen, tcrd, mycpu, 
                                slot, rnest, cs, ncs, cnt, snap, queued, fin, 
                                bsnap, uaf, errs, pci, opx, iv, pa, hd, tl, 
                                old, cur, nx, cbc, isrt, wc, res, gd, fc, dc, 
                                newc, cidef, cifl, cn, bk, regs, sci, ci, cac, 
                                fa, gps, sigs, insig, oalive, gold, ST, hheld, 
                                hent >>

b_unl(self) == /\ pc[self] = "b_unl"
               /\ IF "nomutex" \notin Mut
                     THEN /\ Drained(self)
                          /\ lock' = "free"
                          /\ acc' = Ev(self, "unlock", CM, "-", "-", "-")
                     ELSE /\ TRUE
                          /\ UNCHANGED << lock, acc >>
               /\ pc' = [pc EXCEPT ![self] = "b_dec"]
               /\ UNCHANGED << mem, sb, fsleep, wloc, spur, wkind, crlist, 
                               nhelp, started, cpulen, tcrd, mycpu, slot, func, 
                               rnest, cs, ncs, cnt, snap, queued, fin, bsnap, 
                               alive, uaf, errs, pci, opx, iv, pa, hd, tl, old, 
                               cur, nx, cbc, isrt, en, ec, wc, res, gd, fc, dc, 
                               newc, cidef, cifl, cn, bk, regs, kk, sci, ci, 
                               cac, fa, gps, sigs, insig, oalive, gold, stack, 
                               ST, hheld, hent >>

b_dec(self) == /\ pc[self] = "b_dec"
               /\ Drained(self)
               /\ acc' = Ev(self, "dec", (FutexOf(bk[self])), 1, "-", (mem[FutexOf(bk[self])] - 1))
               /\ uaf' = (uaf \/ Dead((FutexOf(bk[self]))))
               /\ mem' = [mem EXCEPT ![(FutexOf(bk[self]))] = mem[FutexOf(bk[self])] - 1]
               /\ pc' = [pc EXCEPT ![self] = "b_mb"]
               /\ UNCHANGED << sb, lock, fsleep, wloc, spur, wkind, crlist, 
                               nhelp, started, cpulen, tcrd, mycpu, slot, func, 
                               rnest, cs, ncs, cnt, snap, queued, fin, bsnap, 
                               alive, errs, pci, opx, iv, pa, hd, tl, old, cur, 
                               nx, cbc, isrt, en, ec, wc, res, gd, fc, dc, 
                               newc, cidef, cifl, cn, bk, regs, kk, sci, ci, 
                               cac, fa, gps, sigs, insig, oalive, gold, stack, 
                               ST, hheld, hent >>

b_mb(self) == /\ pc[self] = "b_mb"
              /\ Drained(self)
              /\ acc' = Ev(self, "mb", "-", "-", "-", "-")
              /\ pc' = [pc EXCEPT ![self] = "b_ldc"]
              /\ UNCHANGED << mem, sb, lock, fsleep, wloc, spur, wkind, crlist, 
                              nhelp, started, cpulen, tcrd, mycpu, slot, func, 
                              rnest, cs, ncs, cnt, snap, queued, fin, bsnap, 
                              alive, uaf, errs, pci, opx, iv, pa, hd, tl, old, 
                              cur, nx, cbc, isrt, en, ec, wc, res, gd, fc, dc, 
                              newc, cidef, cifl, cn, bk, regs, kk, sci, ci, 
                              cac, fa, gps, sigs, insig, oalive, gold, stack, 
                              ST, hheld, hent >>

b_ldc(self) == /\ pc[self] = "b_ldc"
               /\ uaf' = (uaf \/ Dead((CountOf(bk[self]))))
               /\ acc' = Ev(self, "ld", (CountOf(bk[self])), "-", "-", Rd(self, (CountOf(bk[self]))))
               /\ IF Rd(self, CountOf(bk[self])) = 0
                     THEN /\ pc' = [pc EXCEPT ![self] = "b_put"]
                     ELSE /\ pc' = [pc EXCEPT ![self] = "cw_mb"]
               /\ UNCHANGED << mem, sb, lock, fsleep, wloc, spur, wkind, 
                               crlist, nhelp, started, cpulen, tcrd, mycpu, 
                               slot, func, rnest, cs, ncs, cnt, snap, queued, 
                               fin, bsnap, alive, errs, pci, opx, iv, pa, hd, 
                               tl, old, cur, nx, cbc, isrt, en, ec, wc, res, 
                               gd, fc, dc, newc, cidef, cifl, cn, bk, regs, kk, 
                               sci, ci, cac, fa, gps, sigs, insig, oalive, 
                               gold, stack, ST, hheld, hent >>

cw_mb(self) == /\ pc[self] = "cw_mb"
               /\ Drained(self)
               /\ acc' = Ev(self, "mb", "-", "-", "-", "-")
               /\ pc' = [pc EXCEPT ![self] = "cw_ld"]
               /\ UNCHANGED << mem, sb, lock, fsleep, wloc, spur, wkind, 
                               crlist, nhelp, started, cpulen, tcrd, mycpu, 
                               slot, func, rnest, cs, ncs, cnt, snap, queued, 
                               fin, bsnap, alive, uaf, errs, pci, opx, iv, pa, 
                               hd, tl, old, cur, nx, cbc, isrt, en, ec, wc, 
                               res, gd, fc, dc, newc, cidef, cifl, cn, bk, 
                               regs, kk, sci, ci, cac, fa, gps, sigs, insig, 
                               oalive, gold, stack, ST, hheld, hent >>

cw_ld(self) == /\ pc[self] = "cw_ld"
               /\ uaf' = (uaf \/ Dead((FutexOf(bk[self]))))
               /\ acc' = Ev(self, "ld", (FutexOf(bk[self])), "-", "-", Rd(self, (FutexOf(bk[self]))))
               /\ IF Rd(self, FutexOf(bk[self])) # -1
                     THEN /\ pc' = [pc EXCEPT ![self] = "b_dec"]
                     ELSE /\ pc' = [pc EXCEPT ![self] = "cw_fwait"]
               /\ UNCHANGED << mem, sb, lock, fsleep, wloc, spur, wkind, 
                               crlist, nhelp, started, cpulen, tcrd, mycpu, 
                               slot, func, rnest, cs, ncs, cnt, snap, queued, 
                               fin, bsnap, alive, errs, pci, opx, iv, pa, hd, 
                               tl, old, cur, nx, cbc, isrt, en, ec, wc, res, 
                               gd, fc, dc, newc, cidef, cifl, cn, bk, regs, kk, 
                               sci, ci, cac, fa, gps, sigs, insig, oalive, 
                               gold, stack, ST, hheld, hent >>

cw_fwait(self) == /\ pc[self] = "cw_fwait"
                  /\ Drained(self)
                  /\ uaf' = (uaf \/ Dead(FutexOf(bk[self])))
                  /\ IF mem[FutexOf(bk[self])] = -1
                        THEN /\ fsleep' = (fsleep \cup {self})
                             /\ wloc' = [wloc EXCEPT ![self] = FutexOf(bk[self])]
                             /\ acc' = Ev(self, "fwait", FutexOf(bk[self]), -1, "-", "SLEEP")
                             /\ pc' = [pc EXCEPT ![self] = "cw_fwoke"]
                        ELSE /\ acc' = Ev(self, "fwait", FutexOf(bk[self]), -1, "-", "EAGAIN")
                             /\ pc' = [pc EXCEPT ![self] = "b_dec"]
                             /\ UNCHANGED << fsleep, wloc >>
                  /\ UNCHANGED << mem, sb, lock, spur, wkind, crlist, nhelp, 
                                  started, cpulen, tcrd, mycpu, slot, func, 
                                  rnest, cs, ncs, cnt, snap, queued, fin, 
                                  bsnap, alive, errs, pci, opx, iv, pa, hd, tl, 
                                  old, cur, nx, cbc, isrt, en, ec, wc, res, gd, 
                                  fc, dc, newc, cidef, cifl, cn, bk, regs, kk, 
                                  sci, ci, cac, fa, gps, sigs, insig, oalive, 
                                  gold, stack, ST, hheld, hent >>

cw_fwoke(self) == /\ pc[self] = "cw_fwoke"
                  /\ self \notin fsleep
                  /\ acc' = Ev(self, "fwoke", FutexOf(bk[self]), "-", "-", wkind[self])
                  /\ wkind' = [wkind EXCEPT ![self] = "WAKE"]
                  /\ pc' = [pc EXCEPT ![self] = "cw_ld"]
                  /\ UNCHANGED << mem, sb, lock, fsleep, wloc, spur, crlist, 
                                  nhelp, started, cpulen, tcrd, mycpu, slot, 
                                  func, rnest, cs, ncs, cnt, snap, queued, fin, 
                                  bsnap, alive, uaf, errs, pci, opx, iv, pa, 
                                  hd, tl, old, cur, nx, cbc, isrt, en, ec, wc, 
                                  res, gd, fc, dc, newc, cidef, cifl, cn, bk, 
                                  regs, kk, sci, ci, cac, fa, gps, sigs, insig, 
                                  oalive, gold, stack, ST, hheld, hent >>

b_put(self) == /\ pc[self] = "b_put"
               /\ Drained(self)
               /\ acc' = Ev(self, "addret", (RefOf(bk[self])), (-1), "-", (mem[RefOf(bk[self])] - 1))
               /\ uaf' = (uaf \/ Dead((RefOf(bk[self]))))
               /\ mem' = [mem EXCEPT ![(RefOf(bk[self]))] = mem[RefOf(bk[self])] - 1]
               /\ IF mem'[RefOf(bk[self])] # 0 /\ "noref" \notin Mut
                     THEN /\ pc' = [pc EXCEPT ![self] = Head(stack[self]).pc]
                          /\ stack' = [stack EXCEPT ![self] = Tail(stack[self])]
                     ELSE /\ pc' = [pc EXCEPT ![self] = "b_free"]
                          /\ stack' = stack
               /\ UNCHANGED << sb, lock, fsleep, wloc, spur, wkind, crlist, 
                               nhelp, started, cpulen, tcrd, mycpu, slot, func, 
                               rnest, cs, ncs, cnt, snap, queued, fin, bsnap, 
                               alive, errs, pci, opx, iv, pa, hd, tl, old, cur, 
                               nx, cbc, isrt, en, ec, wc, res, gd, fc, dc, 
                               newc, cidef, cifl, cn, bk, regs, kk, sci, ci, 
                               cac, fa, gps, sigs, insig, oalive, gold, ST, 
                               hheld, hent >>

b_free(self) == /\ pc[self] = "b_free"
                /\ IF alive[bk[self]] # "yes"
                      THEN /\ errs' = (errs \cup {"completion freed twice"})
                      ELSE /\ TRUE
                           /\ errs' = errs
                /\ alive' = [alive EXCEPT ![bk[self]] = "freed"]
                /\ acc' = Ev(self, "free", bk[self], "-", "-", "-")
                /\ pc' = [pc EXCEPT ![self] = Head(stack[self]).pc]
                /\ stack' = [stack EXCEPT ![self] = Tail(stack[self])]
                /\ UNCHANGED << mem, sb, lock, fsleep, wloc, spur, wkind, 
                                crlist, nhelp, started, cpulen, tcrd, mycpu, 
                                slot, func, rnest, cs, ncs, cnt, snap, queued, 
                                fin, bsnap, uaf, pci, opx, iv, pa, hd, tl, old, 
                                cur, nx, cbc, isrt, en, ec, wc, res, gd, fc, 
                                dc, newc, cidef, cifl, cn, bk, regs, kk, sci, 
                                ci, cac, fa, gps, sigs, insig, oalive, gold, 
                                ST, hheld, hent >>

barrier(self) == b_lock(self) \/ b_ref(self) \/ b_cnt(self) \/ b_loop(self)
                    \/ b_unl(self) \/ b_dec(self) \/ b_mb(self)
                    \/ b_ldc(self) \/ cw_mb(self) \/ cw_ld(self)
                    \/ cw_fwait(self) \/ cw_fwoke(self) \/ b_put(self)
                    \/ b_free(self)

bf_lock(self) == /\ pc[self] = "bf_lock"
                 /\ Drained(self) /\ lock = "free"
                 /\ lock' = self
                 /\ acc' = Ev(self, "lock", CM, "-", "-", "-")
                 /\ regs' = [regs EXCEPT ![self] = crlist]
                 /\ kk' = [kk EXCEPT ![self] = 1]
                 /\ pc' = [pc EXCEPT ![self] = "bf_or"]
                 /\ UNCHANGED << mem, sb, fsleep, wloc, spur, wkind, crlist, 
                                 nhelp, started, cpulen, tcrd, mycpu, slot, 
                                 func, rnest, cs, ncs, cnt, snap, queued, fin, 
                                 bsnap, alive, uaf, errs, pci, opx, iv, pa, hd, 
                                 tl, old, cur, nx, cbc, isrt, en, ec, wc, res, 
                                 gd, fc, dc, newc, cidef, cifl, cn, bk, sci, 
                                 ci, cac, fa, gps, sigs, insig, oalive, gold, 
                                 stack, ST, hheld, hent >>

bf_or(self) == /\ pc[self] = "bf_or"
               /\ IF kk[self] <= Len(regs[self])
                     THEN /\ Drained(self)
                          /\ acc' = Ev(self, "or", (FlagsOf(regs[self][kk[self]])), PAUSE, "-", (SetB(mem[FlagsOf(regs[self][kk[self]])], PAUSE)))
                          /\ uaf' = (uaf \/ Dead((FlagsOf(regs[self][kk[self]]))))
                          /\ mem' = [mem EXCEPT ![(FlagsOf(regs[self][kk[self]]))] = SetB(mem[FlagsOf(regs[self][kk[self]])], PAUSE)]
                          /\ wc' = [wc EXCEPT ![self] = regs[self][kk[self]]]
                          /\ kk' = [kk EXCEPT ![self] = kk[self] + 1]
                          /\ stack' = [stack EXCEPT ![self] = << [ procedure |->  "wake",
                                                                   pc        |->  "bf_or" ] >>
                                                               \o stack[self]]
                          /\ pc' = [pc EXCEPT ![self] = "wk_fl"]
                     ELSE /\ pc' = [pc EXCEPT ![self] = "bf_w0"]
                          /\ UNCHANGED << mem, acc, uaf, wc, kk, stack >>
               /\ UNCHANGED << sb, lock, fsleep, wloc, spur, wkind, crlist, 
                               nhelp, started, cpulen, tcrd, mycpu, slot, func, 
                               rnest, cs, ncs, cnt, snap, queued, fin, bsnap, 
                               alive, errs, pci, opx, iv, pa, hd, tl, old, cur, 
                               nx, cbc, isrt, en, ec, res, gd, fc, dc, newc, 
                               cidef, cifl, cn, bk, regs, sci, ci, cac, fa, 
                               gps, sigs, insig, oalive, gold, ST, hheld, hent >>

bf_w0(self) == /\ pc[self] = "bf_w0"
               /\ kk' = [kk EXCEPT ![self] = 1]
               /\ pc' = [pc EXCEPT ![self] = "bf_wait"]
               /\ UNCHANGED << mem, sb, lock, acc, fsleep, wloc, spur, wkind, 
                               crlist, nhelp, started, cpulen, tcrd, mycpu, 
                               slot, func, rnest, cs, ncs, cnt, snap, queued, 
                               fin, bsnap, alive, uaf, errs, pci, opx, iv, pa, 
                               hd, tl, old, cur, nx, cbc, isrt, en, ec, wc, 
                               res, gd, fc, dc, newc, cidef, cifl, cn, bk, 
                               regs, sci, ci, cac, fa, gps, sigs, insig, 
                               oalive, gold, stack, ST, hheld, hent >>

bf_wait(self) == /\ pc[self] = "bf_wait"
                 /\ IF kk[self] <= Len(regs[self])
                       THEN /\ uaf' = (uaf \/ Dead((FlagsOf(regs[self][kk[self]]))))
                            /\ acc' = Ev(self, "ld", (FlagsOf(regs[self][kk[self]])), "-", "-", Rd(self, (FlagsOf(regs[self][kk[self]]))))
                            /\ IF Has(Rd(self, FlagsOf(regs[self][kk[self]])), PAUSED)
                                  THEN /\ kk' = [kk EXCEPT ![self] = kk[self] + 1]
                                  ELSE /\ TRUE
                                       /\ kk' = kk
                            /\ pc' = [pc EXCEPT ![self] = "bf_wait"]
                            /\ stack' = stack
                       ELSE /\ pc' = [pc EXCEPT ![self] = Head(stack[self]).pc]
                            /\ stack' = [stack EXCEPT ![self] = Tail(stack[self])]
                            /\ UNCHANGED << acc, uaf, kk >>
                 /\ UNCHANGED << mem, sb, lock, fsleep, wloc, spur, wkind, 
                                 crlist, nhelp, started, cpulen, tcrd, mycpu, 
                                 slot, func, rnest, cs, ncs, cnt, snap, queued, 
                                 fin, bsnap, alive, errs, pci, opx, iv, pa, hd, 
                                 tl, old, cur, nx, cbc, isrt, en, ec, wc, res, 
                                 gd, fc, dc, newc, cidef, cifl, cn, bk, regs, 
                                 sci, ci, cac, fa, gps, sigs, insig, oalive, 
                                 gold, ST, hheld, hent >>

before_fork(self) == bf_lock(self) \/ bf_or(self) \/ bf_w0(self)
                        \/ bf_wait(self)

af_0(self) == /\ pc[self] = "af_0"
              /\ regs' = [regs EXCEPT ![self] = crlist]
              /\ kk' = [kk EXCEPT ![self] = 1]
              /\ pc' = [pc EXCEPT ![self] = "af_and"]
              /\ UNCHANGED << mem, sb, lock, acc, fsleep, wloc, spur, wkind, 
                              crlist, nhelp, started, cpulen, tcrd, mycpu, 
                              slot, func, rnest, cs, ncs, cnt, snap, queued, 
                              fin, bsnap, alive, uaf, errs, pci, opx, iv, pa, 
                              hd, tl, old, cur, nx, cbc, isrt, en, ec, wc, res, 
                              gd, fc, dc, newc, cidef, cifl, cn, bk, sci, ci, 
                              cac, fa, gps, sigs, insig, oalive, gold, stack, 
                              ST, hheld, hent >>

af_and(self) == /\ pc[self] = "af_and"
                /\ IF kk[self] <= Len(regs[self])
                      THEN /\ Drained(self)
                           /\ acc' = Ev(self, "and", (FlagsOf(regs[self][kk[self]])), "xffffffef", "-", (ClrB(mem[FlagsOf(regs[self][kk[self]])], PAUSE)))
                           /\ uaf' = (uaf \/ Dead((FlagsOf(regs[self][kk[self]]))))
                           /\ mem' = [mem EXCEPT ![(FlagsOf(regs[self][kk[self]]))] = ClrB(mem[FlagsOf(regs[self][kk[self]])], PAUSE)]
                           /\ kk' = [kk EXCEPT ![self] = kk[self] + 1]
                           /\ pc' = [pc EXCEPT ![self] = "af_and"]
                      ELSE /\ pc' = [pc EXCEPT ![self] = "af_w0"]
                           /\ UNCHANGED << mem, acc, uaf, kk >>
                /\ UNCHANGED << sb, lock, fsleep, wloc, spur, wkind, crlist, 
                                nhelp, started, cpulen, tcrd, mycpu, slot, 
                                func, rnest, cs, ncs, cnt, snap, queued, fin, 
                                bsnap, alive, errs, pci, opx, iv, pa, hd, tl, 
                                old, cur, nx, cbc, isrt, en, ec, wc, res, gd, 
                                fc, dc, newc, cidef, cifl, cn, bk, regs, sci, 
                                ci, cac, fa, gps, sigs, insig, oalive, gold, 
                                stack, ST, hheld, hent >>

af_w0(self) == /\ pc[self] = "af_w0"
               /\ kk' = [kk EXCEPT ![self] = 1]
               /\ pc' = [pc EXCEPT ![self] = "af_wait"]
               /\ UNCHANGED << mem, sb, lock, acc, fsleep, wloc, spur, wkind, 
                               crlist, nhelp, started, cpulen, tcrd, mycpu, 
                               slot, func, rnest, cs, ncs, cnt, snap, queued, 
                               fin, bsnap, alive, uaf, errs, pci, opx, iv, pa, 
                               hd, tl, old, cur, nx, cbc, isrt, en, ec, wc, 
                               res, gd, fc, dc, newc, cidef, cifl, cn, bk, 
                               regs, sci, ci, cac, fa, gps, sigs, insig, 
                               oalive, gold, stack, ST, hheld, hent >>

af_wait(self) == /\ pc[self] = "af_wait"
                 /\ IF kk[self] <= Len(regs[self])
                       THEN /\ uaf' = (uaf \/ Dead((FlagsOf(regs[self][kk[self]]))))
                            /\ acc' = Ev(self, "ld", (FlagsOf(regs[self][kk[self]])), "-", "-", Rd(self, (FlagsOf(regs[self][kk[self]]))))
                            /\ IF ~Has(Rd(self, FlagsOf(regs[self][kk[self]])), PAUSED)
                                  THEN /\ kk' = [kk EXCEPT ![self] = kk[self] + 1]
                                  ELSE /\ TRUE
                                       /\ kk' = kk
                            /\ pc' = [pc EXCEPT ![self] = "af_wait"]
                       ELSE /\ pc' = [pc EXCEPT ![self] = "af_unl"]
                            /\ UNCHANGED << acc, uaf, kk >>
                 /\ UNCHANGED << mem, sb, lock, fsleep, wloc, spur, wkind, 
                                 crlist, nhelp, started, cpulen, tcrd, mycpu, 
                                 slot, func, rnest, cs, ncs, cnt, snap, queued, 
                                 fin, bsnap, alive, errs, pci, opx, iv, pa, hd, 
                                 tl, old, cur, nx, cbc, isrt, en, ec, wc, res, 
                                 gd, fc, dc, newc, cidef, cifl, cn, bk, regs, 
                                 sci, ci, cac, fa, gps, sigs, insig, oalive, 
                                 gold, stack, ST, hheld, hent >>

af_unl(self) == /\ pc[self] = "af_unl"
                /\ Drained(self)
                /\ lock' = "free"
                /\ acc' = Ev(self, "unlock", CM, "-", "-", "-")
                /\ pc' = [pc EXCEPT ![self] = Head(stack[self]).pc]
                /\ stack' = [stack EXCEPT ![self] = Tail(stack[self])]
                /\ UNCHANGED << mem, sb, fsleep, wloc, spur, wkind, crlist, 
                                nhelp, started, cpulen, tcrd, mycpu, slot, 
                                func, rnest, cs, ncs, cnt, snap, queued, fin, 
                                bsnap, alive, uaf, errs, pci, opx, iv, pa, hd, 
                                tl, old, cur, nx, cbc, isrt, en, ec, wc, res, 
                                gd, fc, dc, newc, cidef, cifl, cn, bk, regs, 
                                kk, sci, ci, cac, fa, gps, sigs, insig, oalive, 
                                gold, ST, hheld, hent >>

after_fork_parent(self) == af_0(self) \/ af_and(self) \/ af_w0(self)
                              \/ af_wait(self) \/ af_unl(self)

fl(self) == /\ pc[self] = "fl"
            /\ sb[FlOf[self]] # <<>>
            /\ /\ acc' = IF Tracing THEN [k |-> acc.k + 1, t |-> FlOf[self], op |-> "flush", var |-> Head(sb[FlOf[self]])[1],
                                        a |-> Head(sb[FlOf[self]])[2], b |-> "-", r |-> "-"] ELSE acc
               /\ mem' = [mem EXCEPT ![Head(sb[FlOf[self]])[1]] = Head(sb[FlOf[self]])[2]]
               /\ sb' = [sb EXCEPT ![FlOf[self]] = Tail(sb[FlOf[self]])]
            /\ pc' = [pc EXCEPT ![self] = "fl"]
            /\ UNCHANGED << lock, fsleep, wloc, spur, wkind, crlist, nhelp, 
                            started, cpulen, tcrd, mycpu, slot, func, rnest, 
                            cs, ncs, cnt, snap, queued, fin, bsnap, alive, uaf, 
                            errs, pci, opx, iv, pa, hd, tl, old, cur, nx, cbc, 
                            isrt, en, ec, wc, res, gd, fc, dc, newc, cidef, 
                            cifl, cn, bk, regs, kk, sci, ci, cac, fa, gps, 
                            sigs, insig, oalive, gold, stack, ST, hheld, hent >>

flusher(self) == fl(self)

sw(self) == /\ pc[self] = "sw"
            /\ spur > 0
            /\ \E p \in fsleep:
                 \E k \in {"SPURIOUS", "EINTR"}:
                   /\ fsleep' = fsleep \ {p}
                   /\ wkind' = [wkind EXCEPT ![p] = k]
                   /\ spur' = spur - 1
            /\ pc' = [pc EXCEPT ![self] = "sw"]
            /\ UNCHANGED << mem, sb, lock, acc, wloc, crlist, nhelp, started, 
                            cpulen, tcrd, mycpu, slot, func, rnest, cs, ncs, 
                            cnt, snap, queued, fin, bsnap, alive, uaf, errs, 
                            pci, opx, iv, pa, hd, tl, old, cur, nx, cbc, isrt, 
                            en, ec, wc, res, gd, fc, dc, newc, cidef, cifl, cn, 
                            bk, regs, kk, sci, ci, cac, fa, gps, sigs, insig, 
                            oalive, gold, stack, ST, hheld, hent >>

spurw(self) == sw(self)

sg_idle(self) == /\ pc[self] = "sg_idle"
                 /\ sigs < SigBudget /\ ~insig[ST[self]] /\ pc[ST[self]] \notin {"Done", "t_exit"} /\ ST[self] \notin fsleep /\ Drained(ST[self])
                 /\ sigs' = sigs + 1
                 /\ insig' = [insig EXCEPT ![ST[self]] = TRUE]
                 /\ hent' = [hent EXCEPT ![self] = <<rnest[ST[self]], cs[ST[self]]>>]
                 /\ acc' = Ev(ST[self], "sig_enter", "-", rnest[ST[self]], "-", IF rnest[ST[self]] > 0 THEN 1 ELSE 0)
                 /\ pc' = [pc EXCEPT ![self] = "sg_lock"]
                 /\ UNCHANGED << mem, sb, lock, fsleep, wloc, spur, wkind, 
                                 crlist, nhelp, started, cpulen, tcrd, mycpu, 
                                 slot, func, rnest, cs, ncs, cnt, snap, queued, 
                                 fin, bsnap, alive, uaf, errs, pci, opx, iv, 
                                 pa, hd, tl, old, cur, nx, cbc, isrt, en, ec, 
                                 wc, res, gd, fc, dc, newc, cidef, cifl, cn, 
                                 bk, regs, kk, sci, ci, cac, fa, gps, oalive, 
                                 gold, stack, ST, hheld >>

sg_lock(self) == /\ pc[self] = "sg_lock"
                 /\ IF rnest[ST[self]] = 0
                       THEN /\ cs' = [cs EXCEPT ![ST[self]] = ncs[ST[self]] + 1]
                            /\ ncs' = [ncs EXCEPT ![ST[self]] = ncs[ST[self]] + 1]
                       ELSE /\ TRUE
                            /\ UNCHANGED << cs, ncs >>
                 /\ rnest' = [rnest EXCEPT ![ST[self]] = rnest[ST[self]] + 1]
                 /\ acc' = Ev(ST[self], "rlock", "-", "-", "-", rnest'[ST[self]])
                 /\ pc' = [pc EXCEPT ![self] = "sg_deref"]
                 /\ UNCHANGED << mem, sb, lock, fsleep, wloc, spur, wkind, 
                                 crlist, nhelp, started, cpulen, tcrd, mycpu, 
                                 slot, func, cnt, snap, queued, fin, bsnap, 
                                 alive, uaf, errs, pci, opx, iv, pa, hd, tl, 
                                 old, cur, nx, cbc, isrt, en, ec, wc, res, gd, 
                                 fc, dc, newc, cidef, cifl, cn, bk, regs, kk, 
                                 sci, ci, cac, fa, gps, sigs, insig, oalive, 
                                 gold, stack, ST, hheld, hent >>

sg_deref(self) == /\ pc[self] = "sg_deref"
                  /\ hheld' = [hheld EXCEPT ![self] = Rd(ST[self], "gptr")]
                  /\ acc' = Ev(ST[self], "ld", "gptr", "-", "-", Rd(ST[self], "gptr"))
                  /\ pc' = [pc EXCEPT ![self] = "sg_use"]
                  /\ UNCHANGED << mem, sb, lock, fsleep, wloc, spur, wkind, 
                                  crlist, nhelp, started, cpulen, tcrd, mycpu, 
                                  slot, func, rnest, cs, ncs, cnt, snap, 
                                  queued, fin, bsnap, alive, uaf, errs, pci, 
                                  opx, iv, pa, hd, tl, old, cur, nx, cbc, isrt, 
                                  en, ec, wc, res, gd, fc, dc, newc, cidef, 
                                  cifl, cn, bk, regs, kk, sci, ci, cac, fa, 
                                  gps, sigs, insig, oalive, gold, stack, ST, 
                                  hent >>

sg_use(self) == /\ pc[self] = "sg_use"
                /\ IF ~oalive[hheld[self]]
                      THEN /\ uaf' = TRUE
                      ELSE /\ TRUE
                           /\ uaf' = uaf
                /\ pc' = [pc EXCEPT ![self] = "sg_unl"]
                /\ UNCHANGED << mem, sb, lock, acc, fsleep, wloc, spur, wkind, 
                                crlist, nhelp, started, cpulen, tcrd, mycpu, 
                                slot, func, rnest, cs, ncs, cnt, snap, queued, 
                                fin, bsnap, alive, errs, pci, opx, iv, pa, hd, 
                                tl, old, cur, nx, cbc, isrt, en, ec, wc, res, 
                                gd, fc, dc, newc, cidef, cifl, cn, bk, regs, 
                                kk, sci, ci, cac, fa, gps, sigs, insig, oalive, 
                                gold, stack, ST, hheld, hent >>

sg_unl(self) == /\ pc[self] = "sg_unl"
                /\ IF "sigleak" \notin Mut \/ hent[self][1] = 0
                      THEN /\ rnest' = [rnest EXCEPT ![ST[self]] = rnest[ST[self]] - 1]
                      ELSE /\ TRUE
                           /\ rnest' = rnest
                /\ IF rnest'[ST[self]] = 0
                      THEN /\ cs' = [cs EXCEPT ![ST[self]] = 0]
                      ELSE /\ TRUE
                           /\ cs' = cs
                /\ hheld' = [hheld EXCEPT ![self] = NULL]
                /\ acc' = Ev(ST[self], "runlock", "-", "-", "-", rnest'[ST[self]])
                /\ pc' = [pc EXCEPT ![self] = "sg_exit"]
                /\ UNCHANGED << mem, sb, lock, fsleep, wloc, spur, wkind, 
                                crlist, nhelp, started, cpulen, tcrd, mycpu, 
                                slot, func, ncs, cnt, snap, queued, fin, bsnap, 
                                alive, uaf, errs, pci, opx, iv, pa, hd, tl, 
                                old, cur, nx, cbc, isrt, en, ec, wc, res, gd, 
                                fc, dc, newc, cidef, cifl, cn, bk, regs, kk, 
                                sci, ci, cac, fa, gps, sigs, insig, oalive, 
                                gold, stack, ST, hent >>

sg_exit(self) == /\ pc[self] = "sg_exit"
                 /\ Drained(ST[self])
                 /\ IF <<rnest[ST[self]], cs[ST[self]]>> # hent[self]
                       THEN /\ errs' = (errs \cup {"SigRestores"})
                       ELSE /\ TRUE
                            /\ errs' = errs
                 /\ insig' = [insig EXCEPT ![ST[self]] = FALSE]
                 /\ hent' = [hent EXCEPT ![self] = <<0, 0>>]
                 /\ acc' = Ev(ST[self], "sig_exit", "-", rnest[ST[self]], "-", IF rnest[ST[self]] > 0 THEN 1 ELSE 0)
                 /\ pc' = [pc EXCEPT ![self] = "sg_idle"]
                 /\ UNCHANGED << mem, sb, lock, fsleep, wloc, spur, wkind, 
                                 crlist, nhelp, started, cpulen, tcrd, mycpu, 
                                 slot, func, rnest, cs, ncs, cnt, snap, queued, 
                                 fin, bsnap, alive, uaf, pci, opx, iv, pa, hd, 
                                 tl, old, cur, nx, cbc, isrt, en, ec, wc, res, 
                                 gd, fc, dc, newc, cidef, cifl, cn, bk, regs, 
                                 kk, sci, ci, cac, fa, gps, sigs, oalive, gold, 
                                 stack, ST, hheld >>

sig(self) == sg_idle(self) \/ sg_lock(self) \/ sg_deref(self)
                \/ sg_use(self) \/ sg_unl(self) \/ sg_exit(self)

h_idle(self) == /\ pc[self] = "h_idle"
                /\ started[self]
                /\ pc' = [pc EXCEPT ![self] = "h_flags"]
                /\ UNCHANGED << mem, sb, lock, acc, fsleep, wloc, spur, wkind, 
                                crlist, nhelp, started, cpulen, tcrd, mycpu, 
                                slot, func, rnest, cs, ncs, cnt, snap, queued, 
                                fin, bsnap, alive, uaf, errs, pci, opx, iv, pa, 
                                hd, tl, old, cur, nx, cbc, isrt, en, ec, wc, 
                                res, gd, fc, dc, newc, cidef, cifl, cn, bk, 
                                regs, kk, sci, ci, cac, fa, gps, sigs, insig, 
                                oalive, gold, stack, ST, hheld, hent >>

h_flags(self) == /\ pc[self] = "h_flags"
                 /\ uaf' = (uaf \/ Dead((FlagsOf(CrOf[self]))))
                 /\ acc' = Ev(self, "ld", (FlagsOf(CrOf[self])), "-", "-", Rd(self, (FlagsOf(CrOf[self]))))
                 /\ isrt' = [isrt EXCEPT ![self] = Has(Rd(self, FlagsOf(CrOf[self])), RT)]
                 /\ tcrd' = [tcrd EXCEPT ![self] = CrOf[self]]
                 /\ IF Has(Rd(self, FlagsOf(CrOf[self])), RT)
                       THEN /\ pc' = [pc EXCEPT ![self] = "h_top"]
                       ELSE /\ pc' = [pc EXCEPT ![self] = "h_dec0"]
                 /\ UNCHANGED << mem, sb, lock, fsleep, wloc, spur, wkind, 
                                 crlist, nhelp, started, cpulen, mycpu, slot, 
                                 func, rnest, cs, ncs, cnt, snap, queued, fin, 
                                 bsnap, alive, errs, pci, opx, iv, pa, hd, tl, 
                                 old, cur, nx, cbc, en, ec, wc, res, gd, fc, 
                                 dc, newc, cidef, cifl, cn, bk, regs, kk, sci, 
                                 ci, cac, fa, gps, sigs, insig, oalive, gold, 
                                 stack, ST, hheld, hent >>

h_dec0(self) == /\ pc[self] = "h_dec0"
                /\ Drained(self)
                /\ acc' = Ev(self, "dec", (FutexOf(CrOf[self])), 1, "-", (mem[FutexOf(CrOf[self])] - 1))
                /\ uaf' = (uaf \/ Dead((FutexOf(CrOf[self]))))
                /\ mem' = [mem EXCEPT ![(FutexOf(CrOf[self]))] = mem[FutexOf(CrOf[self])] - 1]
                /\ pc' = [pc EXCEPT ![self] = "h_mb0"]
                /\ UNCHANGED << sb, lock, fsleep, wloc, spur, wkind, crlist, 
                                nhelp, started, cpulen, tcrd, mycpu, slot, 
                                func, rnest, cs, ncs, cnt, snap, queued, fin, 
                                bsnap, alive, errs, pci, opx, iv, pa, hd, tl, 
                                old, cur, nx, cbc, isrt, en, ec, wc, res, gd, 
                                fc, dc, newc, cidef, cifl, cn, bk, regs, kk, 
                                sci, ci, cac, fa, gps, sigs, insig, oalive, 
                                gold, stack, ST, hheld, hent >>

h_mb0(self) == /\ pc[self] = "h_mb0"
               /\ Drained(self)
               /\ acc' = Ev(self, "mb", "-", "-", "-", "-")
               /\ pc' = [pc EXCEPT ![self] = "h_top"]
               /\ UNCHANGED << mem, sb, lock, fsleep, wloc, spur, wkind, 
                               crlist, nhelp, started, cpulen, tcrd, mycpu, 
                               slot, func, rnest, cs, ncs, cnt, snap, queued, 
                               fin, bsnap, alive, uaf, errs, pci, opx, iv, pa, 
                               hd, tl, old, cur, nx, cbc, isrt, en, ec, wc, 
                               res, gd, fc, dc, newc, cidef, cifl, cn, bk, 
                               regs, kk, sci, ci, cac, fa, gps, sigs, insig, 
                               oalive, gold, stack, ST, hheld, hent >>

h_top(self) == /\ pc[self] = "h_top"
               /\ uaf' = (uaf \/ Dead((FlagsOf(CrOf[self]))))
               /\ acc' = Ev(self, "ld", (FlagsOf(CrOf[self])), "-", "-", Rd(self, (FlagsOf(CrOf[self]))))
               /\ IF ~Has(Rd(self, FlagsOf(CrOf[self])), PAUSE)
                     THEN /\ pc' = [pc EXCEPT ![self] = "s_e1"]
                     ELSE /\ pc' = [pc EXCEPT ![self] = "p_or"]
               /\ UNCHANGED << mem, sb, lock, fsleep, wloc, spur, wkind, 
                               crlist, nhelp, started, cpulen, tcrd, mycpu, 
                               slot, func, rnest, cs, ncs, cnt, snap, queued, 
                               fin, bsnap, alive, errs, pci, opx, iv, pa, hd, 
                               tl, old, cur, nx, cbc, isrt, en, ec, wc, res, 
                               gd, fc, dc, newc, cidef, cifl, cn, bk, regs, kk, 
                               sci, ci, cac, fa, gps, sigs, insig, oalive, 
                               gold, stack, ST, hheld, hent >>

p_or(self) == /\ pc[self] = "p_or"
              /\ Drained(self)
              /\ acc' = Ev(self, "or", (FlagsOf(CrOf[self])), PAUSED, "-", (SetB(mem[FlagsOf(CrOf[self])], PAUSED)))
              /\ uaf' = (uaf \/ Dead((FlagsOf(CrOf[self]))))
              /\ mem' = [mem EXCEPT ![(FlagsOf(CrOf[self]))] = SetB(mem[FlagsOf(CrOf[self])], PAUSED)]
              /\ pc' = [pc EXCEPT ![self] = "p_wait"]
              /\ UNCHANGED << sb, lock, fsleep, wloc, spur, wkind, crlist, 
                              nhelp, started, cpulen, tcrd, mycpu, slot, func, 
                              rnest, cs, ncs, cnt, snap, queued, fin, bsnap, 
                              alive, errs, pci, opx, iv, pa, hd, tl, old, cur, 
                              nx, cbc, isrt, en, ec, wc, res, gd, fc, dc, newc, 
                              cidef, cifl, cn, bk, regs, kk, sci, ci, cac, fa, 
                              gps, sigs, insig, oalive, gold, stack, ST, hheld, 
                              hent >>

p_wait(self) == /\ pc[self] = "p_wait"
                /\ uaf' = (uaf \/ Dead((FlagsOf(CrOf[self]))))
                /\ acc' = Ev(self, "ld", (FlagsOf(CrOf[self])), "-", "-", Rd(self, (FlagsOf(CrOf[self]))))
                /\ IF Has(Rd(self, FlagsOf(CrOf[self])), PAUSE)
                      THEN /\ pc' = [pc EXCEPT ![self] = "p_wait"]
                      ELSE /\ pc' = [pc EXCEPT ![self] = "p_and"]
                /\ UNCHANGED << mem, sb, lock, fsleep, wloc, spur, wkind, 
                                crlist, nhelp, started, cpulen, tcrd, mycpu, 
                                slot, func, rnest, cs, ncs, cnt, snap, queued, 
                                fin, bsnap, alive, errs, pci, opx, iv, pa, hd, 
                                tl, old, cur, nx, cbc, isrt, en, ec, wc, res, 
                                gd, fc, dc, newc, cidef, cifl, cn, bk, regs, 
                                kk, sci, ci, cac, fa, gps, sigs, insig, oalive, 
                                gold, stack, ST, hheld, hent >>

p_and(self) == /\ pc[self] = "p_and"
               /\ Drained(self)
               /\ acc' = Ev(self, "and", (FlagsOf(CrOf[self])), "xffffffdf", "-", (ClrB(mem[FlagsOf(CrOf[self])], PAUSED)))
               /\ uaf' = (uaf \/ Dead((FlagsOf(CrOf[self]))))
               /\ mem' = [mem EXCEPT ![(FlagsOf(CrOf[self]))] = ClrB(mem[FlagsOf(CrOf[self])], PAUSED)]
               /\ pc' = [pc EXCEPT ![self] = "s_e1"]
               /\ UNCHANGED << sb, lock, fsleep, wloc, spur, wkind, crlist, 
                               nhelp, started, cpulen, tcrd, mycpu, slot, func, 
                               rnest, cs, ncs, cnt, snap, queued, fin, bsnap, 
                               alive, errs, pci, opx, iv, pa, hd, tl, old, cur, 
                               nx, cbc, isrt, en, ec, wc, res, gd, fc, dc, 
                               newc, cidef, cifl, cn, bk, regs, kk, sci, ci, 
                               cac, fa, gps, sigs, insig, oalive, gold, stack, 
                               ST, hheld, hent >>

s_e1(self) == /\ pc[self] = "s_e1"
              /\ uaf' = (uaf \/ Dead((NextOf(Hd(CrOf[self])))))
              /\ acc' = Ev(self, "ld", (NextOf(Hd(CrOf[self]))), "-", "-", Rd(self, (NextOf(Hd(CrOf[self])))))
              /\ IF Rd(self, NextOf(Hd(CrOf[self]))) # NULL
                    THEN /\ IF "gpfirst" \in Mut
                               THEN /\ pc' = [pc EXCEPT ![self] = "m_gp"]
                               ELSE /\ pc' = [pc EXCEPT ![self] = "s_xh"]
                    ELSE /\ pc' = [pc EXCEPT ![self] = "s_e2"]
              /\ UNCHANGED << mem, sb, lock, fsleep, wloc, spur, wkind, crlist, 
                              nhelp, started, cpulen, tcrd, mycpu, slot, func, 
                              rnest, cs, ncs, cnt, snap, queued, fin, bsnap, 
                              alive, errs, pci, opx, iv, pa, hd, tl, old, cur, 
                              nx, cbc, isrt, en, ec, wc, res, gd, fc, dc, newc, 
                              cidef, cifl, cn, bk, regs, kk, sci, ci, cac, fa, 
                              gps, sigs, insig, oalive, gold, stack, ST, hheld, 
                              hent >>

s_e2(self) == /\ pc[self] = "s_e2"
              /\ uaf' = (uaf \/ Dead((TailOf(CrOf[self]))))
              /\ acc' = Ev(self, "ld", (TailOf(CrOf[self])), "-", "-", Rd(self, (TailOf(CrOf[self]))))
              /\ IF Rd(self, TailOf(CrOf[self])) = Hd(CrOf[self])
                    THEN /\ pc' = [pc EXCEPT ![self] = "h_stop"]
                    ELSE /\ IF "gpfirst" \notin Mut
                               THEN /\ pc' = [pc EXCEPT ![self] = "s_xh"]
                               ELSE /\ pc' = [pc EXCEPT ![self] = "m_gp"]
              /\ UNCHANGED << mem, sb, lock, fsleep, wloc, spur, wkind, crlist, 
                              nhelp, started, cpulen, tcrd, mycpu, slot, func, 
                              rnest, cs, ncs, cnt, snap, queued, fin, bsnap, 
                              alive, errs, pci, opx, iv, pa, hd, tl, old, cur, 
                              nx, cbc, isrt, en, ec, wc, res, gd, fc, dc, newc, 
                              cidef, cifl, cn, bk, regs, kk, sci, ci, cac, fa, 
                              gps, sigs, insig, oalive, gold, stack, ST, hheld, 
                              hent >>

m_gp(self) == /\ pc[self] = "m_gp"
              /\ stack' = [stack EXCEPT ![self] = << [ procedure |->  "synchronize_rcu",
                                                       pc        |->  "s_xh" ] >>
                                                   \o stack[self]]
              /\ pc' = [pc EXCEPT ![self] = "gp_b"]
              /\ UNCHANGED << mem, sb, lock, acc, fsleep, wloc, spur, wkind, 
                              crlist, nhelp, started, cpulen, tcrd, mycpu, 
                              slot, func, rnest, cs, ncs, cnt, snap, queued, 
                              fin, bsnap, alive, uaf, errs, pci, opx, iv, pa, 
                              hd, tl, old, cur, nx, cbc, isrt, en, ec, wc, res, 
                              gd, fc, dc, newc, cidef, cifl, cn, bk, regs, kk, 
                              sci, ci, cac, fa, gps, sigs, insig, oalive, gold, 
                              ST, hheld, hent >>

s_xh(self) == /\ pc[self] = "s_xh"
              /\ Drained(self)
              /\ hd' = [hd EXCEPT ![self] = mem[(NextOf(Hd(CrOf[self])))]]
              /\ mem' = [mem EXCEPT ![(NextOf(Hd(CrOf[self])))] = NULL]
              /\ uaf' = (uaf \/ Dead((NextOf(Hd(CrOf[self])))))
              /\ acc' = Ev(self, "xchg", (NextOf(Hd(CrOf[self]))), NULL, "-", (hd'[self]))
              /\ IF hd'[self] # NULL
                    THEN /\ pc' = [pc EXCEPT ![self] = "s_mb"]
                    ELSE /\ pc' = [pc EXCEPT ![self] = "s_lt"]
              /\ UNCHANGED << sb, lock, fsleep, wloc, spur, wkind, crlist, 
                              nhelp, started, cpulen, tcrd, mycpu, slot, func, 
                              rnest, cs, ncs, cnt, snap, queued, fin, bsnap, 
                              alive, errs, pci, opx, iv, pa, tl, old, cur, nx, 
                              cbc, isrt, en, ec, wc, res, gd, fc, dc, newc, 
                              cidef, cifl, cn, bk, regs, kk, sci, ci, cac, fa, 
                              gps, sigs, insig, oalive, gold, stack, ST, hheld, 
                              hent >>

s_lt(self) == /\ pc[self] = "s_lt"
              /\ uaf' = (uaf \/ Dead((TailOf(CrOf[self]))))
              /\ acc' = Ev(self, "ld", (TailOf(CrOf[self])), "-", "-", Rd(self, (TailOf(CrOf[self]))))
              /\ IF Rd(self, TailOf(CrOf[self])) = Hd(CrOf[self])
                    THEN /\ pc' = [pc EXCEPT ![self] = "h_stop"]
                    ELSE /\ pc' = [pc EXCEPT ![self] = "s_xh"]
              /\ UNCHANGED << mem, sb, lock, fsleep, wloc, spur, wkind, crlist, 
                              nhelp, started, cpulen, tcrd, mycpu, slot, func, 
                              rnest, cs, ncs, cnt, snap, queued, fin, bsnap, 
                              alive, errs, pci, opx, iv, pa, hd, tl, old, cur, 
                              nx, cbc, isrt, en, ec, wc, res, gd, fc, dc, newc, 
                              cidef, cifl, cn, bk, regs, kk, sci, ci, cac, fa, 
                              gps, sigs, insig, oalive, gold, stack, ST, hheld, 
                              hent >>

s_mb(self) == /\ pc[self] = "s_mb"
              /\ Drained(self)
              /\ acc' = Ev(self, "mb", "-", "-", "-", "-")
              /\ pc' = [pc EXCEPT ![self] = "s_xt"]
              /\ UNCHANGED << mem, sb, lock, fsleep, wloc, spur, wkind, crlist, 
                              nhelp, started, cpulen, tcrd, mycpu, slot, func, 
                              rnest, cs, ncs, cnt, snap, queued, fin, bsnap, 
                              alive, uaf, errs, pci, opx, iv, pa, hd, tl, old, 
                              cur, nx, cbc, isrt, en, ec, wc, res, gd, fc, dc, 
                              newc, cidef, cifl, cn, bk, regs, kk, sci, ci, 
                              cac, fa, gps, sigs, insig, oalive, gold, stack, 
                              ST, hheld, hent >>

s_xt(self) == /\ pc[self] = "s_xt"
              /\ Drained(self)
              /\ tl' = [tl EXCEPT ![self] = mem[(TailOf(CrOf[self]))]]
              /\ mem' = [mem EXCEPT ![(TailOf(CrOf[self]))] = Hd(CrOf[self])]
              /\ uaf' = (uaf \/ Dead((TailOf(CrOf[self]))))
              /\ acc' = Ev(self, "xchg", (TailOf(CrOf[self])), (Hd(CrOf[self])), "-", (tl'[self]))
              /\ cur' = [cur EXCEPT ![self] = hd[self]]
              /\ cbc' = [cbc EXCEPT ![self] = 0]
              /\ IF "nogp" \in Mut \/ "gpfirst" \in Mut
                    THEN /\ pc' = [pc EXCEPT ![self] = "it_ld"]
                    ELSE /\ pc' = [pc EXCEPT ![self] = "h_gp"]
              /\ UNCHANGED << sb, lock, fsleep, wloc, spur, wkind, crlist, 
                              nhelp, started, cpulen, tcrd, mycpu, slot, func, 
                              rnest, cs, ncs, cnt, snap, queued, fin, bsnap, 
                              alive, errs, pci, opx, iv, pa, hd, old, nx, isrt, 
                              en, ec, wc, res, gd, fc, dc, newc, cidef, cifl, 
                              cn, bk, regs, kk, sci, ci, cac, fa, gps, sigs, 
                              insig, oalive, gold, stack, ST, hheld, hent >>

h_gp(self) == /\ pc[self] = "h_gp"
              /\ stack' = [stack EXCEPT ![self] = << [ procedure |->  "synchronize_rcu",
                                                       pc        |->  "it_ld" ] >>
                                                   \o stack[self]]
              /\ pc' = [pc EXCEPT ![self] = "gp_b"]
              /\ UNCHANGED << mem, sb, lock, acc, fsleep, wloc, spur, wkind, 
                              crlist, nhelp, started, cpulen, tcrd, mycpu, 
                              slot, func, rnest, cs, ncs, cnt, snap, queued, 
                              fin, bsnap, alive, uaf, errs, pci, opx, iv, pa, 
                              hd, tl, old, cur, nx, cbc, isrt, en, ec, wc, res, 
                              gd, fc, dc, newc, cidef, cifl, cn, bk, regs, kk, 
                              sci, ci, cac, fa, gps, sigs, insig, oalive, gold, 
                              ST, hheld, hent >>

it_ld(self) == /\ pc[self] = "it_ld"
               /\ nx' = [nx EXCEPT ![self] = Rd(self, (NextOf(cur[self])))]
               /\ uaf' = (uaf \/ Dead((NextOf(cur[self]))))
               /\ acc' = Ev(self, "ld", (NextOf(cur[self])), "-", "-", Rd(self, (NextOf(cur[self]))))
               /\ IF nx'[self] = NULL /\ cur[self] # tl[self]
                     THEN /\ pc' = [pc EXCEPT ![self] = "it_ld"]
                     ELSE /\ pc' = [pc EXCEPT ![self] = "it_inv"]
               /\ UNCHANGED << mem, sb, lock, fsleep, wloc, spur, wkind, 
                               crlist, nhelp, started, cpulen, tcrd, mycpu, 
                               slot, func, rnest, cs, ncs, cnt, snap, queued, 
                               fin, bsnap, alive, errs, pci, opx, iv, pa, hd, 
                               tl, old, cur, cbc, isrt, en, ec, wc, res, gd, 
                               fc, dc, newc, cidef, cifl, cn, bk, regs, kk, 
                               sci, ci, cac, fa, gps, sigs, insig, oalive, 
                               gold, stack, ST, hheld, hent >>

it_re(self) == /\ pc[self] = "it_re"
               /\ cn' = [cn EXCEPT ![self] = Re[cur[self]]]
               /\ snap' = [snap EXCEPT ![Re[cur[self]]] = cs]
               /\ acc' = Ev(self, "call", Re[cur[self]], "call", "-", "-")
               /\ stack' = [stack EXCEPT ![self] = << [ procedure |->  "call_rcu",
                                                        pc        |->  "it_rr" ] >>
                                                    \o stack[self]]
               /\ pc' = [pc EXCEPT ![self] = "cr_lock"]
               /\ UNCHANGED << mem, sb, lock, fsleep, wloc, spur, wkind, 
                               crlist, nhelp, started, cpulen, tcrd, mycpu, 
                               slot, func, rnest, cs, ncs, cnt, queued, fin, 
                               bsnap, alive, uaf, errs, pci, opx, iv, pa, hd, 
                               tl, old, cur, nx, cbc, isrt, en, ec, wc, res, 
                               gd, fc, dc, newc, cidef, cifl, bk, regs, kk, 
                               sci, ci, cac, fa, gps, sigs, insig, oalive, 
                               gold, ST, hheld, hent >>

it_rr(self) == /\ pc[self] = "it_rr"
               /\ queued' = (queued \cup {cn[self]})
               /\ acc' = Ev(self, "ret", "-", "-", "-", "-")
               /\ pc' = [pc EXCEPT ![self] = "it_end"]
               /\ UNCHANGED << mem, sb, lock, fsleep, wloc, spur, wkind, 
                               crlist, nhelp, started, cpulen, tcrd, mycpu, 
                               slot, func, rnest, cs, ncs, cnt, snap, fin, 
                               bsnap, alive, uaf, errs, pci, opx, iv, pa, hd, 
                               tl, old, cur, nx, cbc, isrt, en, ec, wc, res, 
                               gd, fc, dc, newc, cidef, cifl, cn, bk, regs, kk, 
                               sci, ci, cac, fa, gps, sigs, insig, oalive, 
                               gold, stack, ST, hheld, hent >>

it_end(self) == /\ pc[self] = "it_end"
                /\ fin' = (fin \cup {cur[self]})
                /\ acc' = Ev(self, "cbend", cur[self], "-", "-", "-")
                /\ cbc' = [cbc EXCEPT ![self] = cbc[self] + 1]
                /\ cur' = [cur EXCEPT ![self] = nx[self]]
                /\ IF nx[self] # NULL
                      THEN /\ pc' = [pc EXCEPT ![self] = "it_ld"]
                      ELSE /\ pc' = [pc EXCEPT ![self] = "h_sub"]
                /\ UNCHANGED << mem, sb, lock, fsleep, wloc, spur, wkind, 
                                crlist, nhelp, started, cpulen, tcrd, mycpu, 
                                slot, func, rnest, cs, ncs, cnt, snap, queued, 
                                bsnap, alive, uaf, errs, pci, opx, iv, pa, hd, 
                                tl, old, nx, isrt, en, ec, wc, res, gd, fc, dc, 
                                newc, cidef, cifl, cn, bk, regs, kk, sci, ci, 
                                cac, fa, gps, sigs, insig, oalive, gold, stack, 
                                ST, hheld, hent >>

it_inv(self) == /\ pc[self] = "it_inv"
                /\ IF cur[self] \in Works
                      THEN /\ IF func[cur[self]] # "barrier_complete"
                                 THEN /\ errs' = (errs \cup {"RightArg"})
                                 ELSE /\ TRUE
                                      /\ errs' = errs
                           /\ bk' = [bk EXCEPT ![self] = WComp[cur[self]]]
                           /\ stack' = [stack EXCEPT ![self] = << [ procedure |->  "barrier_complete",
                                                                    pc        |->  "it_nxt" ] >>
                                                                \o stack[self]]
                           /\ pc' = [pc EXCEPT ![self] = "bc_sub"]
                           /\ UNCHANGED << acc, cnt >>
                      ELSE /\ IF cnt[cur[self]] >= 1
                                 THEN /\ errs' = (errs \cup {"AtMostOnce"})
                                 ELSE /\ IF StillOpen(snap[cur[self]])
                                            THEN /\ errs' = (errs \cup {"AfterGP"})
                                            ELSE /\ IF func[cur[self]] # FName(cur[self])
                                                       THEN /\ errs' = (errs \cup {"RightArg"})
                                                       ELSE /\ TRUE
                                                            /\ errs' = errs
                           /\ cnt' = [cnt EXCEPT ![cur[self]] = cnt[cur[self]] + 1]
                           /\ acc' = Ev(self, "cb", cur[self], func[cur[self]], "-", "-")
                           /\ IF Re[cur[self]] = "-"
                                 THEN /\ pc' = [pc EXCEPT ![self] = "it_end"]
                                 ELSE /\ pc' = [pc EXCEPT ![self] = "it_re"]
                           /\ UNCHANGED << bk, stack >>
                /\ UNCHANGED << mem, sb, lock, fsleep, wloc, spur, wkind, 
                                crlist, nhelp, started, cpulen, tcrd, mycpu, 
                                slot, func, rnest, cs, ncs, snap, queued, fin, 
                                bsnap, alive, uaf, pci, opx, iv, pa, hd, tl, 
                                old, cur, nx, cbc, isrt, en, ec, wc, res, gd, 
                                fc, dc, newc, cidef, cifl, cn, regs, kk, sci, 
                                ci, cac, fa, gps, sigs, insig, oalive, gold, 
                                ST, hheld, hent >>

it_nxt(self) == /\ pc[self] = "it_nxt"
                /\ cbc' = [cbc EXCEPT ![self] = cbc[self] + 1]
                /\ cur' = [cur EXCEPT ![self] = nx[self]]
                /\ IF nx[self] # NULL
                      THEN /\ pc' = [pc EXCEPT ![self] = "it_ld"]
                      ELSE /\ pc' = [pc EXCEPT ![self] = "h_sub"]
                /\ UNCHANGED << mem, sb, lock, acc, fsleep, wloc, spur, wkind, 
                                crlist, nhelp, started, cpulen, tcrd, mycpu, 
                                slot, func, rnest, cs, ncs, cnt, snap, queued, 
                                fin, bsnap, alive, uaf, errs, pci, opx, iv, pa, 
                                hd, tl, old, nx, isrt, en, ec, wc, res, gd, fc, 
                                dc, newc, cidef, cifl, cn, bk, regs, kk, sci, 
                                ci, cac, fa, gps, sigs, insig, oalive, gold, 
                                stack, ST, hheld, hent >>

h_sub(self) == /\ pc[self] = "h_sub"
               /\ Drained(self)
               /\ acc' = Ev(self, "add", (QlenOf(CrOf[self])), (-cbc[self]), "-", (mem[QlenOf(CrOf[self])] - cbc[self]))
               /\ uaf' = (uaf \/ Dead((QlenOf(CrOf[self]))))
               /\ mem' = [mem EXCEPT ![(QlenOf(CrOf[self]))] = mem[QlenOf(CrOf[self])] - cbc[self]]
               /\ pc' = [pc EXCEPT ![self] = "h_stop"]
               /\ UNCHANGED << sb, lock, fsleep, wloc, spur, wkind, crlist, 
                               nhelp, started, cpulen, tcrd, mycpu, slot, func, 
                               rnest, cs, ncs, cnt, snap, queued, fin, bsnap, 
                               alive, errs, pci, opx, iv, pa, hd, tl, old, cur, 
                               nx, cbc, isrt, en, ec, wc, res, gd, fc, dc, 
                               newc, cidef, cifl, cn, bk, regs, kk, sci, ci, 
                               cac, fa, gps, sigs, insig, oalive, gold, stack, 
                               ST, hheld, hent >>

h_stop(self) == /\ pc[self] = "h_stop"
                /\ uaf' = (uaf \/ Dead((FlagsOf(CrOf[self]))))
                /\ acc' = Ev(self, "ld", (FlagsOf(CrOf[self])), "-", "-", Rd(self, (FlagsOf(CrOf[self]))))
                /\ hd' = [hd EXCEPT ![self] = NULL]
                /\ tl' = [tl EXCEPT ![self] = NULL]
                /\ cur' = [cur EXCEPT ![self] = NULL]
                /\ nx' = [nx EXCEPT ![self] = NULL]
                /\ cbc' = [cbc EXCEPT ![self] = 0]
                /\ IF Has(Rd(self, FlagsOf(CrOf[self])), STOP)
                      THEN /\ IF isrt[self]
                                 THEN /\ pc' = [pc EXCEPT ![self] = "o_or"]
                                 ELSE /\ pc' = [pc EXCEPT ![self] = "o_mb"]
                      ELSE /\ IF isrt[self]
                                 THEN /\ pc' = [pc EXCEPT ![self] = "h_top"]
                                 ELSE /\ pc' = [pc EXCEPT ![self] = "h_e1"]
                /\ UNCHANGED << mem, sb, lock, fsleep, wloc, spur, wkind, 
                                crlist, nhelp, started, cpulen, tcrd, mycpu, 
                                slot, func, rnest, cs, ncs, cnt, snap, queued, 
                                fin, bsnap, alive, errs, pci, opx, iv, pa, old, 
                                isrt, en, ec, wc, res, gd, fc, dc, newc, cidef, 
                                cifl, cn, bk, regs, kk, sci, ci, cac, fa, gps, 
                                sigs, insig, oalive, gold, stack, ST, hheld, 
                                hent >>

h_e1(self) == /\ pc[self] = "h_e1"
              /\ uaf' = (uaf \/ Dead((NextOf(Hd(CrOf[self])))))
              /\ acc' = Ev(self, "ld", (NextOf(Hd(CrOf[self]))), "-", "-", Rd(self, (NextOf(Hd(CrOf[self])))))
              /\ IF Rd(self, NextOf(Hd(CrOf[self]))) # NULL
                    THEN /\ pc' = [pc EXCEPT ![self] = "h_top"]
                    ELSE /\ pc' = [pc EXCEPT ![self] = "h_e2"]
              /\ UNCHANGED << mem, sb, lock, fsleep, wloc, spur, wkind, crlist, 
                              nhelp, started, cpulen, tcrd, mycpu, slot, func, 
                              rnest, cs, ncs, cnt, snap, queued, fin, bsnap, 
                              alive, errs, pci, opx, iv, pa, hd, tl, old, cur, 
                              nx, cbc, isrt, en, ec, wc, res, gd, fc, dc, newc, 
                              cidef, cifl, cn, bk, regs, kk, sci, ci, cac, fa, 
                              gps, sigs, insig, oalive, gold, stack, ST, hheld, 
                              hent >>

h_e2(self) == /\ pc[self] = "h_e2"
              /\ uaf' = (uaf \/ Dead((TailOf(CrOf[self]))))
              /\ acc' = Ev(self, "ld", (TailOf(CrOf[self])), "-", "-", Rd(self, (TailOf(CrOf[self]))))
              /\ IF Rd(self, TailOf(CrOf[self])) # Hd(CrOf[self])
                    THEN /\ pc' = [pc EXCEPT ![self] = "h_top"]
                    ELSE /\ pc' = [pc EXCEPT ![self] = "w_mb"]
              /\ UNCHANGED << mem, sb, lock, fsleep, wloc, spur, wkind, crlist, 
                              nhelp, started, cpulen, tcrd, mycpu, slot, func, 
                              rnest, cs, ncs, cnt, snap, queued, fin, bsnap, 
                              alive, errs, pci, opx, iv, pa, hd, tl, old, cur, 
                              nx, cbc, isrt, en, ec, wc, res, gd, fc, dc, newc, 
                              cidef, cifl, cn, bk, regs, kk, sci, ci, cac, fa, 
                              gps, sigs, insig, oalive, gold, stack, ST, hheld, 
                              hent >>

w_mb(self) == /\ pc[self] = "w_mb"
              /\ Drained(self)
              /\ acc' = Ev(self, "mb", "-", "-", "-", "-")
              /\ pc' = [pc EXCEPT ![self] = "w_ld"]
              /\ UNCHANGED << mem, sb, lock, fsleep, wloc, spur, wkind, crlist, 
                              nhelp, started, cpulen, tcrd, mycpu, slot, func, 
                              rnest, cs, ncs, cnt, snap, queued, fin, bsnap, 
                              alive, uaf, errs, pci, opx, iv, pa, hd, tl, old, 
                              cur, nx, cbc, isrt, en, ec, wc, res, gd, fc, dc, 
                              newc, cidef, cifl, cn, bk, regs, kk, sci, ci, 
                              cac, fa, gps, sigs, insig, oalive, gold, stack, 
                              ST, hheld, hent >>

w_ld(self) == /\ pc[self] = "w_ld"
              /\ uaf' = (uaf \/ Dead((FutexOf(CrOf[self]))))
              /\ acc' = Ev(self, "ld", (FutexOf(CrOf[self])), "-", "-", Rd(self, (FutexOf(CrOf[self]))))
              /\ IF Rd(self, FutexOf(CrOf[self])) # -1
                    THEN /\ pc' = [pc EXCEPT ![self] = "w_dec"]
                    ELSE /\ pc' = [pc EXCEPT ![self] = "w_fwait"]
              /\ UNCHANGED << mem, sb, lock, fsleep, wloc, spur, wkind, crlist, 
                              nhelp, started, cpulen, tcrd, mycpu, slot, func, 
                              rnest, cs, ncs, cnt, snap, queued, fin, bsnap, 
                              alive, errs, pci, opx, iv, pa, hd, tl, old, cur, 
                              nx, cbc, isrt, en, ec, wc, res, gd, fc, dc, newc, 
                              cidef, cifl, cn, bk, regs, kk, sci, ci, cac, fa, 
                              gps, sigs, insig, oalive, gold, stack, ST, hheld, 
                              hent >>

w_fwait(self) == /\ pc[self] = "w_fwait"
                 /\ Drained(self)
                 /\ uaf' = (uaf \/ Dead(FutexOf(CrOf[self])))
                 /\ IF mem[FutexOf(CrOf[self])] = -1
                       THEN /\ fsleep' = (fsleep \cup {self})
                            /\ wloc' = [wloc EXCEPT ![self] = FutexOf(CrOf[self])]
                            /\ acc' = Ev(self, "fwait", FutexOf(CrOf[self]), -1, "-", "SLEEP")
                            /\ pc' = [pc EXCEPT ![self] = "w_fwoke"]
                       ELSE /\ acc' = Ev(self, "fwait", FutexOf(CrOf[self]), -1, "-", "EAGAIN")
                            /\ pc' = [pc EXCEPT ![self] = "w_dec"]
                            /\ UNCHANGED << fsleep, wloc >>
                 /\ UNCHANGED << mem, sb, lock, spur, wkind, crlist, nhelp, 
                                 started, cpulen, tcrd, mycpu, slot, func, 
                                 rnest, cs, ncs, cnt, snap, queued, fin, bsnap, 
                                 alive, errs, pci, opx, iv, pa, hd, tl, old, 
                                 cur, nx, cbc, isrt, en, ec, wc, res, gd, fc, 
                                 dc, newc, cidef, cifl, cn, bk, regs, kk, sci, 
                                 ci, cac, fa, gps, sigs, insig, oalive, gold, 
                                 stack, ST, hheld, hent >>

w_fwoke(self) == /\ pc[self] = "w_fwoke"
                 /\ self \notin fsleep
                 /\ acc' = Ev(self, "fwoke", FutexOf(CrOf[self]), "-", "-", wkind[self])
                 /\ wkind' = [wkind EXCEPT ![self] = "WAKE"]
                 /\ pc' = [pc EXCEPT ![self] = "w_ld"]
                 /\ UNCHANGED << mem, sb, lock, fsleep, wloc, spur, crlist, 
                                 nhelp, started, cpulen, tcrd, mycpu, slot, 
                                 func, rnest, cs, ncs, cnt, snap, queued, fin, 
                                 bsnap, alive, uaf, errs, pci, opx, iv, pa, hd, 
                                 tl, old, cur, nx, cbc, isrt, en, ec, wc, res, 
                                 gd, fc, dc, newc, cidef, cifl, cn, bk, regs, 
                                 kk, sci, ci, cac, fa, gps, sigs, insig, 
                                 oalive, gold, stack, ST, hheld, hent >>

w_dec(self) == /\ pc[self] = "w_dec"
               /\ Drained(self)
               /\ acc' = Ev(self, "dec", (FutexOf(CrOf[self])), 1, "-", (mem[FutexOf(CrOf[self])] - 1))
               /\ uaf' = (uaf \/ Dead((FutexOf(CrOf[self]))))
               /\ mem' = [mem EXCEPT ![(FutexOf(CrOf[self]))] = mem[FutexOf(CrOf[self])] - 1]
               /\ pc' = [pc EXCEPT ![self] = "w_mb2"]
               /\ UNCHANGED << sb, lock, fsleep, wloc, spur, wkind, crlist, 
                               nhelp, started, cpulen, tcrd, mycpu, slot, func, 
                               rnest, cs, ncs, cnt, snap, queued, fin, bsnap, 
                               alive, errs, pci, opx, iv, pa, hd, tl, old, cur, 
                               nx, cbc, isrt, en, ec, wc, res, gd, fc, dc, 
                               newc, cidef, cifl, cn, bk, regs, kk, sci, ci, 
                               cac, fa, gps, sigs, insig, oalive, gold, stack, 
                               ST, hheld, hent >>

w_mb2(self) == /\ pc[self] = "w_mb2"
               /\ Drained(self)
               /\ acc' = Ev(self, "mb", "-", "-", "-", "-")
               /\ pc' = [pc EXCEPT ![self] = "h_top"]
               /\ UNCHANGED << mem, sb, lock, fsleep, wloc, spur, wkind, 
                               crlist, nhelp, started, cpulen, tcrd, mycpu, 
                               slot, func, rnest, cs, ncs, cnt, snap, queued, 
                               fin, bsnap, alive, uaf, errs, pci, opx, iv, pa, 
                               hd, tl, old, cur, nx, cbc, isrt, en, ec, wc, 
                               res, gd, fc, dc, newc, cidef, cifl, cn, bk, 
                               regs, kk, sci, ci, cac, fa, gps, sigs, insig, 
                               oalive, gold, stack, ST, hheld, hent >>

o_mb(self) == /\ pc[self] = "o_mb"
              /\ Drained(self)
              /\ acc' = Ev(self, "mb", "-", "-", "-", "-")
              /\ pc' = [pc EXCEPT ![self] = "o_st"]
              /\ UNCHANGED << mem, sb, lock, fsleep, wloc, spur, wkind, crlist, 
                              nhelp, started, cpulen, tcrd, mycpu, slot, func, 
                              rnest, cs, ncs, cnt, snap, queued, fin, bsnap, 
                              alive, uaf, errs, pci, opx, iv, pa, hd, tl, old, 
                              cur, nx, cbc, isrt, en, ec, wc, res, gd, fc, dc, 
                              newc, cidef, cifl, cn, bk, regs, kk, sci, ci, 
                              cac, fa, gps, sigs, insig, oalive, gold, stack, 
                              ST, hheld, hent >>

o_st(self) == /\ pc[self] = "o_st"
              /\ IF TSO
                    THEN /\ Len(sb[self]) < SBMax
                         /\ sb' = [sb EXCEPT ![self] = Append(sb[self], <<(FutexOf(CrOf[self])), 0>>)]
                         /\ mem' = mem
                    ELSE /\ mem' = [mem EXCEPT ![(FutexOf(CrOf[self]))] = 0]
                         /\ sb' = sb
              /\ uaf' = (uaf \/ Dead((FutexOf(CrOf[self]))))
              /\ acc' = Ev(self, "st", (FutexOf(CrOf[self])), 0, "-", "-")
              /\ pc' = [pc EXCEPT ![self] = "o_or"]
              /\ UNCHANGED << lock, fsleep, wloc, spur, wkind, crlist, nhelp, 
                              started, cpulen, tcrd, mycpu, slot, func, rnest, 
                              cs, ncs, cnt, snap, queued, fin, bsnap, alive, 
                              errs, pci, opx, iv, pa, hd, tl, old, cur, nx, 
                              cbc, isrt, en, ec, wc, res, gd, fc, dc, newc, 
                              cidef, cifl, cn, bk, regs, kk, sci, ci, cac, fa, 
                              gps, sigs, insig, oalive, gold, stack, ST, hheld, 
                              hent >>

o_or(self) == /\ pc[self] = "o_or"
              /\ Drained(self)
              /\ acc' = Ev(self, "or", (FlagsOf(CrOf[self])), STOPPED, "-", (SetB(mem[FlagsOf(CrOf[self])], STOPPED)))
              /\ uaf' = (uaf \/ Dead((FlagsOf(CrOf[self]))))
              /\ mem' = [mem EXCEPT ![(FlagsOf(CrOf[self]))] = SetB(mem[FlagsOf(CrOf[self])], STOPPED)]
              /\ pc' = [pc EXCEPT ![self] = "h_exit"]
              /\ UNCHANGED << sb, lock, fsleep, wloc, spur, wkind, crlist, 
                              nhelp, started, cpulen, tcrd, mycpu, slot, func, 
                              rnest, cs, ncs, cnt, snap, queued, fin, bsnap, 
                              alive, errs, pci, opx, iv, pa, hd, tl, old, cur, 
                              nx, cbc, isrt, en, ec, wc, res, gd, fc, dc, newc, 
                              cidef, cifl, cn, bk, regs, kk, sci, ci, cac, fa, 
                              gps, sigs, insig, oalive, gold, stack, ST, hheld, 
                              hent >>

h_exit(self) == /\ pc[self] = "h_exit"
                /\ Drained(self)
                /\ acc' = Ev(self, "exit", "-", "-", "-", "-")
                /\ pc' = [pc EXCEPT ![self] = "Done"]
                /\ UNCHANGED << mem, sb, lock, fsleep, wloc, spur, wkind, 
                                crlist, nhelp, started, cpulen, tcrd, mycpu, 
                                slot, func, rnest, cs, ncs, cnt, snap, queued, 
                                fin, bsnap, alive, uaf, errs, pci, opx, iv, pa, 
                                hd, tl, old, cur, nx, cbc, isrt, en, ec, wc, 
                                res, gd, fc, dc, newc, cidef, cifl, cn, bk, 
                                regs, kk, sci, ci, cac, fa, gps, sigs, insig, 
                                oalive, gold, stack, ST, hheld, hent >>

helper(self) == h_idle(self) \/ h_flags(self) \/ h_dec0(self)
                   \/ h_mb0(self) \/ h_top(self) \/ p_or(self)
                   \/ p_wait(self) \/ p_and(self) \/ s_e1(self)
                   \/ s_e2(self) \/ m_gp(self) \/ s_xh(self) \/ s_lt(self)
                   \/ s_mb(self) \/ s_xt(self) \/ h_gp(self) \/ it_ld(self)
                   \/ it_re(self) \/ it_rr(self) \/ it_end(self)
                   \/ it_inv(self) \/ it_nxt(self) \/ h_sub(self)
                   \/ h_stop(self) \/ h_e1(self) \/ h_e2(self)
                   \/ w_mb(self) \/ w_ld(self) \/ w_fwait(self)
                   \/ w_fwoke(self) \/ w_dec(self) \/ w_mb2(self)
                   \/ o_mb(self) \/ o_st(self) \/ o_or(self)
                   \/ h_exit(self)

t_top(self) == /\ pc[self] = "t_top"
               /\ IF pci[self] <= Len(Prog[self])
                     THEN /\ opx' = [opx EXCEPT ![self] = Prog[self][pci[self]]]
                          /\ IF opx'[self].op = "rlock"
                                THEN /\ IF rnest[self] = 0
                                           THEN /\ cs' = [cs EXCEPT ![self] = ncs[self] + 1]
                                                /\ ncs' = [ncs EXCEPT ![self] = ncs[self] + 1]
                                           ELSE /\ TRUE
                                                /\ UNCHANGED << cs, ncs >>
                                     /\ rnest' = [rnest EXCEPT ![self] = rnest[self] + 1]
                                     /\ pci' = [pci EXCEPT ![self] = pci[self] + 1]
                                     /\ acc' = Ev(self, "rlock", "-", "-", "-", rnest'[self])
                                     /\ pc' = [pc EXCEPT ![self] = "t_top"]
                                     /\ UNCHANGED << tcrd, mycpu, snap, bsnap, 
                                                     alive, en, res, fc, cidef, 
                                                     cifl, cn, bk, sci, oalive, 
                                                     gold, stack >>
                                ELSE /\ IF opx'[self].op = "runlock"
                                           THEN /\ rnest' = [rnest EXCEPT ![self] = rnest[self] - 1]
                                                /\ pci' = [pci EXCEPT ![self] = pci[self] + 1]
                                                /\ IF rnest'[self] = 0
                                                      THEN /\ cs' = [cs EXCEPT ![self] = 0]
                                                      ELSE /\ TRUE
                                                           /\ cs' = cs
                                                /\ acc' = Ev(self, "runlock", "-", "-", "-", rnest'[self])
                                                /\ pc' = [pc EXCEPT ![self] = "t_top"]
                                                /\ UNCHANGED << tcrd, mycpu, 
                                                                snap, bsnap, 
                                                                alive, en, res, 
                                                                fc, cidef, 
                                                                cifl, cn, bk, 
                                                                sci, oalive, 
                                                                gold, stack >>
                                           ELSE /\ IF opx'[self].op = "cpu"
                                                      THEN /\ mycpu' = [mycpu EXCEPT ![self] = opx'[self].c]
                                                           /\ pci' = [pci EXCEPT ![self] = pci[self] + 1]
                                                           /\ pc' = [pc EXCEPT ![self] = "t_top"]
                                                           /\ UNCHANGED << acc, 
                                                                           tcrd, 
                                                                           snap, 
                                                                           bsnap, 
                                                                           alive, 
                                                                           en, 
                                                                           res, 
                                                                           fc, 
                                                                           cidef, 
                                                                           cifl, 
                                                                           cn, 
                                                                           bk, 
                                                                           sci, 
                                                                           oalive, 
                                                                           gold, 
                                                                           stack >>
                                                      ELSE /\ IF opx'[self].op \in {"offline", "online"}
                                                                 THEN /\ pci' = [pci EXCEPT ![self] = pci[self] + 1]
                                                                      /\ pc' = [pc EXCEPT ![self] = "t_top"]
                                                                      /\ UNCHANGED << acc, 
                                                                                      tcrd, 
                                                                                      snap, 
                                                                                      bsnap, 
                                                                                      alive, 
                                                                                      en, 
                                                                                      res, 
                                                                                      fc, 
                                                                                      cidef, 
                                                                                      cifl, 
                                                                                      cn, 
                                                                                      bk, 
                                                                                      sci, 
                                                                                      oalive, 
                                                                                      gold, 
                                                                                      stack >>
                                                                 ELSE /\ IF opx'[self].op = "call"
                                                                            THEN /\ cn' = [cn EXCEPT ![self] = opx'[self].n]
                                                                                 /\ snap' = [snap EXCEPT ![opx'[self].n] = cs]
                                                                                 /\ UNCHANGED << bsnap, 
                                                                                                 alive, 
                                                                                                 en, 
                                                                                                 fc, 
                                                                                                 cidef, 
                                                                                                 cifl, 
                                                                                                 bk, 
                                                                                                 sci >>
                                                                            ELSE /\ IF opx'[self].op = "barrier"
                                                                                       THEN /\ bk' = [bk EXCEPT ![self] = KName(self, pci[self])]
                                                                                            /\ alive' = [alive EXCEPT ![KName(self, pci[self])] = "yes"]
                                                                                            /\ bsnap' = [bsnap EXCEPT ![self] = queued]
                                                                                            /\ UNCHANGED << en, 
                                                                                                            fc, 
                                                                                                            cidef, 
                                                                                                            cifl, 
                                                                                                            sci >>
                                                                                       ELSE /\ IF opx'[self].op = "free"
                                                                                                  THEN /\ fc' = [fc EXCEPT ![self] = slot[opx'[self].x]]
                                                                                                       /\ UNCHANGED << en, 
                                                                                                                       cidef, 
                                                                                                                       cifl, 
                                                                                                                       sci >>
                                                                                                  ELSE /\ IF opx'[self].op = "setcpu"
                                                                                                             THEN /\ en' = [en EXCEPT ![self] = IF opx'[self].x = NULL THEN NULL ELSE slot[opx'[self].x]]
                                                                                                                  /\ sci' = [sci EXCEPT ![self] = opx'[self].c]
                                                                                                                  /\ UNCHANGED << cidef, 
                                                                                                                                  cifl >>
                                                                                                             ELSE /\ IF opx'[self].op = "create"
                                                                                                                        THEN /\ cidef' = [cidef EXCEPT ![self] = FALSE]
                                                                                                                             /\ cifl' = [cifl EXCEPT ![self] = opx'[self].f]
                                                                                                                        ELSE /\ TRUE
                                                                                                                             /\ UNCHANGED << cidef, 
                                                                                                                                             cifl >>
                                                                                                                  /\ UNCHANGED << en, 
                                                                                                                                  sci >>
                                                                                                       /\ fc' = fc
                                                                                            /\ UNCHANGED << bsnap, 
                                                                                                            alive, 
                                                                                                            bk >>
                                                                                 /\ UNCHANGED << snap, 
                                                                                                 cn >>
                                                                      /\ res' = [res EXCEPT ![self] = "-"]
                                                                      /\ acc' = Ev(self, "call", IF opx'[self].op = "call" THEN opx'[self].n ELSE IF opx'[self].op \in {"free", "setcpu", "setthr"} /\ opx'[self].x # NULL THEN slot[opx'[self].x] ELSE "-",
                                                                                   opx'[self].op, "-", "-")
                                                                      /\ IF opx'[self].op = "call"
                                                                            THEN /\ stack' = [stack EXCEPT ![self] = << [ procedure |->  "call_rcu",
                                                                                                                          pc        |->  "t_ret" ] >>
                                                                                                                      \o stack[self]]
                                                                                 /\ pc' = [pc EXCEPT ![self] = "cr_lock"]
                                                                                 /\ UNCHANGED << tcrd, 
                                                                                                 oalive, 
                                                                                                 gold >>
                                                                            ELSE /\ IF opx'[self].op = "sync"
                                                                                       THEN /\ IF "nousync" \in Mut
                                                                                                  THEN /\ pc' = [pc EXCEPT ![self] = "t_ret"]
                                                                                                       /\ stack' = stack
                                                                                                  ELSE /\ stack' = [stack EXCEPT ![self] = << [ procedure |->  "synchronize_rcu",
                                                                                                                                                pc        |->  "t_ret" ] >>
                                                                                                                                            \o stack[self]]
                                                                                                       /\ pc' = [pc EXCEPT ![self] = "gp_b"]
                                                                                            /\ UNCHANGED << tcrd, 
                                                                                                            oalive, 
                                                                                                            gold >>
                                                                                       ELSE /\ IF opx'[self].op = "getdef"
                                                                                                  THEN /\ stack' = [stack EXCEPT ![self] = << [ procedure |->  "get_default",
                                                                                                                                                pc        |->  "t_ret" ] >>
                                                                                                                                            \o stack[self]]
                                                                                                       /\ pc' = [pc EXCEPT ![self] = "gd_ld"]
                                                                                                       /\ UNCHANGED << tcrd, 
                                                                                                                       oalive, 
                                                                                                                       gold >>
                                                                                                  ELSE /\ IF opx'[self].op = "create"
                                                                                                             THEN /\ pc' = [pc EXCEPT ![self] = "t_crl"]
                                                                                                                  /\ UNCHANGED << tcrd, 
                                                                                                                                  oalive, 
                                                                                                                                  gold, 
                                                                                                                                  stack >>
                                                                                                             ELSE /\ IF opx'[self].op = "setthr"
                                                                                                                        THEN /\ tcrd' = [tcrd EXCEPT ![self] = IF opx'[self].x = NULL THEN NULL ELSE slot[opx'[self].x]]
                                                                                                                             /\ pc' = [pc EXCEPT ![self] = "t_ret"]
                                                                                                                             /\ UNCHANGED << oalive, 
                                                                                                                                             gold, 
                                                                                                                                             stack >>
                                                                                                                        ELSE /\ IF opx'[self].op = "setcpu"
                                                                                                                                   THEN /\ stack' = [stack EXCEPT ![self] = << [ procedure |->  "set_cpu",
                                                                                                                                                                                 pc        |->  "t_ret" ] >>
                                                                                                                                                                             \o stack[self]]
                                                                                                                                        /\ pc' = [pc EXCEPT ![self] = "sc_lock"]
                                                                                                                                        /\ UNCHANGED << oalive, 
                                                                                                                                                        gold >>
                                                                                                                                   ELSE /\ IF opx'[self].op = "createall"
                                                                                                                                              THEN /\ stack' = [stack EXCEPT ![self] = << [ procedure |->  "create_all",
                                                                                                                                                                                            pc        |->  "t_ret" ] >>
                                                                                                                                                                                        \o stack[self]]
                                                                                                                                                   /\ pc' = [pc EXCEPT ![self] = "ca_lock"]
                                                                                                                                                   /\ UNCHANGED << oalive, 
                                                                                                                                                                   gold >>
                                                                                                                                              ELSE /\ IF opx'[self].op = "freeall"
                                                                                                                                                         THEN /\ stack' = [stack EXCEPT ![self] = << [ procedure |->  "free_all",
                                                                                                                                                                                                       pc        |->  "t_ret" ] >>
                                                                                                                                                                                                   \o stack[self]]
                                                                                                                                                              /\ pc' = [pc EXCEPT ![self] = "fa_len"]
                                                                                                                                                              /\ UNCHANGED << oalive, 
                                                                                                                                                                              gold >>
                                                                                                                                                         ELSE /\ IF opx'[self].op = "free"
                                                                                                                                                                    THEN /\ stack' = [stack EXCEPT ![self] = << [ procedure |->  "data_free",
                                                                                                                                                                                                                  pc        |->  "t_ret" ] >>
                                                                                                                                                                                                              \o stack[self]]
                                                                                                                                                                         /\ pc' = [pc EXCEPT ![self] = "f_chk"]
                                                                                                                                                                         /\ UNCHANGED << oalive, 
                                                                                                                                                                                         gold >>
                                                                                                                                                                    ELSE /\ IF opx'[self].op = "barrier"
                                                                                                                                                                               THEN /\ stack' = [stack EXCEPT ![self] = << [ procedure |->  "barrier",
                                                                                                                                                                                                                             pc        |->  "t_ret" ] >>
                                                                                                                                                                                                                         \o stack[self]]
                                                                                                                                                                                    /\ pc' = [pc EXCEPT ![self] = "b_lock"]
                                                                                                                                                                                    /\ UNCHANGED << oalive, 
                                                                                                                                                                                                    gold >>
                                                                                                                                                                               ELSE /\ IF opx'[self].op = "pause"
                                                                                                                                                                                          THEN /\ stack' = [stack EXCEPT ![self] = << [ procedure |->  "before_fork",
                                                                                                                                                                                                                                        pc        |->  "t_ret" ] >>
                                                                                                                                                                                                                                    \o stack[self]]
                                                                                                                                                                                               /\ pc' = [pc EXCEPT ![self] = "bf_lock"]
                                                                                                                                                                                               /\ UNCHANGED << oalive, 
                                                                                                                                                                                                               gold >>
                                                                                                                                                                                          ELSE /\ IF opx'[self].op = "pub"
                                                                                                                                                                                                     THEN /\ pc' = [pc EXCEPT ![self] = "t_pub"]
                                                                                                                                                                                                          /\ UNCHANGED << oalive, 
                                                                                                                                                                                                                          gold, 
                                                                                                                                                                                                                          stack >>
                                                                                                                                                                                                     ELSE /\ IF opx'[self].op = "qfree"
                                                                                                                                                                                                                THEN /\ oalive' = [oalive EXCEPT ![gold[self]] = FALSE]
                                                                                                                                                                                                                     /\ gold' = [gold EXCEPT ![self] = NULL]
                                                                                                                                                                                                                     /\ pc' = [pc EXCEPT ![self] = "t_ret"]
                                                                                                                                                                                                                     /\ stack' = stack
                                                                                                                                                                                                                ELSE /\ stack' = [stack EXCEPT ![self] = << [ procedure |->  "after_fork_parent",
                                                                                                                                                                                                                                                              pc        |->  "t_ret" ] >>
                                                                                                                                                                                                                                                          \o stack[self]]
                                                                                                                                                                                                                     /\ pc' = [pc EXCEPT ![self] = "af_0"]
                                                                                                                                                                                                                     /\ UNCHANGED << oalive, 
                                                                                                                                                                                                                                     gold >>
                                                                                                                             /\ tcrd' = tcrd
                                                                      /\ pci' = pci
                                                           /\ mycpu' = mycpu
                                                /\ UNCHANGED << rnest, cs >>
                                     /\ ncs' = ncs
                     ELSE /\ pc' = [pc EXCEPT ![self] = "t_exit"]
                          /\ UNCHANGED << acc, tcrd, mycpu, rnest, cs, ncs, 
                                          snap, bsnap, alive, pci, opx, en, 
                                          res, fc, cidef, cifl, cn, bk, sci, 
                                          oalive, gold, stack >>
               /\ UNCHANGED << mem, sb, lock, fsleep, wloc, spur, wkind, 
                               crlist, nhelp, started, cpulen, slot, func, cnt, 
                               queued, fin, uaf, errs, iv, pa, hd, tl, old, 
                               cur, nx, cbc, isrt, ec, wc, gd, dc, newc, regs, 
                               kk, ci, cac, fa, gps, sigs, insig, ST, hheld, 
                               hent >>

t_ret(self) == /\ pc[self] = "t_ret"
               /\ IF opx[self].op = "call"
                     THEN /\ queued' = (queued \cup {opx[self].n})
                          /\ errs' = errs
                     ELSE /\ IF opx[self].op = "barrier"
                                THEN /\ IF bsnap[self] \ fin # {}
                                           THEN /\ errs' = (errs \cup {"BarrierComplete"})
                                           ELSE /\ TRUE
                                                /\ errs' = errs
                                ELSE /\ TRUE
                                     /\ errs' = errs
                          /\ UNCHANGED queued
               /\ acc' = Ev(self, "ret", "-", "-", "-", res[self])
               /\ pci' = [pci EXCEPT ![self] = pci[self] + 1]
               /\ pc' = [pc EXCEPT ![self] = "t_top"]
               /\ UNCHANGED << mem, sb, lock, fsleep, wloc, spur, wkind, 
                               crlist, nhelp, started, cpulen, tcrd, mycpu, 
                               slot, func, rnest, cs, ncs, cnt, snap, fin, 
                               bsnap, alive, uaf, opx, iv, pa, hd, tl, old, 
                               cur, nx, cbc, isrt, en, ec, wc, res, gd, fc, dc, 
                               newc, cidef, cifl, cn, bk, regs, kk, sci, ci, 
                               cac, fa, gps, sigs, insig, oalive, gold, stack, 
                               ST, hheld, hent >>

t_pub(self) == /\ pc[self] = "t_pub"
               /\ Drained(self)
               /\ gold' = [gold EXCEPT ![self] = mem["gptr"]]
               /\ mem' = [mem EXCEPT !["gptr"] = opx[self].n]
               /\ uaf' = (uaf \/ Dead("gptr"))
               /\ acc' = Ev(self, "xchg", "gptr", (opx[self].n), "-", (gold'[self]))
               /\ res' = [res EXCEPT ![self] = gold'[self]]
               /\ pc' = [pc EXCEPT ![self] = "t_ret"]
               /\ UNCHANGED << sb, lock, fsleep, wloc, spur, wkind, crlist, 
                               nhelp, started, cpulen, tcrd, mycpu, slot, func, 
                               rnest, cs, ncs, cnt, snap, queued, fin, bsnap, 
                               alive, errs, pci, opx, iv, pa, hd, tl, old, cur, 
                               nx, cbc, isrt, en, ec, wc, gd, fc, dc, newc, 
                               cidef, cifl, cn, bk, regs, kk, sci, ci, cac, fa, 
                               gps, sigs, insig, oalive, stack, ST, hheld, 
                               hent >>

t_crl(self) == /\ pc[self] = "t_crl"
               /\ Drained(self) /\ lock = "free"
               /\ lock' = self
               /\ acc' = Ev(self, "lock", CM, "-", "-", "-")
               /\ stack' = [stack EXCEPT ![self] = << [ procedure |->  "data_init",
                                                        pc        |->  "t_cru" ] >>
                                                    \o stack[self]]
               /\ pc' = [pc EXCEPT ![self] = "ci_new"]
               /\ UNCHANGED << mem, sb, fsleep, wloc, spur, wkind, crlist, 
                               nhelp, started, cpulen, tcrd, mycpu, slot, func, 
                               rnest, cs, ncs, cnt, snap, queued, fin, bsnap, 
                               alive, uaf, errs, pci, opx, iv, pa, hd, tl, old, 
                               cur, nx, cbc, isrt, en, ec, wc, res, gd, fc, dc, 
                               newc, cidef, cifl, cn, bk, regs, kk, sci, ci, 
                               cac, fa, gps, sigs, insig, oalive, gold, ST, 
                               hheld, hent >>

t_cru(self) == /\ pc[self] = "t_cru"
               /\ slot' = [slot EXCEPT ![opx[self].x] = newc[self]]
               /\ res' = [res EXCEPT ![self] = newc[self]]
               /\ Drained(self)
               /\ lock' = "free"
               /\ acc' = Ev(self, "unlock", CM, "-", "-", "-")
               /\ pc' = [pc EXCEPT ![self] = "t_ret"]
               /\ UNCHANGED << mem, sb, fsleep, wloc, spur, wkind, crlist, 
                               nhelp, started, cpulen, tcrd, mycpu, func, 
                               rnest, cs, ncs, cnt, snap, queued, fin, bsnap, 
                               alive, uaf, errs, pci, opx, iv, pa, hd, tl, old, 
                               cur, nx, cbc, isrt, en, ec, wc, gd, fc, dc, 
                               newc, cidef, cifl, cn, bk, regs, kk, sci, ci, 
                               cac, fa, gps, sigs, insig, oalive, gold, stack, 
                               ST, hheld, hent >>

t_exit(self) == /\ pc[self] = "t_exit"
                /\ Drained(self)
                /\ acc' = Ev(self, "exit", "-", "-", "-", "-")
                /\ pc' = [pc EXCEPT ![self] = "Done"]
                /\ UNCHANGED << mem, sb, lock, fsleep, wloc, spur, wkind, 
                                crlist, nhelp, started, cpulen, tcrd, mycpu, 
                                slot, func, rnest, cs, ncs, cnt, snap, queued, 
                                fin, bsnap, alive, uaf, errs, pci, opx, iv, pa, 
                                hd, tl, old, cur, nx, cbc, isrt, en, ec, wc, 
                                res, gd, fc, dc, newc, cidef, cifl, cn, bk, 
                                regs, kk, sci, ci, cac, fa, gps, sigs, insig, 
                                oalive, gold, stack, ST, hheld, hent >>

thr(self) == t_top(self) \/ t_ret(self) \/ t_pub(self) \/ t_crl(self)
                \/ t_cru(self) \/ t_exit(self)

Next == (\E self \in ProcSet:  \/ synchronize_rcu(self) \/ wake(self)
                               \/ enqueue(self) \/ data_init(self)
                               \/ get_default(self) \/ call_rcu(self)
                               \/ set_cpu(self) \/ data_free(self)
                               \/ create_all(self) \/ free_all(self)
                               \/ barrier_complete(self) \/ barrier(self)
                               \/ before_fork(self)
                               \/ after_fork_parent(self))
           \/ (\E self \in Flushers: flusher(self))
           \/ (\E self \in {"W:env"}: spurw(self))
           \/ (\E self \in SigIds: sig(self))
           \/ (\E self \in Helpers: helper(self))
           \/ (\E self \in Threads: thr(self))

Spec == /\ Init /\ [][Next]_vars
        /\ \A self \in Flushers : WF_vars(flusher(self))
        /\ \A self \in Helpers : /\ WF_vars(helper(self))
                                 /\ WF_vars(synchronize_rcu(self))
                                 /\ WF_vars(call_rcu(self))
                                 /\ WF_vars(barrier_complete(self))
                                 /\ WF_vars(wake(self))
                                 /\ WF_vars(enqueue(self))
                                 /\ WF_vars(data_init(self))
                                 /\ WF_vars(get_default(self))
        /\ \A self \in Threads : /\ WF_vars(thr(self))
                                 /\ WF_vars(call_rcu(self))
                                 /\ WF_vars(synchronize_rcu(self))
                                 /\ WF_vars(get_default(self))
                                 /\ WF_vars(set_cpu(self))
                                 /\ WF_vars(create_all(self))
                                 /\ WF_vars(free_all(self))
                                 /\ WF_vars(data_free(self))
                                 /\ WF_vars(barrier(self))
                                 /\ WF_vars(before_fork(self))
                                 /\ WF_vars(after_fork_parent(self))
                                 /\ WF_vars(data_init(self))
                                 /\ WF_vars(wake(self))
                                 /\ WF_vars(enqueue(self))

\* END TRANSLATION

AllDone == \A t \in Threads : pc[t] = "Done"
NoErr == errs = {}
AtMostOnce == "AtMostOnce" \notin errs
AfterGP == "AfterGP" \notin errs
RightArg == "RightArg" \notin errs
BarrierComplete == "BarrierComplete" \notin errs
FreedOnce == "completion freed twice" \notin errs /\ "call_rcu_data freed twice" \notin errs
NoUseAfterFree == ~uaf
Called == {n \in Nodes : snap[n] # NoSnap \/ n \in queued \/ cnt[n] > 0}
\* a helper is at rest: never started, finished, asleep in FUTEX_WAIT, or (real-time) polling an empty queue
HelperIdle(h) == \/ pc[h] = "Done" \/ (pc[h] = "h_idle" /\ ~started[h])
                 \/ (pc[h] = "w_fwoke" /\ h \in fsleep)
                 \/ (isrt[h] /\ pc[h] = "h_top" /\ mem[TailOf(CrOf[h])] = Hd(CrOf[h]) /\ ~Has(mem[FlagsOf(CrOf[h])], STOP))
Quiescent == AllDone /\ (\A p \in Procs : sb[p] = <<>>) /\ \A h \in Helpers : HelperIdle(h)
\* NoLoss: once every scenario thread has finished and all helpers are at rest, every callback passed to call_rcu() has run
Queued == {n \in Nodes : n \in queued}
NoLoss == Quiescent => \A n \in Queued : cnt[n] = 1 /\ n \in fin
\* deadlock freedom with an explicit notion of termination (flushers never terminate, helpers stay parked)
DeadlockFree == AllDone \/ ENABLED Next
\* the same through TLC's own deadlock check (cheaper than ENABLED): termination is an explicit stuttering step
DNext == Next \/ (AllDone /\ UNCHANGED vars)
DSpec == Init /\ [][DNext]_vars
SBBound == \A t \in Procs : Len(sb[t]) <= SBMax
\* ---- C19: with signal handlers a thread takes no step while its handler runs; handlers, flushers and the futex environment always may
TStep(t) == \/ (t \in Threads /\ thr(t)) \/ (t \in Helpers /\ helper(t))
            \/ synchronize_rcu(t) \/ wake(t) \/ enqueue(t) \/ data_init(t) \/ get_default(t) \/ call_rcu(t)
            \/ set_cpu(t) \/ create_all(t) \/ free_all(t) \/ data_free(t) \/ barrier_complete(t) \/ barrier(t) \/ before_fork(t) \/ after_fork_parent(t)
InSig(t) == t \in SigThreads /\ insig[t]
SigNext == \/ \E f \in Flushers : flusher(f)
           \/ spurw("W:env")
           \/ \E s \in SigIds : sig(s)
           \/ \E t \in Procs : ~InSig(t) /\ TStep(t)
SigDNext == SigNext \/ (AllDone /\ UNCHANGED vars)
SigDSpec == Init /\ [][SigDNext]_vars
SigRestores == "SigRestores" \notin errs
\* liveness (no state constraint): every queued callback is eventually invoked, every rcu_barrier() returns
FairSpec == Spec
EventuallyInvoked == \A n \in Nodes : (n \in queued) ~> (n \in fin)
BarrierReturns == \A t \in Threads : (pc[t] = "b_lock") ~> (pc[t] = "t_ret")
AllReturn == <>(AllDone)
=============================================================================
