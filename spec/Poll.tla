-------------------------------- MODULE Poll --------------------------------
(***************************************************************************)
(* Grace-period polling (src/urcu-poll-impl.h): start_poll_synchronize_rcu,*)
(* poll_state_synchronize_rcu and the worker callback urcu_poll_worker_cb, *)
(* one action per statement between mutex_lock and mutex_unlock, in the    *)
(* order of the code.  poll_worker_gp_state.{current_state, latest_target, *)
(* active} are the plain variables cur, latest, active; the mutex is the   *)
(* variable lock, so a read placed outside the critical section is         *)
(* expressible (and is caught, see the mutation notes in tools/props/      *)
(* c14.py).  All accesses are made inside the critical section and mutex   *)
(* operations are full fences, so store buffering is unobservable: TSO and *)
(* SBMax are accepted for uniformity with the other modules and unused.    *)
(*                                                                         *)
(* The grace period is abstract: call_rcu(worker) records the read-side    *)
(* critical sections open at that instant (wq); the call_rcu helper (the   *)
(* process "h1") invokes the callback only after all of them have ended.   *)
(* The real grace period may wait for more; it never waits for less.       *)
(*                                                                         *)
(* Grace-period ids live in 0 .. Mod-1 with the signed-difference          *)
(* comparison of the code (SDiff); Cur0 close to Mod-1 exercises the wrap. *)
(* The small modulus stands for 2^64: RangeOK checks that a scenario never *)
(* runs more than Mod/2 - 2 grace periods, the analogue of "a handle is    *)
(* not polled 2^63 grace periods after it was obtained".                   *)
(*                                                                         *)
(* Threads execute scenario programs (Prog):                               *)
(*   [op |-> "start", h]   H[h] = start_poll_synchronize_rcu()             *)
(*   [op |-> "poll",  h]   poll_state_synchronize_rcu(H[h]) -> TRUE/FALSE  *)
(*   [op |-> "pollw", h]   poll until TRUE; between two polls the thread   *)
(*                         waits until current_state differs from what the *)
(*                         last poll saw (a poll in an unchanged state     *)
(*                         returns the same result)                        *)
(*   [op |-> "rl"] / [op |-> "ru"]   rcu_read_lock / rcu_read_unlock       *)
(* A handle slot is written by exactly one start and polled by the same    *)
(* thread afterwards.                                                      *)
(***************************************************************************)
EXTENDS Integers, Sequences, FiniteSets, TLC

CONSTANTS Threads,    \* set of thread ids (strings)
          Prog,       \* [Threads -> Seq(op record)]
          TSO,        \* unused (see above)
          Tracing,    \* TRUE: maintain acc (last visible event) for trace validation / script generation
          SBMax,      \* unused
          Mod,        \* modulus of the grace-period ids (even, stands for 2^64)
          Cur0        \* initial current_state.grace_period_id

W == "h1"                                   \* the call_rcu helper thread running the worker callback
PL == "poll.lock"
OpsOf(t) == {Prog[t][j] : j \in DOMAIN Prog[t]}
AllOps == UNION {OpsOf(t) : t \in Threads}
HSlots == {o.h : o \in {x \in AllOps : x.op = "start"}}
NoOp == [op |-> "none", h |-> 0]

\* (long)(a - b) of the code, for ids modulo Mod
SDiff(a, b) == LET d == (a - b + Mod) % Mod IN IF d >= Mod \div 2 THEN d - Mod ELSE d
B2S(b) == IF b THEN "1" ELSE "0"

(* --algorithm poll {
variables
  cur = Cur0,                 \* poll_worker_gp_state.current_state.grace_period_id
  latest = Cur0,              \* poll_worker_gp_state.latest_target.grace_period_id
  active = FALSE,             \* poll_worker_gp_state.active
  lock = "free",              \* poll_worker_gp_state.lock
  nq = 0,                     \* number of times poll_worker_gp_state.rcu_head sits in the call_rcu queue (must be <= 1)
  wq = {},                    \* read-side sections open when the worker was (last) queued
  open = {},                  \* read-side critical sections currently open: <<thread, program index of its rl>>
  hval = [k \in HSlots |-> -1],        \* handles returned by start_poll
  hopen = [k \in HSlots |-> {}],       \* ghost: sections open at the start_poll call of each handle
  done = [k \in HSlots |-> FALSE],     \* ghost: some poll of the handle returned TRUE
  mono = TRUE,                \* ghost: no poll returned FALSE after TRUE
  ngp = 0,                    \* ghost: number of worker grace periods
  acc = [k |-> 0];

define {
  Ev(t, o, var, h, r, x, y, z) == IF Tracing THEN [k |-> acc.k + 1, t |-> t, op |-> o, var |-> var, h |-> h, r |-> r, x |-> x, y |-> y, z |-> z]
                                  ELSE acc
}

macro Lock()    { await lock = "free"; lock := self; acc := Ev(self, "lock", PL, "-", "-", "-", "-", "-"); }
\* the driver logs the projected state (proj) while the lock is still held, just before the unlock
macro Unlock()  { lock := "free"; acc := Ev(self, "unlock", PL, "-", "-", ToString(cur), ToString(latest), B2S(active)); }
macro CallRcu() { nq := nq + 1; wq := open; acc := Ev(self, "callrcu", "-", "-", "-", "-", "-", "-"); }

fair process (thr \in Threads)
variables i = 1, op = NoOp, new = 0, was = FALSE, res = "-", cs = <<>>, seen = -1;
{
t_top:     while (i <= Len(Prog[self])) {
             op := Prog[self][i]; res := "-";
             if (Prog[self][i].op = "start") {
               hopen[Prog[self][i].h] := open;                      \* ghost: sections in progress when the call is made
               acc := Ev(self, "call", "start", ToString(Prog[self][i].h), "-", "-", "-", "-");
               goto sp_lock
             } else if (Prog[self][i].op \in {"poll", "pollw"}) {
               acc := Ev(self, "call", Prog[self][i].op, ToString(Prog[self][i].h), "-", "-", "-", "-");
               goto p_lock
             } else if (Prog[self][i].op = "rl") { goto r_lock } else { goto r_unlock };

           \* ---------------- start_poll_synchronize_rcu
sp_lock:     Lock();                                               \* mutex_lock(&poll_worker_gp_state.lock)
sp_rdcur:    new := cur;                                           \* new_target_gp_state.grace_period_id = current_state.grace_period_id
sp_rdact:    was := active;                                        \* was_active = poll_worker_gp_state.active
sp_set:      if (~was) { active := TRUE }                          \* if (!was_active) active = true
             else { new := (new + 1) % Mod };                      \* else new_target_gp_state.grace_period_id++
sp_latest:   latest := new;                                        \* latest_target.grace_period_id = new_target_gp_state.grace_period_id
sp_queue:    if (~was) { CallRcu() };                              \* if (!was_active) call_rcu(&rcu_head, urcu_poll_worker_cb)
sp_unlock:   Unlock();                                             \* mutex_unlock; return new_target_gp_state
             res := ToString(new); hval[op.h] := new;
             goto t_ret;

           \* ---------------- poll_state_synchronize_rcu
p_lock:      Lock();                                               \* mutex_lock
p_cmp:       seen := cur;                                          \* if ((long)(target - current_state.grace_period_id) < 0)
             if (SDiff(hval[op.h], cur) < 0) { res := "TRUE"; done[op.h] := TRUE }       \*   target_gp_reached = true
             else { res := "FALSE"; if (done[op.h]) { mono := FALSE } };
p_unlock:    Unlock();                                             \* mutex_unlock
             if (op.op = "pollw" /\ res = "FALSE") { goto p_wait } else { goto t_ret };
p_wait:      await cur # seen;                                     \* (harness) poll again once current_state has changed
             goto p_lock;

           \* ---------------- reader
r_lock:      cs := <<self, i>>; open := open \cup {<<self, i>>};   \* rcu_read_lock() has returned
             acc := Ev(self, "rbegin", "-", "-", "-", "-", "-", "-");
             i := i + 1; goto t_top;
r_unlock:    open := open \ {cs}; cs := <<>>;                      \* rcu_read_unlock() is about to be called
             acc := Ev(self, "rend", "-", "-", "-", "-", "-", "-");
             i := i + 1; goto t_top;

t_ret:       acc := Ev(self, "ret", op.op, "-", res, "-", "-", "-");
             i := i + 1;
           };
t_exit:    acc := Ev(self, "exit", "-", "-", "-", "-", "-", "-");
}

\* the call_rcu helper thread as far as urcu_poll_worker_cb is concerned
fair process (worker \in {W})
{
w_gp:      while (TRUE) {
             await nq > 0 /\ wq \cap open = {};                    \* dequeued; the grace period following the enqueue has elapsed
             nq := nq - 1;
w_lock:      Lock();                                               \* urcu_poll_worker_cb: mutex_lock
w_inc:       cur := (cur + 1) % Mod; ngp := ngp + 1;               \* current_state.grace_period_id++
w_cmp:       if (SDiff(latest, cur) >= 0) { goto w_requeue }       \* if ((long)(latest_target - current_state) >= 0)
             else { goto w_clear };
w_requeue:   CallRcu();                                            \*   call_rcu(&rcu_head, urcu_poll_worker_cb)
             goto w_unlock;
w_clear:     active := FALSE;                                      \* else active = false
w_unlock:    Unlock();                                             \* mutex_unlock
           }
}
} *)
\* BEGIN TRANSLATION
VARIABLES pc, cur, latest, active, lock, nq, wq, open, hval, hopen, done, 
          mono, ngp, acc

(* define statement *)
Ev(t, o, var, h, r, x, y, z) == IF Tracing THEN [k |-> acc.k + 1, t |-> t, op |-> o, var |-> var, h |-> h, r |-> r, x |-> x, y |-> y, z |-> z]
                                ELSE acc

VARIABLES i, op, new, was, res, cs, seen

vars == << pc, cur, latest, active, lock, nq, wq, open, hval, hopen, done, 
           mono, ngp, acc, i, op, new, was, res, cs, seen >>

ProcSet == (Threads) \cup ({W})

Init == (* Global variables *)
        /\ cur = Cur0
        /\ latest = Cur0
        /\ active = FALSE
        /\ lock = "free"
        /\ nq = 0
        /\ wq = {}
        /\ open = {}
        /\ hval = [k \in HSlots |-> -1]
        /\ hopen = [k \in HSlots |-> {}]
        /\ done = [k \in HSlots |-> FALSE]
        /\ mono = TRUE
        /\ ngp = 0
        /\ acc = [k |-> 0]
        (* Process thr *)
        /\ i = [self \in Threads |-> 1]
        /\ op = [self \in Threads |-> NoOp]
        /\ new = [self \in Threads |-> 0]
        /\ was = [self \in Threads |-> FALSE]
        /\ res = [self \in Threads |-> "-"]
        /\ cs = [self \in Threads |-> <<>>]
        /\ seen = [self \in Threads |-> -1]
        /\ pc = [self \in ProcSet |-> CASE self \in Threads -> "t_top"
                                        [] self \in {W} -> "w_gp"]

t_top(self) == /\ pc[self] = "t_top"
               /\ IF i[self] <= Len(Prog[self])
                     THEN /\ op' = [op EXCEPT ![self] = Prog[self][i[self]]]
                          /\ res' = [res EXCEPT ![self] = "-"]
                          /\ IF Prog[self][i[self]].op = "start"
                                THEN /\ hopen' = [hopen EXCEPT ![Prog[self][i[self]].h] = open]
                                     /\ acc' = Ev(self, "call", "start", ToString(Prog[self][i[self]].h), "-", "-", "-", "-")
                                     /\ pc' = [pc EXCEPT ![self] = "sp_lock"]
                                ELSE /\ IF Prog[self][i[self]].op \in {"poll", "pollw"}
                                           THEN /\ acc' = Ev(self, "call", Prog[self][i[self]].op, ToString(Prog[self][i[self]].h), "-", "-", "-", "-")
                                                /\ pc' = [pc EXCEPT ![self] = "p_lock"]
                                           ELSE /\ IF Prog[self][i[self]].op = "rl"
                                                      THEN /\ pc' = [pc EXCEPT ![self] = "r_lock"]
                                                      ELSE /\ pc' = [pc EXCEPT ![self] = "r_unlock"]
                                                /\ acc' = acc
                                     /\ hopen' = hopen
                     ELSE /\ pc' = [pc EXCEPT ![self] = "t_exit"]
                          /\ UNCHANGED << hopen, acc, op, res >>
               /\ UNCHANGED << cur, latest, active, lock, nq, wq, open, hval, 
                               done, mono, ngp, i, new, was, cs, seen >>

sp_lock(self) == /\ pc[self] = "sp_lock"
                 /\ lock = "free"
                 /\ lock' = self
                 /\ acc' = Ev(self, "lock", PL, "-", "-", "-", "-", "-")
                 /\ pc' = [pc EXCEPT ![self] = "sp_rdcur"]
                 /\ UNCHANGED << cur, latest, active, nq, wq, open, hval, 
                                 hopen, done, mono, ngp, i, op, new, was, res, 
                                 cs, seen >>

sp_rdcur(self) == /\ pc[self] = "sp_rdcur"
                  /\ new' = [new EXCEPT ![self] = cur]
                  /\ pc' = [pc EXCEPT ![self] = "sp_rdact"]
                  /\ UNCHANGED << cur, latest, active, lock, nq, wq, open, 
                                  hval, hopen, done, mono, ngp, acc, i, op, 
                                  was, res, cs, seen >>

sp_rdact(self) == /\ pc[self] = "sp_rdact"
                  /\ was' = [was EXCEPT ![self] = active]
                  /\ pc' = [pc EXCEPT ![self] = "sp_set"]
                  /\ UNCHANGED << cur, latest, active, lock, nq, wq, open, 
                                  hval, hopen, done, mono, ngp, acc, i, op, 
                                  new, res, cs, seen >>

sp_set(self) == /\ pc[self] = "sp_set"
                /\ IF ~was[self]
                      THEN /\ active' = TRUE
                           /\ new' = new
                      ELSE /\ new' = [new EXCEPT ![self] = (new[self] + 1) % Mod]
                           /\ UNCHANGED active
                /\ pc' = [pc EXCEPT ![self] = "sp_latest"]
                /\ UNCHANGED << cur, latest, lock, nq, wq, open, hval, hopen, 
                                done, mono, ngp, acc, i, op, was, res, cs, 
                                seen >>

sp_latest(self) == /\ pc[self] = "sp_latest"
                   /\ latest' = new[self]
                   /\ pc' = [pc EXCEPT ![self] = "sp_queue"]
                   /\ UNCHANGED << cur, active, lock, nq, wq, open, hval, 
                                   hopen, done, mono, ngp, acc, i, op, new, 
                                   was, res, cs, seen >>

sp_queue(self) == /\ pc[self] = "sp_queue"
                  /\ IF ~was[self]
                        THEN /\ nq' = nq + 1
                             /\ wq' = open
                             /\ acc' = Ev(self, "callrcu", "-", "-", "-", "-", "-", "-")
                        ELSE /\ TRUE
                             /\ UNCHANGED << nq, wq, acc >>
                  /\ pc' = [pc EXCEPT ![self] = "sp_unlock"]
                  /\ UNCHANGED << cur, latest, active, lock, open, hval, hopen, 
                                  done, mono, ngp, i, op, new, was, res, cs, 
                                  seen >>

sp_unlock(self) == /\ pc[self] = "sp_unlock"
                   /\ lock' = "free"
                   /\ acc' = Ev(self, "unlock", PL, "-", "-", ToString(cur), ToString(latest), B2S(active))
                   /\ res' = [res EXCEPT ![self] = ToString(new[self])]
                   /\ hval' = [hval EXCEPT ![op[self].h] = new[self]]
                   /\ pc' = [pc EXCEPT ![self] = "t_ret"]
                   /\ UNCHANGED << cur, latest, active, nq, wq, open, hopen, 
                                   done, mono, ngp, i, op, new, was, cs, seen >>

p_lock(self) == /\ pc[self] = "p_lock"
                /\ lock = "free"
                /\ lock' = self
                /\ acc' = Ev(self, "lock", PL, "-", "-", "-", "-", "-")
                /\ pc' = [pc EXCEPT ![self] = "p_cmp"]
                /\ UNCHANGED << cur, latest, active, nq, wq, open, hval, hopen, 
                                done, mono, ngp, i, op, new, was, res, cs, 
                                seen >>

p_cmp(self) == /\ pc[self] = "p_cmp"
               /\ seen' = [seen EXCEPT ![self] = cur]
               /\ IF SDiff(hval[op[self].h], cur) < 0
                     THEN /\ res' = [res EXCEPT ![self] = "TRUE"]
                          /\ done' = [done EXCEPT ![op[self].h] = TRUE]
                          /\ mono' = mono
                     ELSE /\ res' = [res EXCEPT ![self] = "FALSE"]
                          /\ IF done[op[self].h]
                                THEN /\ mono' = FALSE
                                ELSE /\ TRUE
                                     /\ mono' = mono
                          /\ done' = done
               /\ pc' = [pc EXCEPT ![self] = "p_unlock"]
               /\ UNCHANGED << cur, latest, active, lock, nq, wq, open, hval, 
                               hopen, ngp, acc, i, op, new, was, cs >>

p_unlock(self) == /\ pc[self] = "p_unlock"
                  /\ lock' = "free"
                  /\ acc' = Ev(self, "unlock", PL, "-", "-", ToString(cur), ToString(latest), B2S(active))
                  /\ IF op[self].op = "pollw" /\ res[self] = "FALSE"
                        THEN /\ pc' = [pc EXCEPT ![self] = "p_wait"]
                        ELSE /\ pc' = [pc EXCEPT ![self] = "t_ret"]
                  /\ UNCHANGED << cur, latest, active, nq, wq, open, hval, 
                                  hopen, done, mono, ngp, i, op, new, was, res, 
                                  cs, seen >>

p_wait(self) == /\ pc[self] = "p_wait"
                /\ cur # seen[self]
                /\ pc' = [pc EXCEPT ![self] = "p_lock"]
                /\ UNCHANGED << cur, latest, active, lock, nq, wq, open, hval, 
                                hopen, done, mono, ngp, acc, i, op, new, was, 
                                res, cs, seen >>

r_lock(self) == /\ pc[self] = "r_lock"
                /\ cs' = [cs EXCEPT ![self] = <<self, i[self]>>]
                /\ open' = (open \cup {<<self, i[self]>>})
                /\ acc' = Ev(self, "rbegin", "-", "-", "-", "-", "-", "-")
                /\ i' = [i EXCEPT ![self] = i[self] + 1]
                /\ pc' = [pc EXCEPT ![self] = "t_top"]
                /\ UNCHANGED << cur, latest, active, lock, nq, wq, hval, hopen, 
                                done, mono, ngp, op, new, was, res, seen >>

r_unlock(self) == /\ pc[self] = "r_unlock"
                  /\ open' = open \ {cs[self]}
                  /\ cs' = [cs EXCEPT ![self] = <<>>]
                  /\ acc' = Ev(self, "rend", "-", "-", "-", "-", "-", "-")
                  /\ i' = [i EXCEPT ![self] = i[self] + 1]
                  /\ pc' = [pc EXCEPT ![self] = "t_top"]
                  /\ UNCHANGED << cur, latest, active, lock, nq, wq, hval, 
                                  hopen, done, mono, ngp, op, new, was, res, 
                                  seen >>

t_ret(self) == /\ pc[self] = "t_ret"
               /\ acc' = Ev(self, "ret", op[self].op, "-", res[self], "-", "-", "-")
               /\ i' = [i EXCEPT ![self] = i[self] + 1]
               /\ pc' = [pc EXCEPT ![self] = "t_top"]
               /\ UNCHANGED << cur, latest, active, lock, nq, wq, open, hval, 
                               hopen, done, mono, ngp, op, new, was, res, cs, 
                               seen >>

t_exit(self) == /\ pc[self] = "t_exit"
                /\ acc' = Ev(self, "exit", "-", "-", "-", "-", "-", "-")
                /\ pc' = [pc EXCEPT ![self] = "Done"]
                /\ UNCHANGED << cur, latest, active, lock, nq, wq, open, hval, 
                                hopen, done, mono, ngp, i, op, new, was, res, 
                                cs, seen >>

thr(self) == t_top(self) \/ sp_lock(self) \/ sp_rdcur(self)
                \/ sp_rdact(self) \/ sp_set(self) \/ sp_latest(self)
                \/ sp_queue(self) \/ sp_unlock(self) \/ p_lock(self)
                \/ p_cmp(self) \/ p_unlock(self) \/ p_wait(self)
                \/ r_lock(self) \/ r_unlock(self) \/ t_ret(self)
                \/ t_exit(self)

w_gp(self) == /\ pc[self] = "w_gp"
              /\ nq > 0 /\ wq \cap open = {}
              /\ nq' = nq - 1
              /\ pc' = [pc EXCEPT ![self] = "w_lock"]
              /\ UNCHANGED << cur, latest, active, lock, wq, open, hval, hopen, 
                              done, mono, ngp, acc, i, op, new, was, res, cs, 
                              seen >>

w_lock(self) == /\ pc[self] = "w_lock"
                /\ lock = "free"
                /\ lock' = self
                /\ acc' = Ev(self, "lock", PL, "-", "-", "-", "-", "-")
                /\ pc' = [pc EXCEPT ![self] = "w_inc"]
                /\ UNCHANGED << cur, latest, active, nq, wq, open, hval, hopen, 
                                done, mono, ngp, i, op, new, was, res, cs, 
                                seen >>

w_inc(self) == /\ pc[self] = "w_inc"
               /\ cur' = (cur + 1) % Mod
               /\ ngp' = ngp + 1
               /\ pc' = [pc EXCEPT ![self] = "w_cmp"]
               /\ UNCHANGED << latest, active, lock, nq, wq, open, hval, hopen, 
                               done, mono, acc, i, op, new, was, res, cs, seen >>

w_cmp(self) == /\ pc[self] = "w_cmp"
               /\ IF SDiff(latest, cur) >= 0
                     THEN /\ pc' = [pc EXCEPT ![self] = "w_requeue"]
                     ELSE /\ pc' = [pc EXCEPT ![self] = "w_clear"]
               /\ UNCHANGED << cur, latest, active, lock, nq, wq, open, hval, 
                               hopen, done, mono, ngp, acc, i, op, new, was, 
                               res, cs, seen >>

w_requeue(self) == /\ pc[self] = "w_requeue"
                   /\ nq' = nq + 1
                   /\ wq' = open
                   /\ acc' = Ev(self, "callrcu", "-", "-", "-", "-", "-", "-")
                   /\ pc' = [pc EXCEPT ![self] = "w_unlock"]
                   /\ UNCHANGED << cur, latest, active, lock, open, hval, 
                                   hopen, done, mono, ngp, i, op, new, was, 
                                   res, cs, seen >>

w_clear(self) == /\ pc[self] = "w_clear"
                 /\ active' = FALSE
                 /\ pc' = [pc EXCEPT ![self] = "w_unlock"]
                 /\ UNCHANGED << cur, latest, lock, nq, wq, open, hval, hopen, 
                                 done, mono, ngp, acc, i, op, new, was, res, 
                                 cs, seen >>

w_unlock(self) == /\ pc[self] = "w_unlock"
                  /\ lock' = "free"
                  /\ acc' = Ev(self, "unlock", PL, "-", "-", ToString(cur), ToString(latest), B2S(active))
                  /\ pc' = [pc EXCEPT ![self] = "w_gp"]
                  /\ UNCHANGED << cur, latest, active, nq, wq, open, hval, 
                                  hopen, done, mono, ngp, i, op, new, was, res, 
                                  cs, seen >>

worker(self) == w_gp(self) \/ w_lock(self) \/ w_inc(self) \/ w_cmp(self)
                   \/ w_requeue(self) \/ w_clear(self) \/ w_unlock(self)

Next == (\E self \in Threads: thr(self))
           \/ (\E self \in {W}: worker(self))

Spec == /\ Init /\ [][Next]_vars
        /\ \A self \in Threads : WF_vars(thr(self))
        /\ \A self \in {W} : WF_vars(worker(self))

\* END TRANSLATION

AllDone == \A t \in Threads : pc[t] = "Done"
Taken == {k \in HSlots : hval[k] # -1}
Idle == lock = "free"

\* C14 soundness: a TRUE poll result implies that every read-side critical section in progress when the matching
\* start_poll call was made has ended (sections never re-open, so the implication is stable once done[k] is set)
PollSound == \A k \in HSlots : done[k] => hopen[k] \cap open = {}
\* once TRUE always TRUE
PollMonotone == mono
\* the single rcu_head is never queued twice
SingleQueued == nq <= 1
\* validity of the small modulus
RangeOK == ngp <= Mod \div 2 - 2
\* whenever the lock is free: active <=> a worker callback is queued or about to run;
\* an incomplete handle is covered by latest_target, hence by a pending worker (no handle is forgotten)
StateInv == Idle =>
              /\ active <=> (nq > 0 \/ pc[W] = "w_lock")
              /\ SDiff(latest, cur) \in (IF active THEN {0, 1} ELSE {-1, 0})
              /\ \A k \in Taken : /\ SDiff(hval[k], cur) <= 1
                                  /\ SDiff(hval[k], cur) >= 0 => (active /\ SDiff(latest, hval[k]) >= 0)
\* at quiescence every handle has completed
QuiescentComplete == (AllDone /\ nq = 0 /\ pc[W] = "w_gp") => (~active /\ \A k \in Taken : SDiff(hval[k], cur) < 0)
\* no thread waits for ever for a handle (pollw blocks until current_state changes)
DeadlockFree == AllDone \/ ENABLED Next
TypeOK == /\ cur \in 0 .. Mod - 1 /\ latest \in 0 .. Mod - 1 /\ active \in BOOLEAN
          /\ lock \in {"free", W} \cup Threads /\ nq \in 0 .. 2
\* liveness (FairSpec): every thread finishes its program, in particular every pollw obtains TRUE
FairSpec == Spec
Live == <>AllDone
=============================================================================
