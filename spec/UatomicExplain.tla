--------------------------- MODULE UatomicExplain ---------------------------
(* C20, schedule dimension: the deciding predicates.  "The values returned to N threads that hammered one location
   with read-modify-write operations are explainable by ATOMIC operations" means: there is a total order of all
   operations, consistent with every thread's program order, in which each operation returns what the sequential
   semantics of module Uatomic yields when the operations are applied one after the other.

   These predicates are evaluated by TLC (a) on the results logged by the real 8-thread hammer of
   harness/d_uatomic.c (module UatomicHammer) and (b) on every terminal state of the TSO model UatomicConc, where the
   atomic version must satisfy them on all interleavings and the deliberately non-atomic version must not.

   A location record L has: off, n (threads), init, d (operand), final, and per kind of experiment
     res[t][k]  value returned to thread t by its k-th operation (values are little-endian byte tuples)
     put[t][k]  value stored by that operation (xchg only)
     runs       run-length summary of the sorted multiset of all returned values (big instances):
                <<[lo, len, mult]>> = values lo, lo+1, ..., lo+len-1, each returned mult times. *)
EXTENDS Uatomic, FiniteSets

Pow256(w) == 256 ^ w                         \* only used for w <= 2
NatV(n, w) == ScaleV(OneV(w), n)             \* natural n < 2^23 as a w-byte value

RECURSIVE CarryOut(_, _, _, _)
CarryOut(a, b, i, c) == IF i > Len(a) THEN c ELSE CarryOut(a, b, i + 1, (a[i] + b[i] + c) \div 256)
NoWrap(a, n) == CarryOut(a, NatV(n, Len(a)), 1, 0) = 0          \* a + n < 2^(8 Len(a))

(* the successive contents of a location under n applications of op with operand d (d converted already) *)
RECURSIVE Succ(_, _, _, _)
Succ(op, cur, d, n) == IF n = 0 THEN <<>>
                       ELSE LET nx == Sem(op, cur, d, d).new IN <<nx>> \o Succ(op, nx, d, n - 1)

IndexOf(P, r) == IF \E j \in 1..Len(P) : P[j] = r THEN CHOOSE j \in 1..Len(P) : P[j] = r ELSE 0
StrictlyIncreasing(s) == \A k \in 1..Len(s) - 1 : s[k] < s[k + 1]
OpIds(res) == {<<t, k>> : t \in 1..Len(res), k \in 1..Len(res[1])}

(* ---- every value returned, distinct expected values (n * iters < 2^(8w), operand odd or 1) ---- *)

(* expected sequence of returned values in the order of the atomic operations *)
Expected(op, L, NK) ==
    CASE op \in {"add_return", "sub_return"} -> Succ(op, L.init, L.d, NK)
      [] op = "cmpxchg" -> <<L.init>> \o Succ("add", L.init, L.d, NK - 1)     \* old values seen by the successful cmpxchg(old, old + d)

(* add_return / sub_return / cmpxchg-based counter *)
CounterOK(op, L, iters) ==
    LET NK  == L.n * iters
        P   == Expected(op, L, NK)
        pos == [t \in 1..L.n |-> [k \in 1..iters |-> IndexOf(P, L.res[t][k])]]
    IN /\ Len(L.res) = L.n /\ \A t \in 1..L.n : Len(L.res[t]) = iters
       /\ \A t \in 1..L.n : \A k \in 1..iters : pos[t][k] > 0            \* only values of the sequence are returned
       /\ \A t \in 1..L.n : StrictlyIncreasing(pos[t])                   \* program order
       /\ Cardinality({pos[t][k] : t \in 1..L.n, k \in 1..iters}) = NK   \* a permutation: nothing twice, nothing lost
       /\ \A j \in 1..NK : \A j2 \in 1..NK : (P[j] = P[j2]) => j = j2    \* (the expected values are distinct)
       /\ L.final = IterClosed(IF op = "cmpxchg" THEN "add" ELSE op, L.init, L.d, NK)
       /\ L.final = Iter(IF op = "cmpxchg" THEN "add" ELSE op, L.init, L.d, NK)

(* xchg with unique tokens: the returned values chain  init -> op_1 -> op_2 ... -> final *)
RECURSIVE Walk(_, _, _, _)
Walk(L, cur, n, posf) ==
    IF \E i \in DOMAIN posf : L.res[i[1]][i[2]] = cur /\ posf[i] = 0
    THEN LET i == CHOOSE i \in DOMAIN posf : L.res[i[1]][i[2]] = cur /\ posf[i] = 0
         IN Walk(L, L.put[i[1]][i[2]], n + 1, [posf EXCEPT ![i] = n + 1])
    ELSE [last |-> cur, n |-> n, pos |-> posf]
XchgOK(L, iters) ==
    LET NK == L.n * iters
        I  == OpIds(L.res)
        wk == Walk(L, L.init, 0, [i \in I |-> 0])
    IN /\ Len(L.res) = L.n /\ Len(L.put) = L.n
       /\ \A t \in 1..L.n : Len(L.res[t]) = iters /\ Len(L.put[t]) = iters
       /\ Cardinality({L.put[i[1]][i[2]] : i \in I} \cup {L.init}) = NK + 1       \* tokens are unique
       /\ Cardinality({L.res[i[1]][i[2]] : i \in I} \cup {L.final}) = NK + 1      \* no token handed out twice
       /\ {L.res[i[1]][i[2]] : i \in I} \cup {L.final} = {L.put[i[1]][i[2]] : i \in I} \cup {L.init}   \* conservation
       /\ wk.n = NK /\ wk.last = L.final                                          \* one chain through all operations
       /\ \A t \in 1..L.n : StrictlyIncreasing([k \in 1..iters |-> wk.pos[<<t, k>>]])   \* program order

RmwOK(op, L, iters) == IF op = "xchg" THEN XchgOK(L, iters) ELSE CounterOK(op, L, iters)

(* ---- big instances: run-length summary of the sorted multiset of returned values, operand 1 ---- *)
BigOK(op, w, L, iters) ==
    LET NK == L.n * iters IN
    /\ L.d = OneV(w) /\ NK < 8000000
    /\ L.nruns = 1 /\ Len(L.runs) = 1
    /\ IF w <= 2
       THEN /\ NK % Pow256(w) = 0                                   \* every w-byte value is returned equally often
            /\ L.runs[1] = [lo |-> ZeroV(w), len |-> Pow256(w), mult |-> NK \div Pow256(w)]
       ELSE LET lo == CASE op = "add_return" -> AddV(L.init, OneV(w))
                        [] op = "sub_return" -> SubV(L.init, NatV(NK, w))
                        [] op = "cmpxchg"    -> L.init
            IN /\ NoWrap(lo, NK)                                    \* (instance chosen not to wrap)
               /\ L.runs[1] = [lo |-> lo, len |-> NK, mult |-> 1]   \* a permutation of the NK partial results
    /\ L.final = IterClosed(IF op = "cmpxchg" THEN "add" ELSE op, L.init, L.d, NK)

(* ---- operations returning nothing: the final content accounts for every update ---- *)
VoidOK(op, L, iters) == L.final = IterClosed(op, L.init, L.d, L.n * iters)

RECURSIVE BitsFinal(_, _, _)
BitsFinal(cur, bits, i) == IF i > Len(bits) THEN cur
                           ELSE BitsFinal(IF i % 2 = 1 THEN OrV(cur, bits[i]) ELSE AndV(cur, NotV(bits[i])), bits, i + 1)
BitsOK(L) == /\ Len(L.bit) = L.n
             /\ \A i \in 1..L.n : \A j \in 1..L.n : i # j => AndV(L.bit[i], L.bit[j]) = ZeroV(Len(L.init))
             /\ L.final = BitsFinal(L.init, L.bit, 1)       \* odd threads end with uatomic_or, even ones with uatomic_and

(* ---- token passing: held = uatomic_xchg(loc, held) ---- *)
TokensOK(L) == LET before == {L.tok0[t] : t \in 1..L.n} \cup {L.init}
                   after  == {L.tok1[t] : t \in 1..L.n} \cup {L.final}
               IN Cardinality(before) = L.n + 1 /\ after = before /\ Cardinality(after) = L.n + 1

(* ---- memory image: each hammered location holds its final value, every other byte is intact ---- *)
RECURSIVE StoreAll(_, _, _)
StoreAll(m, locs, i) == IF i > Len(locs) THEN m ELSE StoreAll(Store(m, locs[i].off, locs[i].final), locs, i + 1)
ImageOK(e) == /\ e.g = 1
              /\ \A i \in 1..Len(e.locs) : Aligned(e.locs[i].off, e.w) /\ Load(e.m0, e.locs[i].off, e.w) = e.locs[i].init
              /\ e.m1 = StoreAll(e.m0, e.locs, 1)

(* ---- store buffering: store x; <op>; load y  ||  store y; <op>; load x ---- *)
FenceOps == {"xchg", "cmpxchg", "add_return", "sub_return", "add_return0", "sub_return0"}     \* ...0: the same with a run-time operand of 0
SbOK(e) == /\ e.n00 + e.n01 + e.n10 + e.n11 = e.iters
           /\ e.op \in FenceOps => e.n00 = 0                  \* both loads missing both stores: forbidden by a full barrier
           /\ e.op \in FenceOps \cup {"none"}

(* ---- compiler barrier: a plain counter polled under a lock made of the operation alone must be seen to reach its final value,
        and no increment made under that lock may be lost ---- *)
CbOK(e) == e.op \in FenceOps /\ e.done = 1 /\ e.final = e.expect

(* ---- plain C assignment followed by a void read-modify-write in one optimised function: the operation acts on the assigned value ---- *)
PsOK(e) == /\ e.op \in {"add", "sub", "inc", "dec", "and", "or"} /\ Len(e.init) = e.w /\ Len(e.res) = e.w
           /\ e.res = Sem(e.op, e.init, e.d, e.d).new

ExperimentOK(e) ==
    CASE e.k = "sb"     -> SbOK(e)
      [] e.k = "ps"     -> PsOK(e)
      [] e.k = "cb"     -> CbOK(e)
      [] e.k = "rmw"    -> ImageOK(e) /\ \A i \in 1..Len(e.locs) : RmwOK(e.op, e.locs[i], e.iters)
      [] e.k = "big"    -> ImageOK(e) /\ \A i \in 1..Len(e.locs) : BigOK(e.op, e.w, e.locs[i], e.iters)
      [] e.k = "void"   -> ImageOK(e) /\ \A i \in 1..Len(e.locs) : VoidOK(e.op, e.locs[i], e.iters)
      [] e.k = "bits"   -> ImageOK(e) /\ \A i \in 1..Len(e.locs) : BitsOK(e.locs[i])
      [] e.k = "tokens" -> ImageOK(e) /\ \A i \in 1..Len(e.locs) : TokensOK(e.locs[i])
      [] OTHER -> FALSE
=============================================================================
