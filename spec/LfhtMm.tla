---- MODULE LfhtMm ----
(* C08: bucket-table memory management of the three cds_lfht allocators: which allocator call each
   alloc_bucket_table(order) / free_bucket_table(order) issues, and where bucket_at(index) lands.
     rculfhash-mm-order.c : one array per order (orders 1..min_alloc_buckets_order share the order-0 array)
     rculfhash-mm-chunk.c : equally sized chunks of min_nr_alloc_buckets nodes, pointer table tbl_chunk[]
     rculfhash-mm-mmap.c  : one array of max_nr_buckets nodes; calloc'ed when max fits in a page ("small table"),
                            else a PROT_NONE reservation populated / discarded range by range ("large table")
   Pure operators over a normalised configuration c = [mm, mino, maxo, ...] (see LfhtNew!Norm).

   A memory request is a record [k, slot, n, off, sz]:
     k    "calloc" | "malloc" | "free" (calls of the struct cds_lfht_alloc callbacks),
          "map" | "pop" | "dis" | "unmap" (memory_map / memory_populate / memory_discard / memory_unmap of -mmap.c)
     slot abstract name of the allocation: "ht", "split", "work", "null", "o<order>", "c<chunk>", "map"
     n    number of elements (calloc: nmemb; pop/dis/map/unmap: number of bucket nodes), off: first bucket (pop/dis)
     sz   symbolic element size: "node" | "ht" | "split" | "work" | "-"  *)
EXTENDS Integers, Sequences, TLC

Req(k, slot, n, off, sz) == [k |-> k, slot |-> slot, n |-> n, off |-> off, sz |-> sz]
SlotO(i) == "o" \o ToString(i)
SlotC(i) == "c" \o ToString(i)

RECURSIVE Fls(_)                      \* cds_lfht_fls_ulong: position of the most significant set bit, 0 for 0
Fls(x) == IF x = 0 THEN 0 ELSE 1 + Fls(x \div 2)

RECURSIVE CatRange(_, _, _)           \* concatenation of F(i) for i = lo..hi
CatRange(F(_), lo, hi) == IF lo > hi THEN <<>> ELSE F(lo) \o CatRange(F, lo + 1, hi)
RECURSIVE CatRangeDown(_, _, _)       \* concatenation of F(i) for i = hi down to lo
CatRangeDown(F(_), hi, lo) == IF hi < lo THEN <<>> ELSE F(hi) \o CatRangeDown(F, hi - 1, lo)

MmSmall(c) == c.mm = "mmap" /\ c.mino = c.maxo      \* ht->min_nr_alloc_buckets == ht->max_nr_buckets

(* ht->mm->alloc_bucket_table(ht, order) *)
AllocOrder(c, order) ==
  CASE c.mm = "order" ->
         IF order = 0 THEN <<Req("calloc", SlotO(0), 2^c.mino, 0, "node")>>                  \* -order.c:16
         ELSE IF order > c.mino THEN <<Req("calloc", SlotO(order), 2^(order - 1), 0, "node")>>  \* :20
         ELSE <<>>
    [] c.mm = "chunk" ->
         IF order = 0 THEN <<Req("calloc", SlotC(0), 2^c.mino, 0, "node")>>                  \* -chunk.c:16
         ELSE IF order > c.mino
              THEN LET len == 2^(order - 1 - c.mino)                                          \* :21
                       One(i) == <<Req("calloc", SlotC(i), 2^c.mino, 0, "node")>>
                   IN CatRange(One, len, 2 * len - 1)
              ELSE <<>>
    [] c.mm = "mmap" ->
         IF order = 0 THEN IF MmSmall(c) THEN <<Req("calloc", "map", 2^c.maxo, 0, "node")>>  \* -mmap.c:121
                           ELSE <<Req("map", "map", 2^c.maxo, 0, "-"), Req("pop", "map", 2^c.mino, 0, "-")>>   \* :128
         ELSE IF order > c.mino THEN <<Req("pop", "map", 2^(order - 1), 2^(order - 1), "-")>>                \* :134
         ELSE <<>>

(* ht->mm->free_bucket_table(ht, order) *)
FreeOrder(c, order) ==
  CASE c.mm = "order" ->
         IF order = 0 \/ order > c.mino THEN <<Req("free", SlotO(order), 0, 0, "-")>> ELSE <<>>
    [] c.mm = "chunk" ->
         IF order = 0 THEN <<Req("free", SlotC(0), 0, 0, "-")>>
         ELSE IF order > c.mino
              THEN LET len == 2^(order - 1 - c.mino)
                       One(i) == <<Req("free", SlotC(i), 0, 0, "-")>>
                   IN CatRange(One, len, 2 * len - 1)
              ELSE <<>>
    [] c.mm = "mmap" ->
         IF order = 0 THEN IF MmSmall(c) THEN <<Req("free", "map", 0, 0, "-")>>
                           ELSE <<Req("unmap", "map", 2^c.maxo, 0, "-")>>
         ELSE IF order > c.mino THEN <<Req("dis", "map", 2^(order - 1), 2^(order - 1), "-")>>
         ELSE <<>>

(* growing from order `from` to order `to` (init_table): alloc_bucket_table(i) for i = from+1 .. to *)
GrowReqs(c, from, to) == LET One(i) == AllocOrder(c, i) IN CatRange(One, from + 1, to)
(* shrinking (fini_table): free_bucket_table(i) for i = from down to to+1 (each deferred by one grace period) *)
ShrinkReqs(c, from, to) == LET One(i) == FreeOrder(c, i) IN CatRangeDown(One, from, to + 1)

(* _cds_lfht_new_with_alloc: the table itself, the split counters, then cds_lfht_create_bucket(size) *)
NewReqs(c) == <<Req("calloc", "ht", 1, 0, "ht")>>
              \o (IF c.acct THEN <<Req("calloc", "split", c.nsplit, 0, "split")>> ELSE <<>>)
              \o AllocOrder(c, 0) \o GrowReqs(c, 0, c.sizeo)
(* cds_lfht_delete_bucket + free_split_items_count (free(NULL) without ACCOUNTING) + poison_free(ht) *)
DestroyReqs(c, sizeo) == ShrinkReqs(c, sizeo, -1)
                         \o <<Req("free", IF c.acct THEN "split" ELSE "null", 0, 0, "-")>>
                         \o <<Req("free", "ht", 0, 0, "-")>>

(* bucket_at(ht, index): allocation and element offset *)
BucketAt(c, i) ==
  CASE c.mm = "order" -> IF i < 2^c.mino THEN [slot |-> SlotO(0), off |-> i]                 \* -order.c:48
                         ELSE LET order == Fls(i) IN [slot |-> SlotO(order), off |-> i - 2^(order - 1)]   \* :57-60
    [] c.mm = "chunk" -> [slot |-> SlotC(i \div 2^c.mino), off |-> i % 2^c.mino]              \* -chunk.c:56-58
    [] c.mm = "mmap" -> [slot |-> "map", off |-> i]                                           \* -mmap.c:172

(* Abstract allocation state: live |-> function slot -> number of usable elements; for the large mmap table the
   populated bucket ranges are a set of <<off, n>> pairs under slot "map" (pop). *)
MemInit == [live |-> <<>>, pop |-> {}, ok |-> TRUE]
Has(m, s) == s \in DOMAIN m.live
RECURSIVE ApplyReqs(_, _)
ApplyReqs(m, rs) ==
  IF rs = <<>> THEN m
  ELSE LET r == Head(rs)
           m1 == CASE r.k \in {"calloc", "malloc"} ->
                        [m EXCEPT !.ok = @ /\ ~Has(m, r.slot), !.live = (r.slot :> r.n) @@ @]    \* never overwrites a live table
                   [] r.k = "free" ->
                        IF r.slot = "null" THEN m
                        ELSE [m EXCEPT !.ok = @ /\ Has(m, r.slot), !.live = [s \in DOMAIN @ \ {r.slot} |-> @[s]]]
                   [] r.k = "map" -> [m EXCEPT !.ok = @ /\ ~Has(m, r.slot), !.live = (r.slot :> r.n) @@ @]
                   [] r.k = "pop" -> [m EXCEPT !.ok = @ /\ Has(m, "map") /\ r.off + r.n <= m.live["map"]
                                                      /\ \A q \in m.pop : q[1] + q[2] <= r.off \/ r.off + r.n <= q[1],
                                               !.pop = @ \cup {<<r.off, r.n>>}]
                   [] r.k = "dis" -> [m EXCEPT !.ok = @ /\ <<r.off, r.n>> \in m.pop, !.pop = @ \ {<<r.off, r.n>>}]
                   [] r.k = "unmap" -> [m EXCEPT !.ok = @ /\ Has(m, "map") /\ m.live["map"] = r.n,
                                                 !.live = [s \in DOMAIN @ \ {"map"} |-> @[s]], !.pop = {}]
       IN ApplyReqs(m1, Tail(rs))

(* bucket_at(i) lands inside a live allocation (and inside a populated range of the large mmap table) *)
BucketLive(c, m, i) ==
  LET b == BucketAt(c, i) IN
  /\ Has(m, b.slot) /\ b.off < m.live[b.slot]
  /\ (c.mm = "mmap" /\ ~MmSmall(c)) => \E q \in m.pop : q[1] <= i /\ i < q[1] + q[2]

(* indices probed by the driver after creation and after every resize *)
ProbeSet(sizeo) == IF sizeo <= 4 THEN 0..(2^sizeo - 1)
                   ELSE (0..15) \cup {2^k - 1 : k \in 4..sizeo} \cup {2^k : k \in 4..(sizeo - 1)} \cup {2^k + 1 : k \in 4..(sizeo - 1)}
====
