------------------------------ MODULE UrcuQsbr ------------------------------
(***************************************************************************)
(* Grace periods of the QSBR flavor (src/urcu-qsbr.c, src/urcu-wait.h,     *)
(* include/urcu/static/urcu-qsbr.h, static/wfstack.h) in the variant that  *)
(* is compiled when CAA_BITS_PER_LONG == 64 (x86-64): one counter          *)
(* increment, ONE wait_for_readers() pass (urcu-qsbr.c:353-442).  One      *)
(* action per shared-memory access / blocking call, under SC or x86-TSO.   *)
(*                                                                         *)
(* Threads run scenario programs (Prog): reader ops  reg unreg qs offline  *)
(* online lock unlock deref use,  updater ops  pub(o) sync free.  A thread *)
(* may be both (synchronize_rcu() called by a registered, online reader).  *)
(* A registered online thread is implicitly inside a read-side critical    *)
(* section between two quiescent states: the section begins when           *)
(* register / thread_online / quiescent_state (/ synchronize_rcu called    *)
(* online) RETURNS and ends when quiescent_state / thread_offline /        *)
(* unregister (/ synchronize_rcu) is ENTERED.                              *)
(*                                                                         *)
(* Decides C01 (GPGuarantee, NoUseAfterFree: assertions in s_ret, use,     *)
(* deref), C02 (DeadlockFree with spurious / EINTR futex returns; Spec is  *)
(* fair, Termination), C15 (register / unregister at any point; departed   *)
(* readers' words never accessed).                                         *)
(*                                                                         *)
(* Counters are the real values: gp.ctr starts at URCU_QSBR_GP_ONLINE = 1  *)
(* and grows by URCU_QSBR_GP_CTR = 2 per grace period; a reader word is 0  *)
(* (offline) or a snapshot of gp.ctr.                                      *)
(***************************************************************************)
EXTENDS Naturals, Integers, Sequences, FiniteSets, TLC

CONSTANTS Threads, Prog, TSO, Tracing, SBMax,
          QSAttempts,     \* RCU_QS_ACTIVE_ATTEMPTS of the build (driver: -DURCU_VERIF_RCU_QS_ACTIVE_ATTEMPTS)
          WaitAttempts,   \* URCU_WAIT_ATTEMPTS of the build
          FaultBudget,    \* number of spurious / EINTR returns of FUTEX_WAIT per execution
          FutexMode,      \* "sys": futex(2) works; "compat": futex(2) returns ENOSYS, futex_noasync() falls back to compat_futex_async()
          Skip,           \* mutation parameter: fence labels that are no-ops ({} for every claim)
          Weak            \* mutation parameter: seq_cst store labels that are plain buffered stores ({} for every claim)

GP_CTR == 2
NULL == "NULL"
END == "END"
WAITING == 0  WAKEUP == 1  RUNNING == 2  TEARDOWN == 4
Wn(t) == "wn." \o t
Rctr(t) == "rctr." \o t
Rwait(t) == "rwait." \o t
WnNext(n) == n \o ".next"
WnState(n) == n \o ".state"
WnOwner(n) == CHOOSE t \in Threads : Wn(t) = n
Objs == {"obj0", "obj1", "obj2", "obj3"}
Locs == {"gp_ctr", "gp_futex", "gptr", "waiters"} \cup {Rctr(t) : t \in Threads} \cup {Rwait(t) : t \in Threads}
        \cup {WnNext(Wn(t)) : t \in Threads} \cup {WnState(Wn(t)) : t \in Threads}
FlId(t) == "F:" \o t
Flushers == {FlId(t) : t \in Threads}
FlOf == [f \in Flushers |-> CHOOSE t \in Threads : FlId(t) = f]
WId(t) == "W:" \o t
Faulters == {WId(t) : t \in Threads}
WOf == [f \in Faulters |-> CHOOSE t \in Threads : WId(t) = f]
HasBit(v, b) == (v \div b) % 2 = 1
OrBit(v, b) == IF HasBit(v, b) THEN v ELSE v + b
Range(s) == {s[k] : k \in DOMAIN s}
Remove(s, x) == SelectSeq(s, LAMBDA y : y # x)
NextWl(w) == IF w < QSAttempts THEN w + 1 ELSE w

(* --algorithm urcuqsbr {
variables
  mem = [l \in Locs |-> CASE l = "gp_ctr" -> 1 [] l = "gp_futex" -> 0 [] l = "gptr" -> "obj0" [] l = "waiters" -> END
                          [] l \in {WnNext(Wn(t)) : t \in Threads} -> NULL [] OTHER -> 0],
  sb = [t \in Threads |-> <<>>],
  lock = [m \in {"gp_lock", "registry_lock"} |-> "free"],
  acc = [k |-> 0],
  registry = <<>>, qsr = <<>>,                 \* reader lists, head first (plain data under registry_lock)
  sleeping = [t \in Threads |-> "none"],       \* FUTEX_WAIT: location slept on
  woken = [t \in Threads |-> FALSE],
  wkind = [t \in Threads |-> "none"],          \* why a sleeper was made runnable without FUTEX_WAKE: "SPURIOUS" | "EINTR"
  faults = 0,
  myctr = [t \in Threads |-> 0],               \* each thread's reader word as the thread itself sees it (its TLS)
  alive = [o \in Objs |-> TRUE],
  cs = [t \in Threads |-> 0],                  \* ghost: id of the open implicit critical section (0: none)
  pre = [t \in Threads |-> {}],                \* ghost: sections open when t called synchronize_rcu()
  departed = [t \in Threads |-> FALSE],        \* ghost (C15): t has left the registry; nobody may access its reader word
  wnlive = [t \in Threads |-> FALSE];          \* ghost (C02): t's stack wait node exists (t is inside synchronize_rcu)

define {
  LastIdx(t, loc) == LET S == {i \in DOMAIN sb[t] : sb[t][i][1] = loc} IN
                     IF S = {} THEN 0 ELSE CHOOSE i \in S : \A j \in S : j <= i
  Rd(t, loc) == IF LastIdx(t, loc) = 0 THEN mem[loc] ELSE sb[t][LastIdx(t, loc)][2]
  Drained(t) == sb[t] = <<>>
  Ev(t, op, var, a, b, r) == IF Tracing THEN [k |-> acc.k + 1, t |-> t, op |-> op, var |-> var, a |-> a, b |-> b, r |-> r] ELSE acc
  OpenCS == {<<t, cs[t]>> : t \in {x \in Threads : cs[x] # 0}}
  Sleepers(loc) == {t \in Threads : sleeping[t] = loc /\ ~woken[t]}
}

macro Ld(dst, loc)        { dst := Rd(self, loc); acc := Ev(self, "ld", loc, "-", "-", Rd(self, loc)); }
macro St(loc, v)          { if (TSO) { sb[self] := Append(sb[self], <<loc, v>>) } else { mem[loc] := v };
                            acc := Ev(self, "st", loc, v, "-", "-"); }
macro StSC(loc, v)        { await Drained(self); mem[loc] := v; acc := Ev(self, "st", loc, v, "-", "-"); }
macro Xchg(dst, loc, v)   { await Drained(self); dst := mem[loc]; mem[loc] := v; acc := Ev(self, "xchg", loc, v, "-", dst); }
macro Mb()                { await Drained(self); acc := Ev(self, "mb", "-", "-", "-", "-"); }
macro Lock(m)             { await Drained(self) /\ lock[m] = "free"; lock[m] := self; acc := Ev(self, "lock", m, "-", "-", "-"); }
macro Unlock(m)           { await Drained(self); lock[m] := "free"; acc := Ev(self, "unlock", m, "-", "-", "-"); }
macro FWake(loc)          { await Drained(self);
                            with (x \in IF Sleepers(loc) = {} THEN {"none"} ELSE Sleepers(loc)) {
                              if (x # "none") { woken[x] := TRUE };
                              acc := Ev(self, "fwake", loc, "-", "-", IF x = "none" THEN 0 ELSE 1);
                            } }

fair process (flusher \in Flushers) {
fl: while (TRUE) {
      await sb[FlOf[self]] # <<>>;
      mem[Head(sb[FlOf[self]])[1]] := Head(sb[FlOf[self]])[2] || sb[FlOf[self]] := Tail(sb[FlOf[self]])
      || acc := IF Tracing THEN [k |-> acc.k + 1, t |-> FlOf[self], op |-> "flush", var |-> Head(sb[FlOf[self]])[1],
                               a |-> Head(sb[FlOf[self]])[2], b |-> "-", r |-> "-"] ELSE acc;
    }
}

\* Environment: FUTEX_WAIT returns 0 with the word unchanged (spurious) or fails with EINTR.  Two steps, as in a kernel: the
\* sleeper leaves the futex queue here (a FUTEX_WAKE that comes next finds nobody and returns 0); it reports the return in wg_wk / a_wk.
process (faulter \in Faulters) {
fw: while (TRUE) {
      await sleeping[WOf[self]] # "none" /\ ~woken[WOf[self]] /\ faults < FaultBudget;
      with (kind \in {"SPURIOUS", "EINTR"}) { woken[WOf[self]] := TRUE || wkind[WOf[self]] := kind || faults := faults + 1 };
    }
}

fair process (thr \in Threads)
variables i = 1, op = [op |-> "none"], res = "-",
          g = 0, f = 0, w = 0, v = 0, held = NULL, old = NULL,
          oldh = NULL, popped = NULL, it = NULL, nx = NULL, st = 0, wi = 0,
          wl = 0, scan = <<>>, setw = <<>>, wasonline = FALSE, oret = "", wret = "",
          caddr = "gp_futex", cval = 0, cret = "";          \* compat_futex_async(): futex word, expected value, where to return
{
t_top:  while (i <= Len(Prog[self])) {
          op := Prog[self][i];                                   \* (op below is the NEW value: the operation being called)
          if (op.op = "reg") { assert myctr[self] = 0; departed[self] := FALSE; goto g_lock }   \* urcu_posix_assert(ctr == 0)
          else if (op.op = "unreg") { cs[self] := 0; held := NULL; oret := "x_lock"; goto off_st }
          else if (op.op = "offline") { cs[self] := 0; held := NULL; oret := "t_ret"; goto off_st }
          else if (op.op = "online") { oret := "t_ret"; goto on_ld }
          else if (op.op = "qs") { cs[self] := 0; held := NULL; goto q_ld }
          else if (op.op \in {"lock", "unlock"}) { assert myctr[self] # 0; goto t_ret }   \* _urcu_qsbr_read_lock/unlock: no-ops (debug assert: online)
          else if (op.op = "deref") { assert cs[self] # 0; goto dr_ld }
          else if (op.op = "use") { assert held = NULL \/ alive[held]; goto t_ret }
          else if (op.op = "pub") { goto p_xchg }
          else if (op.op = "sync") {                             \* urcu_qsbr_synchronize_rcu() is entered
            wasonline := myctr[self] # 0;                        \* was_online = urcu_qsbr_read_ongoing()   (plain read of own TLS)
            pre[self] := OpenCS \ {<<self, cs[self]>>};          \* the caller's own implicit section ends here
            wnlive[self] := TRUE;                                \* DEFINE_URCU_WAIT_NODE(wait, URCU_WAIT_WAITING)
            if (myctr[self] # 0) { cs[self] := 0; held := NULL; oret := "s_mb0"; goto off_st }   \* if (was_online) urcu_qsbr_thread_offline()
            else { goto s_mbe }
          }
          else { if (old # NULL) { alive[old] := FALSE; res := old; old := NULL }; goto t_ret };   \* free

        \* ---------------- urcu_qsbr_register_thread: list add under the registry lock, then _urcu_qsbr_thread_online()
g_lock:   Lock("registry_lock");                                 \* mutex_lock(&rcu_registry_lock)
          registry := <<self>> \o registry;                      \* cds_list_add(&reader.node, &registry)  (plain, lock held)
g_unl:    Unlock("registry_lock");
          oret := "t_ret"; goto on_ld;

        \* ---------------- urcu_qsbr_unregister_thread: _urcu_qsbr_thread_offline() FIRST, then list del under the registry lock
x_lock:   Lock("registry_lock");
          registry := Remove(registry, self) || qsr := Remove(qsr, self);   \* cds_list_del(&reader.node): from whichever list holds it
          departed[self] := TRUE;
x_unl:    Unlock("registry_lock");
          goto t_ret;

        \* ---------------- _urcu_qsbr_quiescent_state
q_ld:     Ld(g, "gp_ctr");                                       \* gp_ctr = uatomic_load(&urcu_qsbr_gp.ctr)
          if (g = myctr[self]) { goto t_ret };                   \* if (gp_ctr == URCU_TLS(reader).ctr) return   (plain read of own TLS)
q_st:     if ("q_st" \in Weak) { St(Rctr(self), g) } else { StSC(Rctr(self), g) };   \* uatomic_store(&reader.ctr, gp_ctr, CMM_SEQ_CST)
          myctr[self] := g; wret := "q_mb"; goto wk_ldw;         \* urcu_qsbr_wake_up_gp()
q_mb:     if ("q_mb" \notin Skip) { Mb() };                      \* cmm_smp_mb()
          goto t_ret;

        \* ---------------- _urcu_qsbr_thread_offline
off_st:   if ("off_st" \in Weak) { St(Rctr(self), 0) } else { StSC(Rctr(self), 0) };   \* uatomic_store(&reader.ctr, 0, CMM_SEQ_CST)
          myctr[self] := 0; wret := "off"; goto wk_ldw;          \* urcu_qsbr_wake_up_gp(); cmm_barrier()

        \* ---------------- _urcu_qsbr_thread_online
on_ld:    Ld(g, "gp_ctr");                                       \* cmm_barrier(); ctr = uatomic_load(&urcu_qsbr_gp.ctr)
on_st:    St(Rctr(self), g); myctr[self] := g;                   \* uatomic_store(pctr, ctr)
on_mb:    if ("on_mb" \notin Skip) { Mb() };                     \* cmm_smp_mb()
          if (oret = "t_ret") { goto t_ret } else { goto s_ret };

        \* ---------------- urcu_qsbr_wake_up_gp
wk_ldw:   Ld(w, Rwait(self));                                    \* if (uatomic_load(&reader.waiting))
          if (w = 0) { if (wret = "q_mb") { goto q_mb } else if (oret = "t_ret") { goto t_ret } else if (oret = "x_lock") { goto x_lock } else { goto s_mb0 } };   \* (w is the NEW value) return to the caller of wake_up_gp
wk_stw:   St(Rwait(self), 0);                                    \* uatomic_store(&reader.waiting, 0)
wk_mb:    if ("wk_mb" \notin Skip) { Mb() };                     \* cmm_smp_mb()
wk_ldf:   Ld(f, "gp_futex");                                     \* if (uatomic_load(&urcu_qsbr_gp.futex) != -1) return
          if (f # -1) { if (wret = "q_mb") { goto q_mb } else if (oret = "t_ret") { goto t_ret } else if (oret = "x_lock") { goto x_lock } else { goto s_mb0 } };
wk_stf:   St("gp_futex", 0);                                     \* uatomic_store(&urcu_qsbr_gp.futex, 0)
wk_wake:  if (FutexMode = "compat") { await Drained(self); acc := Ev(self, "fwake", "gp_futex", "-", "-", "ENOSYS"); cret := "wk"; goto c_mb }
          else { FWake("gp_futex");                              \* futex_noasync(&urcu_qsbr_gp.futex, FUTEX_WAKE, 1)
                 if (wret = "q_mb") { goto q_mb } else if (oret = "t_ret") { goto t_ret } else if (oret = "x_lock") { goto x_lock } else { goto s_mb0 } };

        \* ---------------- rcu_dereference(gptr), rcu_xchg_pointer(&gptr, obj)
dr_ld:    Ld(held, "gptr"); res := held;
          goto t_ret;
p_xchg:   Xchg(old, "gptr", op.o); res := old;
          goto t_ret;

        \* ---------------- urcu_qsbr_synchronize_rcu  (CAA_BITS_PER_LONG == 64)
s_mbe:    if ("s_mbe" \notin Skip) { Mb() };                     \* else cmm_smp_mb()
s_mb0:    if ("s_mb0" \notin Skip) { Mb() };                     \* urcu_wait_add -> cds_wfs_push: cmm_emit_legacy_smp_mb()
s_push:   Xchg(oldh, "waiters", Wn(self));                       \* old_head = uatomic_xchg(&s->head, new_head)
s_link:   St(WnNext(Wn(self)), oldh);                            \* uatomic_store(&node->next, &old_head->node, RELEASE)
          if (oldh # END) { wi := 0; goto a_ld1 };               \* not first in queue: wait for the leader
        \* leader
s_run:    if (Tracing \/ ~TSO) { await Drained(self); mem[WnState(Wn(self))] := RUNNING }     \* urcu_wait_set_state(&wait, RUNNING): PLAIN store
          else { sb[self] := Append(sb[self], <<WnState(Wn(self)), RUNNING>>) };            \* (executed code commits plain stores at once)
s_gplk:   Lock("gp_lock");                                       \* mutex_lock(&rcu_gp_lock)
s_pop:    Xchg(popped, "waiters", END);                          \* urcu_move_waiters -> __cds_wfs_pop_all: uatomic_xchg(&s->head, CDS_WFS_END)
s_popmb:  if ("s_popmb" \notin Skip) { Mb() };                   \* cmm_emit_legacy_smp_mb()
s_rglk:   Lock("registry_lock");                                 \* mutex_lock(&rcu_registry_lock)
          if (registry = <<>>) { goto s_out };                   \* if (cds_list_empty(&registry)) goto out
s_inc:    St("gp_ctr", Rd(self, "gp_ctr") + GP_CTR);             \* uatomic_store(&gp.ctr, gp.ctr + URCU_QSBR_GP_CTR)  (plain read: sole writer)
s_mb1:    if ("s_mb1" \notin Skip) { Mb() };                     \* cmm_barrier(); cmm_smp_mb()
          \* wait_for_readers(&registry, NULL, &qsreaders): first iteration
          wl := NextWl(0); scan := registry;
          if (NextWl(0) >= QSAttempts) { goto w_stf } else { goto w_ldr };

        \* ---------------- wait_for_readers (input_readers = registry, cur_snap_readers = NULL, qsreaders = qsr)
w_stf:    St("gp_futex", -1);                                    \* uatomic_store(&gp.futex, -1); cmm_smp_wmb()
          setw := registry;
          if (registry = <<>>) { goto w_mb };
w_stw:    assert ~departed[Head(setw)];
          St(Rwait(Head(setw)), 1);                              \* cds_list_for_each_entry(index, input_readers) uatomic_store(&index->waiting, 1)
          setw := Tail(setw);
          if (setw # <<>>) { goto w_stw };                       \* (setw here is the NEW value)
w_mb:     if ("w_mb" \notin Skip) { Mb() };                      \* cmm_smp_mb()  (write futex before read reader ctr)
          scan := registry;
          if (registry = <<>>) { goto w_st0 };
w_ldr:    assert ~departed[Head(scan)];
          v := Rd(self, Rctr(Head(scan)));                       \* urcu_qsbr_reader_state: v = uatomic_load(ctr)
          acc := Ev(self, "ld", Rctr(Head(scan)), "-", "-", Rd(self, Rctr(Head(scan))));
          if (Rd(self, Rctr(Head(scan))) = 0 \/ Rd(self, Rctr(Head(scan))) = Rd(self, "gp_ctr")) {   \* INACTIVE, or ACTIVE_CURRENT (v == gp.ctr, plain read)
            registry := Remove(registry, Head(scan)) || qsr := <<Head(scan)>> \o qsr                \* cds_list_move(&index->node, qsreaders)
          };                                                     \* ACTIVE_OLD: stays in input_readers
          scan := Tail(scan);
          if (scan # <<>>) { goto w_ldr }                        \* (scan, registry here are the NEW values)
          else if (registry # <<>>) { goto w_unl }               \* !cds_list_empty(input_readers)
          else if (wl >= QSAttempts) { goto w_st0 }
          else { goto s_out };
w_st0:    St("gp_futex", 0);                                     \* uatomic_store(&gp.futex, 0, CMM_RELEASE); break
          goto s_out;
w_unl:    Unlock("registry_lock");                               \* mutex_unlock(&rcu_registry_lock)
          if (wl < QSAttempts) { goto w_relock };                \* caa_cpu_relax()
        \* wait_gp()
wg_ld:    Ld(f, "gp_futex");                                     \* cmm_smp_rmb(); while (uatomic_load(&gp.futex) == -1)
          if (f # -1) { goto w_relock };
wg_fw:    await Drained(self);                                   \* futex_noasync(&gp.futex, FUTEX_WAIT, -1)
          if (FutexMode = "compat") { acc := Ev(self, "fwait", "gp_futex", "-", "-", "ENOSYS"); caddr := "gp_futex"; cval := -1; cret := "wg_ld"; goto c_mb }
          else if (mem["gp_futex"] # -1) { acc := Ev(self, "fwait", "gp_futex", -1, "-", "EAGAIN"); goto w_relock }
          else { sleeping[self] := "gp_futex"; woken[self] := FALSE; acc := Ev(self, "fwait", "gp_futex", -1, "-", "SLEEP") };
wg_wk:    await woken[self];                                     \* 0 (woken, or spurious): continue; EINTR: break out of the switch; both re-test the word
          acc := Ev(self, "fwoke", "gp_futex", "-", "-", IF wkind[self] = "none" THEN "WAKE" ELSE wkind[self]);
          sleeping[self] := "none"; woken[self] := FALSE; wkind[self] := "none";
          goto wg_ld;
w_relock: Lock("registry_lock");                                 \* mutex_lock(&rcu_registry_lock); next iteration of for (;;)
          wl := NextWl(wl); scan := registry;
          if (wl >= QSAttempts) { goto w_stf }                   \* (wl here is the NEW value)
          else if (registry = <<>>) { goto s_out }
          else { goto w_ldr };

s_out:    Unlock("registry_lock");                               \* cds_list_splice(&qsreaders, &registry); out: mutex_unlock(&rcu_registry_lock)
          registry := qsr \o registry || qsr := <<>>;
s_gpun:   Unlock("gp_lock");
          it := popped;
        \* urcu_wake_all_waiters: cds_wfs_for_each_blocking_safe; at the end gp_end: if (was_online) urcu_qsbr_thread_online() else cmm_smp_mb()
          if (popped # END) { goto k_next } else if (wasonline) { oret := "s_ret"; goto on_ld } else { goto s_mbx };
k_next:   assert wnlive[WnOwner(it)];
          Ld(nx, WnNext(it));                                    \* cds_wfs_next_blocking: ___cds_wfs_node_sync_next
          if (nx = NULL) { goto k_next };
k_ldst:   assert wnlive[WnOwner(it)];
          Ld(st, WnState(it));                                   \* if (uatomic_load(&wait_node->state) & RUNNING) continue
          if (HasBit(st, RUNNING)) { it := nx; if (nx # END) { goto k_next } else if (wasonline) { oret := "s_ret"; goto on_ld } else { goto s_mbx } };
k_as:     assert wnlive[WnOwner(it)];
          Ld(st, WnState(it));                                   \* urcu_adaptative_wake_up: assert(state == WAITING)
          assert st = WAITING;
k_wk:     assert wnlive[WnOwner(it)];
          St(WnState(it), WAKEUP);                               \* uatomic_store(&wait->state, WAKEUP, RELEASE)
k_ld2:    assert wnlive[WnOwner(it)];
          Ld(st, WnState(it));
          if (HasBit(st, RUNNING)) { goto k_or };
k_fw:     if (FutexMode = "compat") { await Drained(self); acc := Ev(self, "fwake", WnState(it), "-", "-", "ENOSYS"); cret := "k_or"; goto c_mb }
          else { FWake(WnState(it)) };                           \* futex_noasync(&wait->state, FUTEX_WAKE, 1)
k_or:     assert wnlive[WnOwner(it)];
          await Drained(self);                                   \* uatomic_or_mo(&wait->state, TEARDOWN, RELEASE)
          mem[WnState(it)] := OrBit(mem[WnState(it)], TEARDOWN) ||
          acc := Ev(self, "or", WnState(it), TEARDOWN, "-", OrBit(mem[WnState(it)], TEARDOWN));
          it := nx; if (nx # END) { goto k_next } else if (wasonline) { oret := "s_ret"; goto on_ld } else { goto s_mbx };

        \* waiter: urcu_adaptative_busy_wait (the cmm_smp_rmb() is a compiler barrier on x86)
a_ld1:    Ld(st, WnState(Wn(self)));                             \* for (i < URCU_WAIT_ATTEMPTS) if (state != WAITING) goto skip
          if (st # WAITING) { goto a_or } else { wi := wi + 1; if (wi < WaitAttempts) { goto a_ld1 } else { goto a_ld2 } };
a_ld2:    Ld(st, WnState(Wn(self)));                             \* while (state == WAITING)
          if (st # WAITING) { goto a_or };
a_fw:     await Drained(self);                                   \* futex_noasync(&wait->state, FUTEX_WAIT, WAITING)
          if (FutexMode = "compat") { acc := Ev(self, "fwait", WnState(Wn(self)), "-", "-", "ENOSYS"); caddr := WnState(Wn(self)); cval := WAITING; cret := "a_ld2"; goto c_mb }
          else if (mem[WnState(Wn(self))] # WAITING) { acc := Ev(self, "fwait", WnState(Wn(self)), WAITING, "-", "EAGAIN"); goto a_or }
          else { sleeping[self] := WnState(Wn(self)); woken[self] := FALSE; acc := Ev(self, "fwait", WnState(Wn(self)), WAITING, "-", "SLEEP") };
a_wk:     await woken[self];
          acc := Ev(self, "fwoke", WnState(Wn(self)), "-", "-", IF wkind[self] = "none" THEN "WAKE" ELSE wkind[self]);
          sleeping[self] := "none"; woken[self] := FALSE; wkind[self] := "none";
          goto a_ld2;
a_or:     await Drained(self);                                   \* uatomic_or(&wait->state, RUNNING)
          mem[WnState(Wn(self))] := OrBit(mem[WnState(Wn(self))], RUNNING) ||
          acc := Ev(self, "or", WnState(Wn(self)), RUNNING, "-", OrBit(mem[WnState(Wn(self))], RUNNING));
          wi := 0;
a_ld3:    Ld(st, WnState(Wn(self)));                             \* for (i < URCU_WAIT_ATTEMPTS) if (state & TEARDOWN) break
          if (HasBit(st, TEARDOWN)) { goto a_ld4 } else { wi := wi + 1; if (wi < WaitAttempts) { goto a_ld3 } else { goto a_ld4 } };
a_ld4:    Ld(st, WnState(Wn(self)));                             \* while (!(state & TEARDOWN)) poll()
          if (~HasBit(st, TEARDOWN)) { goto a_ld4 };
a_ld5:    Ld(st, WnState(Wn(self)));                             \* assert(state & TEARDOWN)
          assert HasBit(st, TEARDOWN);
          if (wasonline) { oret := "s_ret"; goto on_ld } else { goto s_mbx };                                          \* gp_end

        \* ---------------- compat_futex_async() (futex(2) returned ENOSYS): cmm_smp_mb(); WAIT: while (uatomic_load(uaddr) == val) poll(); WAKE: nothing
c_mb:     Mb();
          if (cret = "wg_ld" \/ cret = "a_ld2") { goto c_ld } else if (cret = "k_or") { goto k_or } else if (wret = "q_mb") { goto q_mb } else if (oret = "t_ret") { goto t_ret } else if (oret = "x_lock") { goto x_lock } else { goto s_mb0 };
c_ld:     if (Tracing) { Ld(f, caddr);                           \* recorded executions show every iteration of the polling loop
                         if (f = cval) { goto c_ld } else if (cret = "wg_ld") { goto wg_ld } else { goto a_ld2 } }
          else { await Rd(self, caddr) # cval;                   \* model checking: iterations that read val are stuttering; blocked until the word changes
                 Ld(f, caddr);                                   \* (so that a missing update of the word is a deadlock, not a silent spin)
                 if (cret = "wg_ld") { goto wg_ld } else { goto a_ld2 } };

s_mbx:    if ("s_mbx" \notin Skip) { Mb() };                     \* else cmm_smp_mb()
s_ret:    assert pre[self] \cap OpenCS = {};                     \* C01: every pre-existing critical section has ended
          mem[WnNext(Wn(self))] := NULL || mem[WnState(Wn(self))] := 0;   \* the stack wait node dies; next call re-initialises it
          pre[self] := {}; wnlive[self] := FALSE;

t_ret:    if (op.op \in {"reg", "online", "qs"} \/ (op.op = "sync" /\ wasonline)) { cs[self] := i };   \* the call returned: a new implicit section begins
          i := i + 1; res := "-";
        };
t_end:  skip;
}
} *)
\* BEGIN TRANSLATION
VARIABLES pc, mem, sb, lock, acc, registry, qsr, sleeping, woken, wkind, 
          faults, myctr, alive, cs, pre, departed, wnlive

(* define statement *)
LastIdx(t, loc) == LET S == {i \in DOMAIN sb[t] : sb[t][i][1] = loc} IN
                   IF S = {} THEN 0 ELSE CHOOSE i \in S : \A j \in S : j <= i
Rd(t, loc) == IF LastIdx(t, loc) = 0 THEN mem[loc] ELSE sb[t][LastIdx(t, loc)][2]
Drained(t) == sb[t] = <<>>
Ev(t, op, var, a, b, r) == IF Tracing THEN [k |-> acc.k + 1, t |-> t, op |-> op, var |-> var, a |-> a, b |-> b, r |-> r] ELSE acc
OpenCS == {<<t, cs[t]>> : t \in {x \in Threads : cs[x] # 0}}
Sleepers(loc) == {t \in Threads : sleeping[t] = loc /\ ~woken[t]}

VARIABLES i, op, res, g, f, w, v, held, old, oldh, popped, it, nx, st, wi, wl, 
          scan, setw, wasonline, oret, wret, caddr, cval, cret

vars == << pc, mem, sb, lock, acc, registry, qsr, sleeping, woken, wkind, 
           faults, myctr, alive, cs, pre, departed, wnlive, i, op, res, g, f, 
           w, v, held, old, oldh, popped, it, nx, st, wi, wl, scan, setw, 
           wasonline, oret, wret, caddr, cval, cret >>

ProcSet == (Flushers) \cup (Faulters) \cup (Threads)

Init == (* Global variables *)
        /\ mem = [l \in Locs |-> CASE l = "gp_ctr" -> 1 [] l = "gp_futex" -> 0 [] l = "gptr" -> "obj0" [] l = "waiters" -> END
                                   [] l \in {WnNext(Wn(t)) : t \in Threads} -> NULL [] OTHER -> 0]
        /\ sb = [t \in Threads |-> <<>>]
        /\ lock = [m \in {"gp_lock", "registry_lock"} |-> "free"]
        /\ acc = [k |-> 0]
        /\ registry = <<>>
        /\ qsr = <<>>
        /\ sleeping = [t \in Threads |-> "none"]
        /\ woken = [t \in Threads |-> FALSE]
        /\ wkind = [t \in Threads |-> "none"]
        /\ faults = 0
        /\ myctr = [t \in Threads |-> 0]
        /\ alive = [o \in Objs |-> TRUE]
        /\ cs = [t \in Threads |-> 0]
        /\ pre = [t \in Threads |-> {}]
        /\ departed = [t \in Threads |-> FALSE]
        /\ wnlive = [t \in Threads |-> FALSE]
        (* Process thr *)
        /\ i = [self \in Threads |-> 1]
        /\ op = [self \in Threads |-> [op |-> "none"]]
        /\ res = [self \in Threads |-> "-"]
        /\ g = [self \in Threads |-> 0]
        /\ f = [self \in Threads |-> 0]
        /\ w = [self \in Threads |-> 0]
        /\ v = [self \in Threads |-> 0]
        /\ held = [self \in Threads |-> NULL]
        /\ old = [self \in Threads |-> NULL]
        /\ oldh = [self \in Threads |-> NULL]
        /\ popped = [self \in Threads |-> NULL]
        /\ it = [self \in Threads |-> NULL]
        /\ nx = [self \in Threads |-> NULL]
        /\ st = [self \in Threads |-> 0]
        /\ wi = [self \in Threads |-> 0]
        /\ wl = [self \in Threads |-> 0]
        /\ scan = [self \in Threads |-> <<>>]
        /\ setw = [self \in Threads |-> <<>>]
        /\ wasonline = [self \in Threads |-> FALSE]
        /\ oret = [self \in Threads |-> ""]
        /\ wret = [self \in Threads |-> ""]
        /\ caddr = [self \in Threads |-> "gp_futex"]
        /\ cval = [self \in Threads |-> 0]
        /\ cret = [self \in Threads |-> ""]
        /\ pc = [self \in ProcSet |-> CASE self \in Flushers -> "fl"
                                        [] self \in Faulters -> "fw"
                                        [] self \in Threads -> "t_top"]

fl(self) == /\ pc[self] = "fl"
            /\ sb[FlOf[self]] # <<>>
            /\ /\ acc' = IF Tracing THEN [k |-> acc.k + 1, t |-> FlOf[self], op |-> "flush", var |-> Head(sb[FlOf[self]])[1],
                                        a |-> Head(sb[FlOf[self]])[2], b |-> "-", r |-> "-"] ELSE acc
               /\ mem' = [mem EXCEPT ![Head(sb[FlOf[self]])[1]] = Head(sb[FlOf[self]])[2]]
               /\ sb' = [sb EXCEPT ![FlOf[self]] = Tail(sb[FlOf[self]])]
            /\ pc' = [pc EXCEPT ![self] = "fl"]
            /\ UNCHANGED << lock, registry, qsr, sleeping, woken, wkind, 
                            faults, myctr, alive, cs, pre, departed, wnlive, i, 
                            op, res, g, f, w, v, held, old, oldh, popped, it, 
                            nx, st, wi, wl, scan, setw, wasonline, oret, wret, 
                            caddr, cval, cret >>

flusher(self) == fl(self)

fw(self) == /\ pc[self] = "fw"
            /\ sleeping[WOf[self]] # "none" /\ ~woken[WOf[self]] /\ faults < FaultBudget
            /\ \E kind \in {"SPURIOUS", "EINTR"}:
                 /\ faults' = faults + 1
                 /\ wkind' = [wkind EXCEPT ![WOf[self]] = kind]
                 /\ woken' = [woken EXCEPT ![WOf[self]] = TRUE]
            /\ pc' = [pc EXCEPT ![self] = "fw"]
            /\ UNCHANGED << mem, sb, lock, acc, registry, qsr, sleeping, myctr, 
                            alive, cs, pre, departed, wnlive, i, op, res, g, f, 
                            w, v, held, old, oldh, popped, it, nx, st, wi, wl, 
                            scan, setw, wasonline, oret, wret, caddr, cval, 
                            cret >>

faulter(self) == fw(self)

t_top(self) == /\ pc[self] = "t_top"
               /\ IF i[self] <= Len(Prog[self])
                     THEN /\ op' = [op EXCEPT ![self] = Prog[self][i[self]]]
                          /\ IF op'[self].op = "reg"
                                THEN /\ Assert(myctr[self] = 0, 
                                               "Failure of assertion at line 132, column 32.")
                                     /\ departed' = [departed EXCEPT ![self] = FALSE]
                                     /\ pc' = [pc EXCEPT ![self] = "g_lock"]
                                     /\ UNCHANGED << alive, cs, pre, wnlive, 
                                                     res, held, old, wasonline, 
                                                     oret >>
                                ELSE /\ IF op'[self].op = "unreg"
                                           THEN /\ cs' = [cs EXCEPT ![self] = 0]
                                                /\ held' = [held EXCEPT ![self] = NULL]
                                                /\ oret' = [oret EXCEPT ![self] = "x_lock"]
                                                /\ pc' = [pc EXCEPT ![self] = "off_st"]
                                                /\ UNCHANGED << alive, pre, 
                                                                wnlive, res, 
                                                                old, wasonline >>
                                           ELSE /\ IF op'[self].op = "offline"
                                                      THEN /\ cs' = [cs EXCEPT ![self] = 0]
                                                           /\ held' = [held EXCEPT ![self] = NULL]
                                                           /\ oret' = [oret EXCEPT ![self] = "t_ret"]
                                                           /\ pc' = [pc EXCEPT ![self] = "off_st"]
                                                           /\ UNCHANGED << alive, 
                                                                           pre, 
                                                                           wnlive, 
                                                                           res, 
                                                                           old, 
                                                                           wasonline >>
                                                      ELSE /\ IF op'[self].op = "online"
                                                                 THEN /\ oret' = [oret EXCEPT ![self] = "t_ret"]
                                                                      /\ pc' = [pc EXCEPT ![self] = "on_ld"]
                                                                      /\ UNCHANGED << alive, 
                                                                                      cs, 
                                                                                      pre, 
                                                                                      wnlive, 
                                                                                      res, 
                                                                                      held, 
                                                                                      old, 
                                                                                      wasonline >>
                                                                 ELSE /\ IF op'[self].op = "qs"
                                                                            THEN /\ cs' = [cs EXCEPT ![self] = 0]
                                                                                 /\ held' = [held EXCEPT ![self] = NULL]
                                                                                 /\ pc' = [pc EXCEPT ![self] = "q_ld"]
                                                                                 /\ UNCHANGED << alive, 
                                                                                                 pre, 
                                                                                                 wnlive, 
                                                                                                 res, 
                                                                                                 old, 
                                                                                                 wasonline, 
                                                                                                 oret >>
                                                                            ELSE /\ IF op'[self].op \in {"lock", "unlock"}
                                                                                       THEN /\ Assert(myctr[self] # 0, 
                                                                                                      "Failure of assertion at line 137, column 52.")
                                                                                            /\ pc' = [pc EXCEPT ![self] = "t_ret"]
                                                                                            /\ UNCHANGED << alive, 
                                                                                                            cs, 
                                                                                                            pre, 
                                                                                                            wnlive, 
                                                                                                            res, 
                                                                                                            held, 
                                                                                                            old, 
                                                                                                            wasonline, 
                                                                                                            oret >>
                                                                                       ELSE /\ IF op'[self].op = "deref"
                                                                                                  THEN /\ Assert(cs[self] # 0, 
                                                                                                                 "Failure of assertion at line 138, column 39.")
                                                                                                       /\ pc' = [pc EXCEPT ![self] = "dr_ld"]
                                                                                                       /\ UNCHANGED << alive, 
                                                                                                                       cs, 
                                                                                                                       pre, 
                                                                                                                       wnlive, 
                                                                                                                       res, 
                                                                                                                       held, 
                                                                                                                       old, 
                                                                                                                       wasonline, 
                                                                                                                       oret >>
                                                                                                  ELSE /\ IF op'[self].op = "use"
                                                                                                             THEN /\ Assert(held[self] = NULL \/ alive[held[self]], 
                                                                                                                            "Failure of assertion at line 139, column 37.")
                                                                                                                  /\ pc' = [pc EXCEPT ![self] = "t_ret"]
                                                                                                                  /\ UNCHANGED << alive, 
                                                                                                                                  cs, 
                                                                                                                                  pre, 
                                                                                                                                  wnlive, 
                                                                                                                                  res, 
                                                                                                                                  held, 
                                                                                                                                  old, 
                                                                                                                                  wasonline, 
                                                                                                                                  oret >>
                                                                                                             ELSE /\ IF op'[self].op = "pub"
                                                                                                                        THEN /\ pc' = [pc EXCEPT ![self] = "p_xchg"]
                                                                                                                             /\ UNCHANGED << alive, 
                                                                                                                                             cs, 
                                                                                                                                             pre, 
                                                                                                                                             wnlive, 
                                                                                                                                             res, 
                                                                                                                                             held, 
                                                                                                                                             old, 
                                                                                                                                             wasonline, 
                                                                                                                                             oret >>
                                                                                                                        ELSE /\ IF op'[self].op = "sync"
                                                                                                                                   THEN /\ wasonline' = [wasonline EXCEPT ![self] = myctr[self] # 0]
                                                                                                                                        /\ pre' = [pre EXCEPT ![self] = OpenCS \ {<<self, cs[self]>>}]
                                                                                                                                        /\ wnlive' = [wnlive EXCEPT ![self] = TRUE]
                                                                                                                                        /\ IF myctr[self] # 0
                                                                                                                                              THEN /\ cs' = [cs EXCEPT ![self] = 0]
                                                                                                                                                   /\ held' = [held EXCEPT ![self] = NULL]
                                                                                                                                                   /\ oret' = [oret EXCEPT ![self] = "s_mb0"]
                                                                                                                                                   /\ pc' = [pc EXCEPT ![self] = "off_st"]
                                                                                                                                              ELSE /\ pc' = [pc EXCEPT ![self] = "s_mbe"]
                                                                                                                                                   /\ UNCHANGED << cs, 
                                                                                                                                                                   held, 
                                                                                                                                                                   oret >>
                                                                                                                                        /\ UNCHANGED << alive, 
                                                                                                                                                        res, 
                                                                                                                                                        old >>
                                                                                                                                   ELSE /\ IF old[self] # NULL
                                                                                                                                              THEN /\ alive' = [alive EXCEPT ![old[self]] = FALSE]
                                                                                                                                                   /\ res' = [res EXCEPT ![self] = old[self]]
                                                                                                                                                   /\ old' = [old EXCEPT ![self] = NULL]
                                                                                                                                              ELSE /\ TRUE
                                                                                                                                                   /\ UNCHANGED << alive, 
                                                                                                                                                                   res, 
                                                                                                                                                                   old >>
                                                                                                                                        /\ pc' = [pc EXCEPT ![self] = "t_ret"]
                                                                                                                                        /\ UNCHANGED << cs, 
                                                                                                                                                        pre, 
                                                                                                                                                        wnlive, 
                                                                                                                                                        held, 
                                                                                                                                                        wasonline, 
                                                                                                                                                        oret >>
                                     /\ UNCHANGED departed
                     ELSE /\ pc' = [pc EXCEPT ![self] = "t_end"]
                          /\ UNCHANGED << alive, cs, pre, departed, wnlive, op, 
                                          res, held, old, wasonline, oret >>
               /\ UNCHANGED << mem, sb, lock, acc, registry, qsr, sleeping, 
                               woken, wkind, faults, myctr, i, g, f, w, v, 
                               oldh, popped, it, nx, st, wi, wl, scan, setw, 
                               wret, caddr, cval, cret >>

g_lock(self) == /\ pc[self] = "g_lock"
                /\ Drained(self) /\ lock["registry_lock"] = "free"
                /\ lock' = [lock EXCEPT !["registry_lock"] = self]
                /\ acc' = Ev(self, "lock", "registry_lock", "-", "-", "-")
                /\ registry' = <<self>> \o registry
                /\ pc' = [pc EXCEPT ![self] = "g_unl"]
                /\ UNCHANGED << mem, sb, qsr, sleeping, woken, wkind, faults, 
                                myctr, alive, cs, pre, departed, wnlive, i, op, 
                                res, g, f, w, v, held, old, oldh, popped, it, 
                                nx, st, wi, wl, scan, setw, wasonline, oret, 
                                wret, caddr, cval, cret >>

g_unl(self) == /\ pc[self] = "g_unl"
               /\ Drained(self)
               /\ lock' = [lock EXCEPT !["registry_lock"] = "free"]
               /\ acc' = Ev(self, "unlock", "registry_lock", "-", "-", "-")
               /\ oret' = [oret EXCEPT ![self] = "t_ret"]
               /\ pc' = [pc EXCEPT ![self] = "on_ld"]
               /\ UNCHANGED << mem, sb, registry, qsr, sleeping, woken, wkind, 
                               faults, myctr, alive, cs, pre, departed, wnlive, 
                               i, op, res, g, f, w, v, held, old, oldh, popped, 
                               it, nx, st, wi, wl, scan, setw, wasonline, wret, 
                               caddr, cval, cret >>

x_lock(self) == /\ pc[self] = "x_lock"
                /\ Drained(self) /\ lock["registry_lock"] = "free"
                /\ lock' = [lock EXCEPT !["registry_lock"] = self]
                /\ acc' = Ev(self, "lock", "registry_lock", "-", "-", "-")
                /\ /\ qsr' = Remove(qsr, self)
                   /\ registry' = Remove(registry, self)
                /\ departed' = [departed EXCEPT ![self] = TRUE]
                /\ pc' = [pc EXCEPT ![self] = "x_unl"]
                /\ UNCHANGED << mem, sb, sleeping, woken, wkind, faults, myctr, 
                                alive, cs, pre, wnlive, i, op, res, g, f, w, v, 
                                held, old, oldh, popped, it, nx, st, wi, wl, 
                                scan, setw, wasonline, oret, wret, caddr, cval, 
                                cret >>

x_unl(self) == /\ pc[self] = "x_unl"
               /\ Drained(self)
               /\ lock' = [lock EXCEPT !["registry_lock"] = "free"]
               /\ acc' = Ev(self, "unlock", "registry_lock", "-", "-", "-")
               /\ pc' = [pc EXCEPT ![self] = "t_ret"]
               /\ UNCHANGED << mem, sb, registry, qsr, sleeping, woken, wkind, 
                               faults, myctr, alive, cs, pre, departed, wnlive, 
                               i, op, res, g, f, w, v, held, old, oldh, popped, 
                               it, nx, st, wi, wl, scan, setw, wasonline, oret, 
                               wret, caddr, cval, cret >>

q_ld(self) == /\ pc[self] = "q_ld"
              /\ g' = [g EXCEPT ![self] = Rd(self, "gp_ctr")]
              /\ acc' = Ev(self, "ld", "gp_ctr", "-", "-", Rd(self, "gp_ctr"))
              /\ IF g'[self] = myctr[self]
                    THEN /\ pc' = [pc EXCEPT ![self] = "t_ret"]
                    ELSE /\ pc' = [pc EXCEPT ![self] = "q_st"]
              /\ UNCHANGED << mem, sb, lock, registry, qsr, sleeping, woken, 
                              wkind, faults, myctr, alive, cs, pre, departed, 
                              wnlive, i, op, res, f, w, v, held, old, oldh, 
                              popped, it, nx, st, wi, wl, scan, setw, 
                              wasonline, oret, wret, caddr, cval, cret >>

q_st(self) == /\ pc[self] = "q_st"
              /\ IF "q_st" \in Weak
                    THEN /\ IF TSO
                               THEN /\ sb' = [sb EXCEPT ![self] = Append(sb[self], <<(Rctr(self)), g[self]>>)]
                                    /\ mem' = mem
                               ELSE /\ mem' = [mem EXCEPT ![(Rctr(self))] = g[self]]
                                    /\ sb' = sb
                         /\ acc' = Ev(self, "st", (Rctr(self)), g[self], "-", "-")
                    ELSE /\ Drained(self)
                         /\ mem' = [mem EXCEPT ![(Rctr(self))] = g[self]]
                         /\ acc' = Ev(self, "st", (Rctr(self)), g[self], "-", "-")
                         /\ sb' = sb
              /\ myctr' = [myctr EXCEPT ![self] = g[self]]
              /\ wret' = [wret EXCEPT ![self] = "q_mb"]
              /\ pc' = [pc EXCEPT ![self] = "wk_ldw"]
              /\ UNCHANGED << lock, registry, qsr, sleeping, woken, wkind, 
                              faults, alive, cs, pre, departed, wnlive, i, op, 
                              res, g, f, w, v, held, old, oldh, popped, it, nx, 
                              st, wi, wl, scan, setw, wasonline, oret, caddr, 
                              cval, cret >>

q_mb(self) == /\ pc[self] = "q_mb"
              /\ IF "q_mb" \notin Skip
                    THEN /\ Drained(self)
                         /\ acc' = Ev(self, "mb", "-", "-", "-", "-")
                    ELSE /\ TRUE
                         /\ acc' = acc
              /\ pc' = [pc EXCEPT ![self] = "t_ret"]
              /\ UNCHANGED << mem, sb, lock, registry, qsr, sleeping, woken, 
                              wkind, faults, myctr, alive, cs, pre, departed, 
                              wnlive, i, op, res, g, f, w, v, held, old, oldh, 
                              popped, it, nx, st, wi, wl, scan, setw, 
                              wasonline, oret, wret, caddr, cval, cret >>

off_st(self) == /\ pc[self] = "off_st"
                /\ IF "off_st" \in Weak
                      THEN /\ IF TSO
                                 THEN /\ sb' = [sb EXCEPT ![self] = Append(sb[self], <<(Rctr(self)), 0>>)]
                                      /\ mem' = mem
                                 ELSE /\ mem' = [mem EXCEPT ![(Rctr(self))] = 0]
                                      /\ sb' = sb
                           /\ acc' = Ev(self, "st", (Rctr(self)), 0, "-", "-")
                      ELSE /\ Drained(self)
                           /\ mem' = [mem EXCEPT ![(Rctr(self))] = 0]
                           /\ acc' = Ev(self, "st", (Rctr(self)), 0, "-", "-")
                           /\ sb' = sb
                /\ myctr' = [myctr EXCEPT ![self] = 0]
                /\ wret' = [wret EXCEPT ![self] = "off"]
                /\ pc' = [pc EXCEPT ![self] = "wk_ldw"]
                /\ UNCHANGED << lock, registry, qsr, sleeping, woken, wkind, 
                                faults, alive, cs, pre, departed, wnlive, i, 
                                op, res, g, f, w, v, held, old, oldh, popped, 
                                it, nx, st, wi, wl, scan, setw, wasonline, 
                                oret, caddr, cval, cret >>

on_ld(self) == /\ pc[self] = "on_ld"
               /\ g' = [g EXCEPT ![self] = Rd(self, "gp_ctr")]
               /\ acc' = Ev(self, "ld", "gp_ctr", "-", "-", Rd(self, "gp_ctr"))
               /\ pc' = [pc EXCEPT ![self] = "on_st"]
               /\ UNCHANGED << mem, sb, lock, registry, qsr, sleeping, woken, 
                               wkind, faults, myctr, alive, cs, pre, departed, 
                               wnlive, i, op, res, f, w, v, held, old, oldh, 
                               popped, it, nx, st, wi, wl, scan, setw, 
                               wasonline, oret, wret, caddr, cval, cret >>

on_st(self) == /\ pc[self] = "on_st"
               /\ IF TSO
                     THEN /\ sb' = [sb EXCEPT ![self] = Append(sb[self], <<(Rctr(self)), g[self]>>)]
                          /\ mem' = mem
                     ELSE /\ mem' = [mem EXCEPT ![(Rctr(self))] = g[self]]
                          /\ sb' = sb
               /\ acc' = Ev(self, "st", (Rctr(self)), g[self], "-", "-")
               /\ myctr' = [myctr EXCEPT ![self] = g[self]]
               /\ pc' = [pc EXCEPT ![self] = "on_mb"]
               /\ UNCHANGED << lock, registry, qsr, sleeping, woken, wkind, 
                               faults, alive, cs, pre, departed, wnlive, i, op, 
                               res, g, f, w, v, held, old, oldh, popped, it, 
                               nx, st, wi, wl, scan, setw, wasonline, oret, 
                               wret, caddr, cval, cret >>

on_mb(self) == /\ pc[self] = "on_mb"
               /\ IF "on_mb" \notin Skip
                     THEN /\ Drained(self)
                          /\ acc' = Ev(self, "mb", "-", "-", "-", "-")
                     ELSE /\ TRUE
                          /\ acc' = acc
               /\ IF oret[self] = "t_ret"
                     THEN /\ pc' = [pc EXCEPT ![self] = "t_ret"]
                     ELSE /\ pc' = [pc EXCEPT ![self] = "s_ret"]
               /\ UNCHANGED << mem, sb, lock, registry, qsr, sleeping, woken, 
                               wkind, faults, myctr, alive, cs, pre, departed, 
                               wnlive, i, op, res, g, f, w, v, held, old, oldh, 
                               popped, it, nx, st, wi, wl, scan, setw, 
                               wasonline, oret, wret, caddr, cval, cret >>

wk_ldw(self) == /\ pc[self] = "wk_ldw"
                /\ w' = [w EXCEPT ![self] = Rd(self, (Rwait(self)))]
                /\ acc' = Ev(self, "ld", (Rwait(self)), "-", "-", Rd(self, (Rwait(self))))
                /\ IF w'[self] = 0
                      THEN /\ IF wret[self] = "q_mb"
                                 THEN /\ pc' = [pc EXCEPT ![self] = "q_mb"]
                                 ELSE /\ IF oret[self] = "t_ret"
                                            THEN /\ pc' = [pc EXCEPT ![self] = "t_ret"]
                                            ELSE /\ IF oret[self] = "x_lock"
                                                       THEN /\ pc' = [pc EXCEPT ![self] = "x_lock"]
                                                       ELSE /\ pc' = [pc EXCEPT ![self] = "s_mb0"]
                      ELSE /\ pc' = [pc EXCEPT ![self] = "wk_stw"]
                /\ UNCHANGED << mem, sb, lock, registry, qsr, sleeping, woken, 
                                wkind, faults, myctr, alive, cs, pre, departed, 
                                wnlive, i, op, res, g, f, v, held, old, oldh, 
                                popped, it, nx, st, wi, wl, scan, setw, 
                                wasonline, oret, wret, caddr, cval, cret >>

wk_stw(self) == /\ pc[self] = "wk_stw"
                /\ IF TSO
                      THEN /\ sb' = [sb EXCEPT ![self] = Append(sb[self], <<(Rwait(self)), 0>>)]
                           /\ mem' = mem
                      ELSE /\ mem' = [mem EXCEPT ![(Rwait(self))] = 0]
                           /\ sb' = sb
                /\ acc' = Ev(self, "st", (Rwait(self)), 0, "-", "-")
                /\ pc' = [pc EXCEPT ![self] = "wk_mb"]
                /\ UNCHANGED << lock, registry, qsr, sleeping, woken, wkind, 
                                faults, myctr, alive, cs, pre, departed, 
                                wnlive, i, op, res, g, f, w, v, held, old, 
                                oldh, popped, it, nx, st, wi, wl, scan, setw, 
                                wasonline, oret, wret, caddr, cval, cret >>

wk_mb(self) == /\ pc[self] = "wk_mb"
               /\ IF "wk_mb" \notin Skip
                     THEN /\ Drained(self)
                          /\ acc' = Ev(self, "mb", "-", "-", "-", "-")
                     ELSE /\ TRUE
                          /\ acc' = acc
               /\ pc' = [pc EXCEPT ![self] = "wk_ldf"]
               /\ UNCHANGED << mem, sb, lock, registry, qsr, sleeping, woken, 
                               wkind, faults, myctr, alive, cs, pre, departed, 
                               wnlive, i, op, res, g, f, w, v, held, old, oldh, 
                               popped, it, nx, st, wi, wl, scan, setw, 
                               wasonline, oret, wret, caddr, cval, cret >>

wk_ldf(self) == /\ pc[self] = "wk_ldf"
                /\ f' = [f EXCEPT ![self] = Rd(self, "gp_futex")]
                /\ acc' = Ev(self, "ld", "gp_futex", "-", "-", Rd(self, "gp_futex"))
                /\ IF f'[self] # -1
                      THEN /\ IF wret[self] = "q_mb"
                                 THEN /\ pc' = [pc EXCEPT ![self] = "q_mb"]
                                 ELSE /\ IF oret[self] = "t_ret"
                                            THEN /\ pc' = [pc EXCEPT ![self] = "t_ret"]
                                            ELSE /\ IF oret[self] = "x_lock"
                                                       THEN /\ pc' = [pc EXCEPT ![self] = "x_lock"]
                                                       ELSE /\ pc' = [pc EXCEPT ![self] = "s_mb0"]
                      ELSE /\ pc' = [pc EXCEPT ![self] = "wk_stf"]
                /\ UNCHANGED << mem, sb, lock, registry, qsr, sleeping, woken, 
                                wkind, faults, myctr, alive, cs, pre, departed, 
                                wnlive, i, op, res, g, w, v, held, old, oldh, 
                                popped, it, nx, st, wi, wl, scan, setw, 
                                wasonline, oret, wret, caddr, cval, cret >>

wk_stf(self) == /\ pc[self] = "wk_stf"
                /\ IF TSO
                      THEN /\ sb' = [sb EXCEPT ![self] = Append(sb[self], <<"gp_futex", 0>>)]
                           /\ mem' = mem
                      ELSE /\ mem' = [mem EXCEPT !["gp_futex"] = 0]
                           /\ sb' = sb
                /\ acc' = Ev(self, "st", "gp_futex", 0, "-", "-")
                /\ pc' = [pc EXCEPT ![self] = "wk_wake"]
                /\ UNCHANGED << lock, registry, qsr, sleeping, woken, wkind, 
                                faults, myctr, alive, cs, pre, departed, 
                                wnlive, i, op, res, g, f, w, v, held, old, 
                                oldh, popped, it, nx, st, wi, wl, scan, setw, 
                                wasonline, oret, wret, caddr, cval, cret >>

wk_wake(self) == /\ pc[self] = "wk_wake"
                 /\ IF FutexMode = "compat"
                       THEN /\ Drained(self)
                            /\ acc' = Ev(self, "fwake", "gp_futex", "-", "-", "ENOSYS")
                            /\ cret' = [cret EXCEPT ![self] = "wk"]
                            /\ pc' = [pc EXCEPT ![self] = "c_mb"]
                            /\ woken' = woken
                       ELSE /\ Drained(self)
                            /\ \E x \in IF Sleepers("gp_futex") = {} THEN {"none"} ELSE Sleepers("gp_futex"):
                                 /\ IF x # "none"
                                       THEN /\ woken' = [woken EXCEPT ![x] = TRUE]
                                       ELSE /\ TRUE
                                            /\ woken' = woken
                                 /\ acc' = Ev(self, "fwake", "gp_futex", "-", "-", IF x = "none" THEN 0 ELSE 1)
                            /\ IF wret[self] = "q_mb"
                                  THEN /\ pc' = [pc EXCEPT ![self] = "q_mb"]
                                  ELSE /\ IF oret[self] = "t_ret"
                                             THEN /\ pc' = [pc EXCEPT ![self] = "t_ret"]
                                             ELSE /\ IF oret[self] = "x_lock"
                                                        THEN /\ pc' = [pc EXCEPT ![self] = "x_lock"]
                                                        ELSE /\ pc' = [pc EXCEPT ![self] = "s_mb0"]
                            /\ cret' = cret
                 /\ UNCHANGED << mem, sb, lock, registry, qsr, sleeping, wkind, 
                                 faults, myctr, alive, cs, pre, departed, 
                                 wnlive, i, op, res, g, f, w, v, held, old, 
                                 oldh, popped, it, nx, st, wi, wl, scan, setw, 
                                 wasonline, oret, wret, caddr, cval >>

dr_ld(self) == /\ pc[self] = "dr_ld"
               /\ held' = [held EXCEPT ![self] = Rd(self, "gptr")]
               /\ acc' = Ev(self, "ld", "gptr", "-", "-", Rd(self, "gptr"))
               /\ res' = [res EXCEPT ![self] = held'[self]]
               /\ pc' = [pc EXCEPT ![self] = "t_ret"]
               /\ UNCHANGED << mem, sb, lock, registry, qsr, sleeping, woken, 
                               wkind, faults, myctr, alive, cs, pre, departed, 
                               wnlive, i, op, g, f, w, v, old, oldh, popped, 
                               it, nx, st, wi, wl, scan, setw, wasonline, oret, 
                               wret, caddr, cval, cret >>

p_xchg(self) == /\ pc[self] = "p_xchg"
                /\ Drained(self)
                /\ old' = [old EXCEPT ![self] = mem["gptr"]]
                /\ mem' = [mem EXCEPT !["gptr"] = op[self].o]
                /\ acc' = Ev(self, "xchg", "gptr", (op[self].o), "-", old'[self])
                /\ res' = [res EXCEPT ![self] = old'[self]]
                /\ pc' = [pc EXCEPT ![self] = "t_ret"]
                /\ UNCHANGED << sb, lock, registry, qsr, sleeping, woken, 
                                wkind, faults, myctr, alive, cs, pre, departed, 
                                wnlive, i, op, g, f, w, v, held, oldh, popped, 
                                it, nx, st, wi, wl, scan, setw, wasonline, 
                                oret, wret, caddr, cval, cret >>

s_mbe(self) == /\ pc[self] = "s_mbe"
               /\ IF "s_mbe" \notin Skip
                     THEN /\ Drained(self)
                          /\ acc' = Ev(self, "mb", "-", "-", "-", "-")
                     ELSE /\ TRUE
                          /\ acc' = acc
               /\ pc' = [pc EXCEPT ![self] = "s_mb0"]
               /\ UNCHANGED << mem, sb, lock, registry, qsr, sleeping, woken, 
                               wkind, faults, myctr, alive, cs, pre, departed, 
                               wnlive, i, op, res, g, f, w, v, held, old, oldh, 
                               popped, it, nx, st, wi, wl, scan, setw, 
                               wasonline, oret, wret, caddr, cval, cret >>

s_mb0(self) == /\ pc[self] = "s_mb0"
               /\ IF "s_mb0" \notin Skip
                     THEN /\ Drained(self)
                          /\ acc' = Ev(self, "mb", "-", "-", "-", "-")
                     ELSE /\ TRUE
                          /\ acc' = acc
               /\ pc' = [pc EXCEPT ![self] = "s_push"]
               /\ UNCHANGED << mem, sb, lock, registry, qsr, sleeping, woken, 
                               wkind, faults, myctr, alive, cs, pre, departed, 
                               wnlive, i, op, res, g, f, w, v, held, old, oldh, 
                               popped, it, nx, st, wi, wl, scan, setw, 
                               wasonline, oret, wret, caddr, cval, cret >>

s_push(self) == /\ pc[self] = "s_push"
                /\ Drained(self)
                /\ oldh' = [oldh EXCEPT ![self] = mem["waiters"]]
                /\ mem' = [mem EXCEPT !["waiters"] = Wn(self)]
                /\ acc' = Ev(self, "xchg", "waiters", (Wn(self)), "-", oldh'[self])
                /\ pc' = [pc EXCEPT ![self] = "s_link"]
                /\ UNCHANGED << sb, lock, registry, qsr, sleeping, woken, 
                                wkind, faults, myctr, alive, cs, pre, departed, 
                                wnlive, i, op, res, g, f, w, v, held, old, 
                                popped, it, nx, st, wi, wl, scan, setw, 
                                wasonline, oret, wret, caddr, cval, cret >>

s_link(self) == /\ pc[self] = "s_link"
                /\ IF TSO
                      THEN /\ sb' = [sb EXCEPT ![self] = Append(sb[self], <<(WnNext(Wn(self))), oldh[self]>>)]
                           /\ mem' = mem
                      ELSE /\ mem' = [mem EXCEPT ![(WnNext(Wn(self)))] = oldh[self]]
                           /\ sb' = sb
                /\ acc' = Ev(self, "st", (WnNext(Wn(self))), oldh[self], "-", "-")
                /\ IF oldh[self] # END
                      THEN /\ wi' = [wi EXCEPT ![self] = 0]
                           /\ pc' = [pc EXCEPT ![self] = "a_ld1"]
                      ELSE /\ pc' = [pc EXCEPT ![self] = "s_run"]
                           /\ wi' = wi
                /\ UNCHANGED << lock, registry, qsr, sleeping, woken, wkind, 
                                faults, myctr, alive, cs, pre, departed, 
                                wnlive, i, op, res, g, f, w, v, held, old, 
                                oldh, popped, it, nx, st, wl, scan, setw, 
                                wasonline, oret, wret, caddr, cval, cret >>

s_run(self) == /\ pc[self] = "s_run"
               /\ IF Tracing \/ ~TSO
                     THEN /\ Drained(self)
                          /\ mem' = [mem EXCEPT ![WnState(Wn(self))] = RUNNING]
                          /\ sb' = sb
                     ELSE /\ sb' = [sb EXCEPT ![self] = Append(sb[self], <<WnState(Wn(self)), RUNNING>>)]
                          /\ mem' = mem
               /\ pc' = [pc EXCEPT ![self] = "s_gplk"]
               /\ UNCHANGED << lock, acc, registry, qsr, sleeping, woken, 
                               wkind, faults, myctr, alive, cs, pre, departed, 
                               wnlive, i, op, res, g, f, w, v, held, old, oldh, 
                               popped, it, nx, st, wi, wl, scan, setw, 
                               wasonline, oret, wret, caddr, cval, cret >>

s_gplk(self) == /\ pc[self] = "s_gplk"
                /\ Drained(self) /\ lock["gp_lock"] = "free"
                /\ lock' = [lock EXCEPT !["gp_lock"] = self]
                /\ acc' = Ev(self, "lock", "gp_lock", "-", "-", "-")
                /\ pc' = [pc EXCEPT ![self] = "s_pop"]
                /\ UNCHANGED << mem, sb, registry, qsr, sleeping, woken, wkind, 
                                faults, myctr, alive, cs, pre, departed, 
                                wnlive, i, op, res, g, f, w, v, held, old, 
                                oldh, popped, it, nx, st, wi, wl, scan, setw, 
                                wasonline, oret, wret, caddr, cval, cret >>

s_pop(self) == /\ pc[self] = "s_pop"
               /\ Drained(self)
               /\ popped' = [popped EXCEPT ![self] = mem["waiters"]]
               /\ mem' = [mem EXCEPT !["waiters"] = END]
               /\ acc' = Ev(self, "xchg", "waiters", END, "-", popped'[self])
               /\ pc' = [pc EXCEPT ![self] = "s_popmb"]
               /\ UNCHANGED << sb, lock, registry, qsr, sleeping, woken, wkind, 
                               faults, myctr, alive, cs, pre, departed, wnlive, 
                               i, op, res, g, f, w, v, held, old, oldh, it, nx, 
                               st, wi, wl, scan, setw, wasonline, oret, wret, 
                               caddr, cval, cret >>

s_popmb(self) == /\ pc[self] = "s_popmb"
                 /\ IF "s_popmb" \notin Skip
                       THEN /\ Drained(self)
                            /\ acc' = Ev(self, "mb", "-", "-", "-", "-")
                       ELSE /\ TRUE
                            /\ acc' = acc
                 /\ pc' = [pc EXCEPT ![self] = "s_rglk"]
                 /\ UNCHANGED << mem, sb, lock, registry, qsr, sleeping, woken, 
                                 wkind, faults, myctr, alive, cs, pre, 
                                 departed, wnlive, i, op, res, g, f, w, v, 
                                 held, old, oldh, popped, it, nx, st, wi, wl, 
                                 scan, setw, wasonline, oret, wret, caddr, 
                                 cval, cret >>

s_rglk(self) == /\ pc[self] = "s_rglk"
                /\ Drained(self) /\ lock["registry_lock"] = "free"
                /\ lock' = [lock EXCEPT !["registry_lock"] = self]
                /\ acc' = Ev(self, "lock", "registry_lock", "-", "-", "-")
                /\ IF registry = <<>>
                      THEN /\ pc' = [pc EXCEPT ![self] = "s_out"]
                      ELSE /\ pc' = [pc EXCEPT ![self] = "s_inc"]
                /\ UNCHANGED << mem, sb, registry, qsr, sleeping, woken, wkind, 
                                faults, myctr, alive, cs, pre, departed, 
                                wnlive, i, op, res, g, f, w, v, held, old, 
                                oldh, popped, it, nx, st, wi, wl, scan, setw, 
                                wasonline, oret, wret, caddr, cval, cret >>

s_inc(self) == /\ pc[self] = "s_inc"
               /\ IF TSO
                     THEN /\ sb' = [sb EXCEPT ![self] = Append(sb[self], <<"gp_ctr", (Rd(self, "gp_ctr") + GP_CTR)>>)]
                          /\ mem' = mem
                     ELSE /\ mem' = [mem EXCEPT !["gp_ctr"] = Rd(self, "gp_ctr") + GP_CTR]
                          /\ sb' = sb
               /\ acc' = Ev(self, "st", "gp_ctr", (Rd(self, "gp_ctr") + GP_CTR), "-", "-")
               /\ pc' = [pc EXCEPT ![self] = "s_mb1"]
               /\ UNCHANGED << lock, registry, qsr, sleeping, woken, wkind, 
                               faults, myctr, alive, cs, pre, departed, wnlive, 
                               i, op, res, g, f, w, v, held, old, oldh, popped, 
                               it, nx, st, wi, wl, scan, setw, wasonline, oret, 
                               wret, caddr, cval, cret >>

s_mb1(self) == /\ pc[self] = "s_mb1"
               /\ IF "s_mb1" \notin Skip
                     THEN /\ Drained(self)
                          /\ acc' = Ev(self, "mb", "-", "-", "-", "-")
                     ELSE /\ TRUE
                          /\ acc' = acc
               /\ wl' = [wl EXCEPT ![self] = NextWl(0)]
               /\ scan' = [scan EXCEPT ![self] = registry]
               /\ IF NextWl(0) >= QSAttempts
                     THEN /\ pc' = [pc EXCEPT ![self] = "w_stf"]
                     ELSE /\ pc' = [pc EXCEPT ![self] = "w_ldr"]
               /\ UNCHANGED << mem, sb, lock, registry, qsr, sleeping, woken, 
                               wkind, faults, myctr, alive, cs, pre, departed, 
                               wnlive, i, op, res, g, f, w, v, held, old, oldh, 
                               popped, it, nx, st, wi, setw, wasonline, oret, 
                               wret, caddr, cval, cret >>

w_stf(self) == /\ pc[self] = "w_stf"
               /\ IF TSO
                     THEN /\ sb' = [sb EXCEPT ![self] = Append(sb[self], <<"gp_futex", (-1)>>)]
                          /\ mem' = mem
                     ELSE /\ mem' = [mem EXCEPT !["gp_futex"] = -1]
                          /\ sb' = sb
               /\ acc' = Ev(self, "st", "gp_futex", (-1), "-", "-")
               /\ setw' = [setw EXCEPT ![self] = registry]
               /\ IF registry = <<>>
                     THEN /\ pc' = [pc EXCEPT ![self] = "w_mb"]
                     ELSE /\ pc' = [pc EXCEPT ![self] = "w_stw"]
               /\ UNCHANGED << lock, registry, qsr, sleeping, woken, wkind, 
                               faults, myctr, alive, cs, pre, departed, wnlive, 
                               i, op, res, g, f, w, v, held, old, oldh, popped, 
                               it, nx, st, wi, wl, scan, wasonline, oret, wret, 
                               caddr, cval, cret >>

w_stw(self) == /\ pc[self] = "w_stw"
               /\ Assert(~departed[Head(setw[self])], 
                         "Failure of assertion at line 223, column 11.")
               /\ IF TSO
                     THEN /\ sb' = [sb EXCEPT ![self] = Append(sb[self], <<(Rwait(Head(setw[self]))), 1>>)]
                          /\ mem' = mem
                     ELSE /\ mem' = [mem EXCEPT ![(Rwait(Head(setw[self])))] = 1]
                          /\ sb' = sb
               /\ acc' = Ev(self, "st", (Rwait(Head(setw[self]))), 1, "-", "-")
               /\ setw' = [setw EXCEPT ![self] = Tail(setw[self])]
               /\ IF setw'[self] # <<>>
                     THEN /\ pc' = [pc EXCEPT ![self] = "w_stw"]
                     ELSE /\ pc' = [pc EXCEPT ![self] = "w_mb"]
               /\ UNCHANGED << lock, registry, qsr, sleeping, woken, wkind, 
                               faults, myctr, alive, cs, pre, departed, wnlive, 
                               i, op, res, g, f, w, v, held, old, oldh, popped, 
                               it, nx, st, wi, wl, scan, wasonline, oret, wret, 
                               caddr, cval, cret >>

w_mb(self) == /\ pc[self] = "w_mb"
              /\ IF "w_mb" \notin Skip
                    THEN /\ Drained(self)
                         /\ acc' = Ev(self, "mb", "-", "-", "-", "-")
                    ELSE /\ TRUE
                         /\ acc' = acc
              /\ scan' = [scan EXCEPT ![self] = registry]
              /\ IF registry = <<>>
                    THEN /\ pc' = [pc EXCEPT ![self] = "w_st0"]
                    ELSE /\ pc' = [pc EXCEPT ![self] = "w_ldr"]
              /\ UNCHANGED << mem, sb, lock, registry, qsr, sleeping, woken, 
                              wkind, faults, myctr, alive, cs, pre, departed, 
                              wnlive, i, op, res, g, f, w, v, held, old, oldh, 
                              popped, it, nx, st, wi, wl, setw, wasonline, 
                              oret, wret, caddr, cval, cret >>

w_ldr(self) == /\ pc[self] = "w_ldr"
               /\ Assert(~departed[Head(scan[self])], 
                         "Failure of assertion at line 230, column 11.")
               /\ v' = [v EXCEPT ![self] = Rd(self, Rctr(Head(scan[self])))]
               /\ acc' = Ev(self, "ld", Rctr(Head(scan[self])), "-", "-", Rd(self, Rctr(Head(scan[self]))))
               /\ IF Rd(self, Rctr(Head(scan[self]))) = 0 \/ Rd(self, Rctr(Head(scan[self]))) = Rd(self, "gp_ctr")
                     THEN /\ /\ qsr' = <<Head(scan[self])>> \o qsr
                             /\ registry' = Remove(registry, Head(scan[self]))
                     ELSE /\ TRUE
                          /\ UNCHANGED << registry, qsr >>
               /\ scan' = [scan EXCEPT ![self] = Tail(scan[self])]
               /\ IF scan'[self] # <<>>
                     THEN /\ pc' = [pc EXCEPT ![self] = "w_ldr"]
                     ELSE /\ IF registry' # <<>>
                                THEN /\ pc' = [pc EXCEPT ![self] = "w_unl"]
                                ELSE /\ IF wl[self] >= QSAttempts
                                           THEN /\ pc' = [pc EXCEPT ![self] = "w_st0"]
                                           ELSE /\ pc' = [pc EXCEPT ![self] = "s_out"]
               /\ UNCHANGED << mem, sb, lock, sleeping, woken, wkind, faults, 
                               myctr, alive, cs, pre, departed, wnlive, i, op, 
                               res, g, f, w, held, old, oldh, popped, it, nx, 
                               st, wi, wl, setw, wasonline, oret, wret, caddr, 
                               cval, cret >>

w_st0(self) == /\ pc[self] = "w_st0"
               /\ IF TSO
                     THEN /\ sb' = [sb EXCEPT ![self] = Append(sb[self], <<"gp_futex", 0>>)]
                          /\ mem' = mem
                     ELSE /\ mem' = [mem EXCEPT !["gp_futex"] = 0]
                          /\ sb' = sb
               /\ acc' = Ev(self, "st", "gp_futex", 0, "-", "-")
               /\ pc' = [pc EXCEPT ![self] = "s_out"]
               /\ UNCHANGED << lock, registry, qsr, sleeping, woken, wkind, 
                               faults, myctr, alive, cs, pre, departed, wnlive, 
                               i, op, res, g, f, w, v, held, old, oldh, popped, 
                               it, nx, st, wi, wl, scan, setw, wasonline, oret, 
                               wret, caddr, cval, cret >>

w_unl(self) == /\ pc[self] = "w_unl"
               /\ Drained(self)
               /\ lock' = [lock EXCEPT !["registry_lock"] = "free"]
               /\ acc' = Ev(self, "unlock", "registry_lock", "-", "-", "-")
               /\ IF wl[self] < QSAttempts
                     THEN /\ pc' = [pc EXCEPT ![self] = "w_relock"]
                     ELSE /\ pc' = [pc EXCEPT ![self] = "wg_ld"]
               /\ UNCHANGED << mem, sb, registry, qsr, sleeping, woken, wkind, 
                               faults, myctr, alive, cs, pre, departed, wnlive, 
                               i, op, res, g, f, w, v, held, old, oldh, popped, 
                               it, nx, st, wi, wl, scan, setw, wasonline, oret, 
                               wret, caddr, cval, cret >>

wg_ld(self) == /\ pc[self] = "wg_ld"
               /\ f' = [f EXCEPT ![self] = Rd(self, "gp_futex")]
               /\ acc' = Ev(self, "ld", "gp_futex", "-", "-", Rd(self, "gp_futex"))
               /\ IF f'[self] # -1
                     THEN /\ pc' = [pc EXCEPT ![self] = "w_relock"]
                     ELSE /\ pc' = [pc EXCEPT ![self] = "wg_fw"]
               /\ UNCHANGED << mem, sb, lock, registry, qsr, sleeping, woken, 
                               wkind, faults, myctr, alive, cs, pre, departed, 
                               wnlive, i, op, res, g, w, v, held, old, oldh, 
                               popped, it, nx, st, wi, wl, scan, setw, 
                               wasonline, oret, wret, caddr, cval, cret >>

wg_fw(self) == /\ pc[self] = "wg_fw"
               /\ Drained(self)
               /\ IF FutexMode = "compat"
                     THEN /\ acc' = Ev(self, "fwait", "gp_futex", "-", "-", "ENOSYS")
                          /\ caddr' = [caddr EXCEPT ![self] = "gp_futex"]
                          /\ cval' = [cval EXCEPT ![self] = -1]
                          /\ cret' = [cret EXCEPT ![self] = "wg_ld"]
                          /\ pc' = [pc EXCEPT ![self] = "c_mb"]
                          /\ UNCHANGED << sleeping, woken >>
                     ELSE /\ IF mem["gp_futex"] # -1
                                THEN /\ acc' = Ev(self, "fwait", "gp_futex", -1, "-", "EAGAIN")
                                     /\ pc' = [pc EXCEPT ![self] = "w_relock"]
                                     /\ UNCHANGED << sleeping, woken >>
                                ELSE /\ sleeping' = [sleeping EXCEPT ![self] = "gp_futex"]
                                     /\ woken' = [woken EXCEPT ![self] = FALSE]
                                     /\ acc' = Ev(self, "fwait", "gp_futex", -1, "-", "SLEEP")
                                     /\ pc' = [pc EXCEPT ![self] = "wg_wk"]
                          /\ UNCHANGED << caddr, cval, cret >>
               /\ UNCHANGED << mem, sb, lock, registry, qsr, wkind, faults, 
                               myctr, alive, cs, pre, departed, wnlive, i, op, 
                               res, g, f, w, v, held, old, oldh, popped, it, 
                               nx, st, wi, wl, scan, setw, wasonline, oret, 
                               wret >>

wg_wk(self) == /\ pc[self] = "wg_wk"
               /\ woken[self]
               /\ acc' = Ev(self, "fwoke", "gp_futex", "-", "-", IF wkind[self] = "none" THEN "WAKE" ELSE wkind[self])
               /\ sleeping' = [sleeping EXCEPT ![self] = "none"]
               /\ woken' = [woken EXCEPT ![self] = FALSE]
               /\ wkind' = [wkind EXCEPT ![self] = "none"]
               /\ pc' = [pc EXCEPT ![self] = "wg_ld"]
               /\ UNCHANGED << mem, sb, lock, registry, qsr, faults, myctr, 
                               alive, cs, pre, departed, wnlive, i, op, res, g, 
                               f, w, v, held, old, oldh, popped, it, nx, st, 
                               wi, wl, scan, setw, wasonline, oret, wret, 
                               caddr, cval, cret >>

w_relock(self) == /\ pc[self] = "w_relock"
                  /\ Drained(self) /\ lock["registry_lock"] = "free"
                  /\ lock' = [lock EXCEPT !["registry_lock"] = self]
                  /\ acc' = Ev(self, "lock", "registry_lock", "-", "-", "-")
                  /\ wl' = [wl EXCEPT ![self] = NextWl(wl[self])]
                  /\ scan' = [scan EXCEPT ![self] = registry]
                  /\ IF wl'[self] >= QSAttempts
                        THEN /\ pc' = [pc EXCEPT ![self] = "w_stf"]
                        ELSE /\ IF registry = <<>>
                                   THEN /\ pc' = [pc EXCEPT ![self] = "s_out"]
                                   ELSE /\ pc' = [pc EXCEPT ![self] = "w_ldr"]
                  /\ UNCHANGED << mem, sb, registry, qsr, sleeping, woken, 
                                  wkind, faults, myctr, alive, cs, pre, 
                                  departed, wnlive, i, op, res, g, f, w, v, 
                                  held, old, oldh, popped, it, nx, st, wi, 
                                  setw, wasonline, oret, wret, caddr, cval, 
                                  cret >>

s_out(self) == /\ pc[self] = "s_out"
               /\ Drained(self)
               /\ lock' = [lock EXCEPT !["registry_lock"] = "free"]
               /\ acc' = Ev(self, "unlock", "registry_lock", "-", "-", "-")
               /\ /\ qsr' = <<>>
                  /\ registry' = qsr \o registry
               /\ pc' = [pc EXCEPT ![self] = "s_gpun"]
               /\ UNCHANGED << mem, sb, sleeping, woken, wkind, faults, myctr, 
                               alive, cs, pre, departed, wnlive, i, op, res, g, 
                               f, w, v, held, old, oldh, popped, it, nx, st, 
                               wi, wl, scan, setw, wasonline, oret, wret, 
                               caddr, cval, cret >>

s_gpun(self) == /\ pc[self] = "s_gpun"
                /\ Drained(self)
                /\ lock' = [lock EXCEPT !["gp_lock"] = "free"]
                /\ acc' = Ev(self, "unlock", "gp_lock", "-", "-", "-")
                /\ it' = [it EXCEPT ![self] = popped[self]]
                /\ IF popped[self] # END
                      THEN /\ pc' = [pc EXCEPT ![self] = "k_next"]
                           /\ oret' = oret
                      ELSE /\ IF wasonline[self]
                                 THEN /\ oret' = [oret EXCEPT ![self] = "s_ret"]
                                      /\ pc' = [pc EXCEPT ![self] = "on_ld"]
                                 ELSE /\ pc' = [pc EXCEPT ![self] = "s_mbx"]
                                      /\ oret' = oret
                /\ UNCHANGED << mem, sb, registry, qsr, sleeping, woken, wkind, 
                                faults, myctr, alive, cs, pre, departed, 
                                wnlive, i, op, res, g, f, w, v, held, old, 
                                oldh, popped, nx, st, wi, wl, scan, setw, 
                                wasonline, wret, caddr, cval, cret >>

k_next(self) == /\ pc[self] = "k_next"
                /\ Assert(wnlive[WnOwner(it[self])], 
                          "Failure of assertion at line 268, column 11.")
                /\ nx' = [nx EXCEPT ![self] = Rd(self, (WnNext(it[self])))]
                /\ acc' = Ev(self, "ld", (WnNext(it[self])), "-", "-", Rd(self, (WnNext(it[self]))))
                /\ IF nx'[self] = NULL
                      THEN /\ pc' = [pc EXCEPT ![self] = "k_next"]
                      ELSE /\ pc' = [pc EXCEPT ![self] = "k_ldst"]
                /\ UNCHANGED << mem, sb, lock, registry, qsr, sleeping, woken, 
                                wkind, faults, myctr, alive, cs, pre, departed, 
                                wnlive, i, op, res, g, f, w, v, held, old, 
                                oldh, popped, it, st, wi, wl, scan, setw, 
                                wasonline, oret, wret, caddr, cval, cret >>

k_ldst(self) == /\ pc[self] = "k_ldst"
                /\ Assert(wnlive[WnOwner(it[self])], 
                          "Failure of assertion at line 271, column 11.")
                /\ st' = [st EXCEPT ![self] = Rd(self, (WnState(it[self])))]
                /\ acc' = Ev(self, "ld", (WnState(it[self])), "-", "-", Rd(self, (WnState(it[self]))))
                /\ IF HasBit(st'[self], RUNNING)
                      THEN /\ it' = [it EXCEPT ![self] = nx[self]]
                           /\ IF nx[self] # END
                                 THEN /\ pc' = [pc EXCEPT ![self] = "k_next"]
                                      /\ oret' = oret
                                 ELSE /\ IF wasonline[self]
                                            THEN /\ oret' = [oret EXCEPT ![self] = "s_ret"]
                                                 /\ pc' = [pc EXCEPT ![self] = "on_ld"]
                                            ELSE /\ pc' = [pc EXCEPT ![self] = "s_mbx"]
                                                 /\ oret' = oret
                      ELSE /\ pc' = [pc EXCEPT ![self] = "k_as"]
                           /\ UNCHANGED << it, oret >>
                /\ UNCHANGED << mem, sb, lock, registry, qsr, sleeping, woken, 
                                wkind, faults, myctr, alive, cs, pre, departed, 
                                wnlive, i, op, res, g, f, w, v, held, old, 
                                oldh, popped, nx, wi, wl, scan, setw, 
                                wasonline, wret, caddr, cval, cret >>

k_as(self) == /\ pc[self] = "k_as"
              /\ Assert(wnlive[WnOwner(it[self])], 
                        "Failure of assertion at line 274, column 11.")
              /\ st' = [st EXCEPT ![self] = Rd(self, (WnState(it[self])))]
              /\ acc' = Ev(self, "ld", (WnState(it[self])), "-", "-", Rd(self, (WnState(it[self]))))
              /\ Assert(st'[self] = WAITING, 
                        "Failure of assertion at line 276, column 11.")
              /\ pc' = [pc EXCEPT ![self] = "k_wk"]
              /\ UNCHANGED << mem, sb, lock, registry, qsr, sleeping, woken, 
                              wkind, faults, myctr, alive, cs, pre, departed, 
                              wnlive, i, op, res, g, f, w, v, held, old, oldh, 
                              popped, it, nx, wi, wl, scan, setw, wasonline, 
                              oret, wret, caddr, cval, cret >>

k_wk(self) == /\ pc[self] = "k_wk"
              /\ Assert(wnlive[WnOwner(it[self])], 
                        "Failure of assertion at line 277, column 11.")
              /\ IF TSO
                    THEN /\ sb' = [sb EXCEPT ![self] = Append(sb[self], <<(WnState(it[self])), WAKEUP>>)]
                         /\ mem' = mem
                    ELSE /\ mem' = [mem EXCEPT ![(WnState(it[self]))] = WAKEUP]
                         /\ sb' = sb
              /\ acc' = Ev(self, "st", (WnState(it[self])), WAKEUP, "-", "-")
              /\ pc' = [pc EXCEPT ![self] = "k_ld2"]
              /\ UNCHANGED << lock, registry, qsr, sleeping, woken, wkind, 
                              faults, myctr, alive, cs, pre, departed, wnlive, 
                              i, op, res, g, f, w, v, held, old, oldh, popped, 
                              it, nx, st, wi, wl, scan, setw, wasonline, oret, 
                              wret, caddr, cval, cret >>

k_ld2(self) == /\ pc[self] = "k_ld2"
               /\ Assert(wnlive[WnOwner(it[self])], 
                         "Failure of assertion at line 279, column 11.")
               /\ st' = [st EXCEPT ![self] = Rd(self, (WnState(it[self])))]
               /\ acc' = Ev(self, "ld", (WnState(it[self])), "-", "-", Rd(self, (WnState(it[self]))))
               /\ IF HasBit(st'[self], RUNNING)
                     THEN /\ pc' = [pc EXCEPT ![self] = "k_or"]
                     ELSE /\ pc' = [pc EXCEPT ![self] = "k_fw"]
               /\ UNCHANGED << mem, sb, lock, registry, qsr, sleeping, woken, 
                               wkind, faults, myctr, alive, cs, pre, departed, 
                               wnlive, i, op, res, g, f, w, v, held, old, oldh, 
                               popped, it, nx, wi, wl, scan, setw, wasonline, 
                               oret, wret, caddr, cval, cret >>

k_fw(self) == /\ pc[self] = "k_fw"
              /\ IF FutexMode = "compat"
                    THEN /\ Drained(self)
                         /\ acc' = Ev(self, "fwake", WnState(it[self]), "-", "-", "ENOSYS")
                         /\ cret' = [cret EXCEPT ![self] = "k_or"]
                         /\ pc' = [pc EXCEPT ![self] = "c_mb"]
                         /\ woken' = woken
                    ELSE /\ Drained(self)
                         /\ \E x \in IF Sleepers((WnState(it[self]))) = {} THEN {"none"} ELSE Sleepers((WnState(it[self]))):
                              /\ IF x # "none"
                                    THEN /\ woken' = [woken EXCEPT ![x] = TRUE]
                                    ELSE /\ TRUE
                                         /\ woken' = woken
                              /\ acc' = Ev(self, "fwake", (WnState(it[self])), "-", "-", IF x = "none" THEN 0 ELSE 1)
                         /\ pc' = [pc EXCEPT ![self] = "k_or"]
                         /\ cret' = cret
              /\ UNCHANGED << mem, sb, lock, registry, qsr, sleeping, wkind, 
                              faults, myctr, alive, cs, pre, departed, wnlive, 
                              i, op, res, g, f, w, v, held, old, oldh, popped, 
                              it, nx, st, wi, wl, scan, setw, wasonline, oret, 
                              wret, caddr, cval >>

k_or(self) == /\ pc[self] = "k_or"
              /\ Assert(wnlive[WnOwner(it[self])], 
                        "Failure of assertion at line 284, column 11.")
              /\ Drained(self)
              /\ /\ acc' = Ev(self, "or", WnState(it[self]), TEARDOWN, "-", OrBit(mem[WnState(it[self])], TEARDOWN))
                 /\ mem' = [mem EXCEPT ![WnState(it[self])] = OrBit(mem[WnState(it[self])], TEARDOWN)]
              /\ it' = [it EXCEPT ![self] = nx[self]]
              /\ IF nx[self] # END
                    THEN /\ pc' = [pc EXCEPT ![self] = "k_next"]
                         /\ oret' = oret
                    ELSE /\ IF wasonline[self]
                               THEN /\ oret' = [oret EXCEPT ![self] = "s_ret"]
                                    /\ pc' = [pc EXCEPT ![self] = "on_ld"]
                               ELSE /\ pc' = [pc EXCEPT ![self] = "s_mbx"]
                                    /\ oret' = oret
              /\ UNCHANGED << sb, lock, registry, qsr, sleeping, woken, wkind, 
                              faults, myctr, alive, cs, pre, departed, wnlive, 
                              i, op, res, g, f, w, v, held, old, oldh, popped, 
                              nx, st, wi, wl, scan, setw, wasonline, wret, 
                              caddr, cval, cret >>

a_ld1(self) == /\ pc[self] = "a_ld1"
               /\ st' = [st EXCEPT ![self] = Rd(self, (WnState(Wn(self))))]
               /\ acc' = Ev(self, "ld", (WnState(Wn(self))), "-", "-", Rd(self, (WnState(Wn(self)))))
               /\ IF st'[self] # WAITING
                     THEN /\ pc' = [pc EXCEPT ![self] = "a_or"]
                          /\ wi' = wi
                     ELSE /\ wi' = [wi EXCEPT ![self] = wi[self] + 1]
                          /\ IF wi'[self] < WaitAttempts
                                THEN /\ pc' = [pc EXCEPT ![self] = "a_ld1"]
                                ELSE /\ pc' = [pc EXCEPT ![self] = "a_ld2"]
               /\ UNCHANGED << mem, sb, lock, registry, qsr, sleeping, woken, 
                               wkind, faults, myctr, alive, cs, pre, departed, 
                               wnlive, i, op, res, g, f, w, v, held, old, oldh, 
                               popped, it, nx, wl, scan, setw, wasonline, oret, 
                               wret, caddr, cval, cret >>

a_ld2(self) == /\ pc[self] = "a_ld2"
               /\ st' = [st EXCEPT ![self] = Rd(self, (WnState(Wn(self))))]
               /\ acc' = Ev(self, "ld", (WnState(Wn(self))), "-", "-", Rd(self, (WnState(Wn(self)))))
               /\ IF st'[self] # WAITING
                     THEN /\ pc' = [pc EXCEPT ![self] = "a_or"]
                     ELSE /\ pc' = [pc EXCEPT ![self] = "a_fw"]
               /\ UNCHANGED << mem, sb, lock, registry, qsr, sleeping, woken, 
                               wkind, faults, myctr, alive, cs, pre, departed, 
                               wnlive, i, op, res, g, f, w, v, held, old, oldh, 
                               popped, it, nx, wi, wl, scan, setw, wasonline, 
                               oret, wret, caddr, cval, cret >>

a_fw(self) == /\ pc[self] = "a_fw"
              /\ Drained(self)
              /\ IF FutexMode = "compat"
                    THEN /\ acc' = Ev(self, "fwait", WnState(Wn(self)), "-", "-", "ENOSYS")
                         /\ caddr' = [caddr EXCEPT ![self] = WnState(Wn(self))]
                         /\ cval' = [cval EXCEPT ![self] = WAITING]
                         /\ cret' = [cret EXCEPT ![self] = "a_ld2"]
                         /\ pc' = [pc EXCEPT ![self] = "c_mb"]
                         /\ UNCHANGED << sleeping, woken >>
                    ELSE /\ IF mem[WnState(Wn(self))] # WAITING
                               THEN /\ acc' = Ev(self, "fwait", WnState(Wn(self)), WAITING, "-", "EAGAIN")
                                    /\ pc' = [pc EXCEPT ![self] = "a_or"]
                                    /\ UNCHANGED << sleeping, woken >>
                               ELSE /\ sleeping' = [sleeping EXCEPT ![self] = WnState(Wn(self))]
                                    /\ woken' = [woken EXCEPT ![self] = FALSE]
                                    /\ acc' = Ev(self, "fwait", WnState(Wn(self)), WAITING, "-", "SLEEP")
                                    /\ pc' = [pc EXCEPT ![self] = "a_wk"]
                         /\ UNCHANGED << caddr, cval, cret >>
              /\ UNCHANGED << mem, sb, lock, registry, qsr, wkind, faults, 
                              myctr, alive, cs, pre, departed, wnlive, i, op, 
                              res, g, f, w, v, held, old, oldh, popped, it, nx, 
                              st, wi, wl, scan, setw, wasonline, oret, wret >>

a_wk(self) == /\ pc[self] = "a_wk"
              /\ woken[self]
              /\ acc' = Ev(self, "fwoke", WnState(Wn(self)), "-", "-", IF wkind[self] = "none" THEN "WAKE" ELSE wkind[self])
              /\ sleeping' = [sleeping EXCEPT ![self] = "none"]
              /\ woken' = [woken EXCEPT ![self] = FALSE]
              /\ wkind' = [wkind EXCEPT ![self] = "none"]
              /\ pc' = [pc EXCEPT ![self] = "a_ld2"]
              /\ UNCHANGED << mem, sb, lock, registry, qsr, faults, myctr, 
                              alive, cs, pre, departed, wnlive, i, op, res, g, 
                              f, w, v, held, old, oldh, popped, it, nx, st, wi, 
                              wl, scan, setw, wasonline, oret, wret, caddr, 
                              cval, cret >>

a_or(self) == /\ pc[self] = "a_or"
              /\ Drained(self)
              /\ /\ acc' = Ev(self, "or", WnState(Wn(self)), RUNNING, "-", OrBit(mem[WnState(Wn(self))], RUNNING))
                 /\ mem' = [mem EXCEPT ![WnState(Wn(self))] = OrBit(mem[WnState(Wn(self))], RUNNING)]
              /\ wi' = [wi EXCEPT ![self] = 0]
              /\ pc' = [pc EXCEPT ![self] = "a_ld3"]
              /\ UNCHANGED << sb, lock, registry, qsr, sleeping, woken, wkind, 
                              faults, myctr, alive, cs, pre, departed, wnlive, 
                              i, op, res, g, f, w, v, held, old, oldh, popped, 
                              it, nx, st, wl, scan, setw, wasonline, oret, 
                              wret, caddr, cval, cret >>

a_ld3(self) == /\ pc[self] = "a_ld3"
               /\ st' = [st EXCEPT ![self] = Rd(self, (WnState(Wn(self))))]
               /\ acc' = Ev(self, "ld", (WnState(Wn(self))), "-", "-", Rd(self, (WnState(Wn(self)))))
               /\ IF HasBit(st'[self], TEARDOWN)
                     THEN /\ pc' = [pc EXCEPT ![self] = "a_ld4"]
                          /\ wi' = wi
                     ELSE /\ wi' = [wi EXCEPT ![self] = wi[self] + 1]
                          /\ IF wi'[self] < WaitAttempts
                                THEN /\ pc' = [pc EXCEPT ![self] = "a_ld3"]
                                ELSE /\ pc' = [pc EXCEPT ![self] = "a_ld4"]
               /\ UNCHANGED << mem, sb, lock, registry, qsr, sleeping, woken, 
                               wkind, faults, myctr, alive, cs, pre, departed, 
                               wnlive, i, op, res, g, f, w, v, held, old, oldh, 
                               popped, it, nx, wl, scan, setw, wasonline, oret, 
                               wret, caddr, cval, cret >>

a_ld4(self) == /\ pc[self] = "a_ld4"
               /\ st' = [st EXCEPT ![self] = Rd(self, (WnState(Wn(self))))]
               /\ acc' = Ev(self, "ld", (WnState(Wn(self))), "-", "-", Rd(self, (WnState(Wn(self)))))
               /\ IF ~HasBit(st'[self], TEARDOWN)
                     THEN /\ pc' = [pc EXCEPT ![self] = "a_ld4"]
                     ELSE /\ pc' = [pc EXCEPT ![self] = "a_ld5"]
               /\ UNCHANGED << mem, sb, lock, registry, qsr, sleeping, woken, 
                               wkind, faults, myctr, alive, cs, pre, departed, 
                               wnlive, i, op, res, g, f, w, v, held, old, oldh, 
                               popped, it, nx, wi, wl, scan, setw, wasonline, 
                               oret, wret, caddr, cval, cret >>

a_ld5(self) == /\ pc[self] = "a_ld5"
               /\ st' = [st EXCEPT ![self] = Rd(self, (WnState(Wn(self))))]
               /\ acc' = Ev(self, "ld", (WnState(Wn(self))), "-", "-", Rd(self, (WnState(Wn(self)))))
               /\ Assert(HasBit(st'[self], TEARDOWN), 
                         "Failure of assertion at line 312, column 11.")
               /\ IF wasonline[self]
                     THEN /\ oret' = [oret EXCEPT ![self] = "s_ret"]
                          /\ pc' = [pc EXCEPT ![self] = "on_ld"]
                     ELSE /\ pc' = [pc EXCEPT ![self] = "s_mbx"]
                          /\ oret' = oret
               /\ UNCHANGED << mem, sb, lock, registry, qsr, sleeping, woken, 
                               wkind, faults, myctr, alive, cs, pre, departed, 
                               wnlive, i, op, res, g, f, w, v, held, old, oldh, 
                               popped, it, nx, wi, wl, scan, setw, wasonline, 
                               wret, caddr, cval, cret >>

c_mb(self) == /\ pc[self] = "c_mb"
              /\ Drained(self)
              /\ acc' = Ev(self, "mb", "-", "-", "-", "-")
              /\ IF cret[self] = "wg_ld" \/ cret[self] = "a_ld2"
                    THEN /\ pc' = [pc EXCEPT ![self] = "c_ld"]
                    ELSE /\ IF cret[self] = "k_or"
                               THEN /\ pc' = [pc EXCEPT ![self] = "k_or"]
                               ELSE /\ IF wret[self] = "q_mb"
                                          THEN /\ pc' = [pc EXCEPT ![self] = "q_mb"]
                                          ELSE /\ IF oret[self] = "t_ret"
                                                     THEN /\ pc' = [pc EXCEPT ![self] = "t_ret"]
                                                     ELSE /\ IF oret[self] = "x_lock"
                                                                THEN /\ pc' = [pc EXCEPT ![self] = "x_lock"]
                                                                ELSE /\ pc' = [pc EXCEPT ![self] = "s_mb0"]
              /\ UNCHANGED << mem, sb, lock, registry, qsr, sleeping, woken, 
                              wkind, faults, myctr, alive, cs, pre, departed, 
                              wnlive, i, op, res, g, f, w, v, held, old, oldh, 
                              popped, it, nx, st, wi, wl, scan, setw, 
                              wasonline, oret, wret, caddr, cval, cret >>

c_ld(self) == /\ pc[self] = "c_ld"
              /\ IF Tracing
                    THEN /\ f' = [f EXCEPT ![self] = Rd(self, caddr[self])]
                         /\ acc' = Ev(self, "ld", caddr[self], "-", "-", Rd(self, caddr[self]))
                         /\ IF f'[self] = cval[self]
                               THEN /\ pc' = [pc EXCEPT ![self] = "c_ld"]
                               ELSE /\ IF cret[self] = "wg_ld"
                                          THEN /\ pc' = [pc EXCEPT ![self] = "wg_ld"]
                                          ELSE /\ pc' = [pc EXCEPT ![self] = "a_ld2"]
                    ELSE /\ Rd(self, caddr[self]) # cval[self]
                         /\ f' = [f EXCEPT ![self] = Rd(self, caddr[self])]
                         /\ acc' = Ev(self, "ld", caddr[self], "-", "-", Rd(self, caddr[self]))
                         /\ IF cret[self] = "wg_ld"
                               THEN /\ pc' = [pc EXCEPT ![self] = "wg_ld"]
                               ELSE /\ pc' = [pc EXCEPT ![self] = "a_ld2"]
              /\ UNCHANGED << mem, sb, lock, registry, qsr, sleeping, woken, 
                              wkind, faults, myctr, alive, cs, pre, departed, 
                              wnlive, i, op, res, g, w, v, held, old, oldh, 
                              popped, it, nx, st, wi, wl, scan, setw, 
                              wasonline, oret, wret, caddr, cval, cret >>

s_mbx(self) == /\ pc[self] = "s_mbx"
               /\ IF "s_mbx" \notin Skip
                     THEN /\ Drained(self)
                          /\ acc' = Ev(self, "mb", "-", "-", "-", "-")
                     ELSE /\ TRUE
                          /\ acc' = acc
               /\ pc' = [pc EXCEPT ![self] = "s_ret"]
               /\ UNCHANGED << mem, sb, lock, registry, qsr, sleeping, woken, 
                               wkind, faults, myctr, alive, cs, pre, departed, 
                               wnlive, i, op, res, g, f, w, v, held, old, oldh, 
                               popped, it, nx, st, wi, wl, scan, setw, 
                               wasonline, oret, wret, caddr, cval, cret >>

s_ret(self) == /\ pc[self] = "s_ret"
               /\ Assert(pre[self] \cap OpenCS = {}, 
                         "Failure of assertion at line 325, column 11.")
               /\ mem' = [mem EXCEPT ![WnNext(Wn(self))] = NULL,
                                     ![WnState(Wn(self))] = 0]
               /\ pre' = [pre EXCEPT ![self] = {}]
               /\ wnlive' = [wnlive EXCEPT ![self] = FALSE]
               /\ pc' = [pc EXCEPT ![self] = "t_ret"]
               /\ UNCHANGED << sb, lock, acc, registry, qsr, sleeping, woken, 
                               wkind, faults, myctr, alive, cs, departed, i, 
                               op, res, g, f, w, v, held, old, oldh, popped, 
                               it, nx, st, wi, wl, scan, setw, wasonline, oret, 
                               wret, caddr, cval, cret >>

t_ret(self) == /\ pc[self] = "t_ret"
               /\ IF op[self].op \in {"reg", "online", "qs"} \/ (op[self].op = "sync" /\ wasonline[self])
                     THEN /\ cs' = [cs EXCEPT ![self] = i[self]]
                     ELSE /\ TRUE
                          /\ cs' = cs
               /\ i' = [i EXCEPT ![self] = i[self] + 1]
               /\ res' = [res EXCEPT ![self] = "-"]
               /\ pc' = [pc EXCEPT ![self] = "t_top"]
               /\ UNCHANGED << mem, sb, lock, acc, registry, qsr, sleeping, 
                               woken, wkind, faults, myctr, alive, pre, 
                               departed, wnlive, op, g, f, w, v, held, old, 
                               oldh, popped, it, nx, st, wi, wl, scan, setw, 
                               wasonline, oret, wret, caddr, cval, cret >>

t_end(self) == /\ pc[self] = "t_end"
               /\ TRUE
               /\ pc' = [pc EXCEPT ![self] = "Done"]
               /\ UNCHANGED << mem, sb, lock, acc, registry, qsr, sleeping, 
                               woken, wkind, faults, myctr, alive, cs, pre, 
                               departed, wnlive, i, op, res, g, f, w, v, held, 
                               old, oldh, popped, it, nx, st, wi, wl, scan, 
                               setw, wasonline, oret, wret, caddr, cval, cret >>

thr(self) == t_top(self) \/ g_lock(self) \/ g_unl(self) \/ x_lock(self)
                \/ x_unl(self) \/ q_ld(self) \/ q_st(self) \/ q_mb(self)
                \/ off_st(self) \/ on_ld(self) \/ on_st(self)
                \/ on_mb(self) \/ wk_ldw(self) \/ wk_stw(self)
                \/ wk_mb(self) \/ wk_ldf(self) \/ wk_stf(self)
                \/ wk_wake(self) \/ dr_ld(self) \/ p_xchg(self)
                \/ s_mbe(self) \/ s_mb0(self) \/ s_push(self)
                \/ s_link(self) \/ s_run(self) \/ s_gplk(self)
                \/ s_pop(self) \/ s_popmb(self) \/ s_rglk(self)
                \/ s_inc(self) \/ s_mb1(self) \/ w_stf(self) \/ w_stw(self)
                \/ w_mb(self) \/ w_ldr(self) \/ w_st0(self) \/ w_unl(self)
                \/ wg_ld(self) \/ wg_fw(self) \/ wg_wk(self)
                \/ w_relock(self) \/ s_out(self) \/ s_gpun(self)
                \/ k_next(self) \/ k_ldst(self) \/ k_as(self) \/ k_wk(self)
                \/ k_ld2(self) \/ k_fw(self) \/ k_or(self) \/ a_ld1(self)
                \/ a_ld2(self) \/ a_fw(self) \/ a_wk(self) \/ a_or(self)
                \/ a_ld3(self) \/ a_ld4(self) \/ a_ld5(self) \/ c_mb(self)
                \/ c_ld(self) \/ s_mbx(self) \/ s_ret(self) \/ t_ret(self)
                \/ t_end(self)

Next == (\E self \in Flushers: flusher(self))
           \/ (\E self \in Faulters: faulter(self))
           \/ (\E self \in Threads: thr(self))

Spec == /\ Init /\ [][Next]_vars
        /\ \A self \in Flushers : WF_vars(flusher(self))
        /\ \A self \in Threads : WF_vars(thr(self))

\* END TRANSLATION

AllDone == \A t \in Threads : pc[t] = "Done"
DeadlockFree == AllDone \/ ENABLED Next
SBBound == \A t \in Threads : Len(sb[t]) <= SBMax
\* C02(d): lock order gp_lock -> registry_lock; the registry lock is never held while sleeping
LockOrder == ~(\E t \in Threads : lock["registry_lock"] = t /\ pc[t] = "s_gplk")
NoSleepWithRegistryLock == \A t \in Threads : sleeping[t] # "none" => lock["registry_lock"] # t
FutexRange == mem["gp_futex"] \in {0, -1} /\ \A t \in Threads : \A k \in DOMAIN sb[t] : sb[t][k][1] = "gp_futex" => sb[t][k][2] \in {0, -1}
\* C15: the registry holds exactly the registered threads, once each; a departed thread is in no list
RegistryExact == /\ Len(registry) + Len(qsr) = Cardinality(Range(registry) \cup Range(qsr))
                 /\ \A t \in Range(registry) \cup Range(qsr) : ~departed[t]
\* C01: when synchronize_rcu() is about to return, every section that was open at the call has ended (also asserted in s_ret)
GPGuarantee == \A t \in Threads : pc[t] = "s_ret" => pre[t] \cap OpenCS = {}
\* C01: an object obtained by rcu_dereference() inside a still open section has not been reclaimed
NoUseAfterFree == \A t \in Threads : held[t] # NULL => alive[held[t]]
\* reader words hold 0 or a value gp.ctr has had; gp.ctr is odd
CtrRange == /\ mem["gp_ctr"] % 2 = 1
            /\ \A t \in Threads : mem[Rctr(t)] = 0 \/ (mem[Rctr(t)] % 2 = 1 /\ mem[Rctr(t)] <= mem["gp_ctr"])
FaultBound == faults <= FaultBudget
\* C02(b): liveness -- Spec carries weak fairness of every thread and of every flusher (fair processes)
FairSpec == Spec
Termination == <>AllDone
=============================================================================
