---- MODULE LfhtAbs ----
(* C08: the cds_lfht hash table as a SEQUENTIAL object (one operation at a time, one atomic action per API call).

   The object is the split-ordered list of rculfhash.c reduced to what decides every result:
     chain    the stored (not removed) nodes in list order.  The order is fully determined by the algorithm:
              ascending bit-reversed hash; among equal hashes cds_lfht_add() appends at the END of the run
              (_cds_lfht_add walks past every node with reverse_hash <= its own, rculfhash.c:1107), while
              cds_lfht_add_unique()/cds_lfht_add_replace() insert at the FRONT of the run (:1118-1143) and a
              replacement takes the place of the node it replaces (_cds_lfht_replace, :1006-1046).
              Hence lookup(hash,key) returns the FIRST node of the run whose key matches, next_duplicate the
              following ones in chain order, first/next all nodes in chain order.
     sizeo    log2 of the number of buckets.  Bucket nodes are list members too (bucket j sits at reverse(j), before
              any stored node of equal reversed hash), which matters for the `next` half of an iterator and for
              the chain-length heuristic of CDS_LFHT_AUTO_RESIZE; contents never depend on it.
     st, frozen   removed nodes keep their `next` pointer frozen (del: the successor at removal time; replace: the
              replacing node); iterators are snapshots (node, next) and may be used after later mutations, so the
              walks of cds_lfht_next / cds_lfht_next_duplicate follow frozen pointers through removed nodes.
     iter     the caller's iterator.  An explicit cds_lfht_resize() must not be called inside a read-side critical
              section, so it ends the iterator's validity; lazy (worker) growth does not.
     acc      successful additions minus successful deletions (the split counters of CDS_LFHT_ACCOUNTING).
     work     work queued for the resize worker: a lazy resize (target order >= 0) requested by the chain-length
              heuristic, or the deferred destruction of a CDS_LFHT_AUTO_RESIZE table (-2); -1: none.  It runs right
              after the operation (the driver's work queue executes queued work as soon as the caller returns).
     res, mem result of the last operation and the allocator requests it must have issued (see LfhtMm).

   Encoding (all integers, as in the recorded traces): node ids 1..NNodes, NULL = 0, bucket j = -(j+1);
   keys 1..Len(HashOf); a hash is four 16-bit limbs <<l0,l1,l2,l3>>, l0 least significant (TLC integers are 32 bit);
   errors: -2 = -ENOENT, -22 = -EINVAL, -1 = -EPERM.  *)
EXTENDS Integers, Sequences, FiniteSets, TLC, LfhtNew, LfhtMm

CONSTANTS HashOf,      \* HashOf[k] = hash of key k (limbs)
          NNodes       \* size of the node pool

VARIABLES alive, cfg, sizeo, chain, nkey, st, frozen, iter, acc, work, res, mem, msta
avars == <<alive, cfg, sizeo, chain, nkey, st, frozen, iter, acc, work, res, mem, msta>>

Keys == 1..Len(HashOf)
Nodes == 1..NNodes
NULL == 0
ENOENT == -2
EINVAL == -22
EPERM == -1
Bkt(j) == -(j + 1)
IsBkt(x) == x < 0
BIdx(x) == -x - 1

\* ---------------------------------------------------------------- bit reversal, hash order
RECURSIVE RevBits(_, _)               \* reverse the n low bits of x
RevBits(x, n) == IF n = 0 THEN 0 ELSE (x % 2) * 2^(n - 1) + RevBits(x \div 2, n - 1)
RevHash(h) == <<RevBits(h[1], 16), RevBits(h[2], 16), RevBits(h[3], 16), RevBits(h[4], 16)>>   \* bit_reverse_ulong, most significant limb first
Cmp(a, b) == IF a[1] # b[1] THEN (IF a[1] < b[1] THEN -1 ELSE 1)
             ELSE IF a[2] # b[2] THEN (IF a[2] < b[2] THEN -1 ELSE 1)
             ELSE IF a[3] # b[3] THEN (IF a[3] < b[3] THEN -1 ELSE 1)
             ELSE IF a[4] # b[4] THEN (IF a[4] < b[4] THEN -1 ELSE 1) ELSE 0
KeyRH == [k \in Keys |-> RevHash(HashOf[k])]
BktRH(j) == <<RevBits(j, 16), 0, 0, 0>>                   \* bucket j (j < 2^16): reverse_hash = bit_reverse_ulong(j)
RHof(x) == IF IsBkt(x) THEN BktRH(BIdx(x)) ELSE KeyRH[nkey[x]]
HashBkt(h, o) == h[1] % 2^o                               \* hash & (size - 1), size = 2^o <= 2^16
NodeBkt(n, o) == HashBkt(HashOf[nkey[n]], o)
IsBktHash(h, j) == h = <<j, 0, 0, 0>>                     \* a stored node whose hash equals the bucket index

\* ---------------------------------------------------------------- the list (stored nodes merged with bucket nodes)
NextBkt(j, o) == LET r == RevBits(j, o) IN IF r = 2^o - 1 THEN NULL ELSE Bkt(RevBits(r + 1, o))
MinS(S) == CHOOSE x \in S : \A y \in S : x <= y
MaxS(S) == CHOOSE x \in S : \A y \in S : x >= y
PosOf(n) == CHOOSE p \in 1..Len(chain) : chain[p] = n
SuccOf(x) ==                                              \* x->next of a list member (stored node or bucket)
  IF IsBkt(x) THEN LET j == BIdx(x)
                       ps == {p \in 1..Len(chain) : NodeBkt(chain[p], sizeo) = j}
                   IN IF ps # {} THEN chain[MinS(ps)] ELSE NextBkt(j, sizeo)
  ELSE LET p == PosOf(x) IN
       IF p < Len(chain) /\ NodeBkt(chain[p + 1], sizeo) = NodeBkt(x, sizeo) THEN chain[p + 1]
       ELSE NextBkt(NodeBkt(x, sizeo), sizeo)

NullIt == [node |-> NULL, next |-> NULL]
(* walking on from bucket j skips bucket nodes (is_bucket(next), :1814) up to the first stored node at or behind j:
   the chain is sorted by reversed hash, hence by the position RevBits(bucket, sizeo) of the owning bucket *)
FirstFrom(j) == LET ps == {p \in 1..Len(chain) : RevBits(NodeBkt(chain[p], sizeo), sizeo) >= RevBits(j, sizeo)}
                IN IF ps = {} THEN NullIt ELSE [node |-> chain[MinS(ps)], next |-> SuccOf(chain[MinS(ps)])]
RECURSIVE WalkNext(_)                                     \* cds_lfht_next (rculfhash.c:1802-1823) from pointer x
WalkNext(x) == IF x = NULL THEN NullIt
               ELSE IF IsBkt(x) THEN FirstFrom(BIdx(x))
               ELSE IF st[x] = "dead" THEN WalkNext(frozen[x])
               ELSE [node |-> x, next |-> SuccOf(x)]
RECURSIVE WalkDup(_, _, _, _)                             \* loops of cds_lfht_lookup (:1738-1757, eq) / cds_lfht_next_duplicate (:1776-1792)
WalkDup(x, rh, k, eq) ==
  IF x = NULL THEN NullIt
  ELSE IF Cmp(RHof(x), rh) > 0 THEN NullIt
  ELSE IF IsBkt(x) THEN WalkDup(SuccOf(x), rh, k, eq)
  ELSE IF st[x] = "dead" THEN WalkDup(frozen[x], rh, k, eq)
  ELSE IF (~eq \/ Cmp(RHof(x), rh) = 0) /\ nkey[x] = k THEN [node |-> x, next |-> SuccOf(x)]
  ELSE WalkDup(SuccOf(x), rh, k, eq)

InsertAt(s, p, x) == SubSeq(s, 1, p - 1) \o <<x>> \o SubSeq(s, p, Len(s))
RemoveAt(s, p) == SubSeq(s, 1, p - 1) \o SubSeq(s, p + 1, Len(s))
Idx == 1..Len(chain)
PosAfter(rh) == Cardinality({p \in Idx : Cmp(RHof(chain[p]), rh) <= 0}) + 1     \* plain add: behind the equal-hash run
PosBefore(rh) == Cardinality({p \in Idx : Cmp(RHof(chain[p]), rh) < 0}) + 1     \* unique/replace add: in front of it
Match(rh, k) == {p \in Idx : Cmp(RHof(chain[p]), rh) = 0 /\ nkey[chain[p]] = k}

\* ---------------------------------------------------------------- CDS_LFHT_AUTO_RESIZE chain-length heuristic
RECURSIVE CeilLog2(_)                 \* cds_lfht_get_count_order_u32(x), x >= 1
CeilLog2(x) == IF x <= 1 THEN 0 ELSE 1 + CeilLog2((x + 1) \div 2)
(* number of ++chain_len of _cds_lfht_add (:1155-1157) over the visited nodes V of bucket b: distinct reversed hashes,
   not counting one equal to the bucket node's own *)
ChainLen(V, b) == Cardinality({RHof(n) : n \in V} \ {BktRH(b)})
(* check_resize (:807-850) + cds_lfht_resize_lazy_grow (:2235): resize target (order) requested for a chain length
   observed with table size 2^so, or -1 *)
LazyTarget(so, cl) ==
  IF ~cfg.auto \/ cl < 3 THEN -1
  ELSE LET g0 == CeilLog2(cl)
           cap == 10 + cfg.sco                             \* COUNT_COMMIT_ORDER + split_count_order
           g == IF cfg.acct /\ so + g0 >= cap THEN cap - so ELSE g0
       IN IF g <= 0 THEN -1 ELSE MinI(so + g, cfg.maxo)
\* nodes visited by _cds_lfht_add for a node of reversed hash rh in bucket b (table order o) before it inserts / returns
VisitedBy(h, o, strict) == LET rh == RevHash(h) b == HashBkt(h, o) IN
  {chain[p] : p \in {q \in Idx : /\ NodeBkt(chain[q], o) = b
                                 /\ (IF strict THEN Cmp(RHof(chain[q]), rh) < 0 ELSE Cmp(RHof(chain[q]), rh) <= 0)}}
AddTarget(h, strict) == LazyTarget(sizeo, ChainLen(VisitedBy(h, sizeo, strict), HashBkt(h, sizeo)))
(* init_table_populate_partition (:1385-1396): linking bucket j of order cur+1 walks its parent's chain (table size
   2^cur) up to reverse(j); the highest target requested while populating that order *)
PopulateTarget(cur) ==
  LET parents == {NodeBkt(chain[p], cur) : p \in Idx}
      T == {LazyTarget(cur, ChainLen(VisitedBy(<<par + 2^cur, 0, 0, 0>>, cur, TRUE), par)) : par \in parents}
  IN IF T = {} THEN -1 ELSE MaxS(T)
RECURSIVE GrowTo(_, _)                \* _do_cds_lfht_resize growing from order cur towards tgt (which populating may raise)
GrowTo(cur, tgt) == IF cur >= tgt THEN cur ELSE GrowTo(cur + 1, MaxI(tgt, PopulateTarget(cur)))

\* ---------------------------------------------------------------- results
Res(r, it, c, ab) == [r |-> r, node |-> it.node, next |-> it.next, c |-> c, ab |-> ab, aa |-> ab]
ResR(r) == Res(r, NullIt, 0, 0)
WorkReq == Req("malloc", "work", 1, 0, "work")            \* __cds_lfht_resize_lazy_launch (:2220)
WorkFree == Req("free", "work", 0, 0, "-")                \* do_resize_cb (:2203)
Idle == alive /\ work = -1
NoIter == [valid |-> FALSE, node |-> NULL, next |-> NULL]
SetIter(it) == [valid |-> TRUE, node |-> it.node, next |-> it.next]
Fresh(n) == n \in Nodes /\ st[n] \in {"fresh", "initdel"}
Tracked(rs) == msta' = ApplyReqs(msta, rs)

\* ---------------------------------------------------------------- operations
(* _cds_lfht_new_with_alloc(init, min, max, flags, mm, ...): also (re)starts an execution *)
NewVals(init, min, max, flags, mm, plat) ==
  LET c == Norm(init, min, max, mm, plat)
      cf == IF c.ok THEN [mm |-> c.mm, mino |-> c.mino, maxo |-> c.maxo, nchunks |-> c.nchunks, auto |-> (flags % 2 = 1),
                          acct |-> ((flags \div 2) % 2 = 1), sco |-> plat.sco, nsplit |-> plat.nsplit, sizeo |-> c.sizeo]
            ELSE [mm |-> "-", mino |-> 0, maxo |-> 0, nchunks |-> 0, auto |-> FALSE, acct |-> FALSE, sco |-> 0, nsplit |-> 0, sizeo |-> 0]
      rq == IF c.ok THEN NewReqs(cf) ELSE <<>>
  IN [alive |-> c.ok, cfg |-> cf, sizeo |-> c.sizeo, chain |-> <<>>, nkey |-> [n \in Nodes |-> 0], st |-> [n \in Nodes |-> "fresh"],
      frozen |-> [n \in Nodes |-> NULL], iter |-> NoIter, acc |-> 0, work |-> -1, res |-> ResR(IF c.ok THEN 1 ELSE 0),
      mem |-> rq, msta |-> ApplyReqs(MemInit, rq)]
New(init, min, max, flags, mm, plat) ==
  LET v == NewVals(init, min, max, flags, mm, plat) IN
  /\ alive' = v.alive /\ cfg' = v.cfg /\ sizeo' = v.sizeo /\ chain' = v.chain /\ nkey' = v.nkey /\ st' = v.st
  /\ frozen' = v.frozen /\ iter' = v.iter /\ acc' = v.acc /\ work' = v.work /\ res' = v.res /\ mem' = v.mem /\ msta' = v.msta
InitWith(init, min, max, flags, mm, plat) ==
  LET v == NewVals(init, min, max, flags, mm, plat) IN
  /\ alive = v.alive /\ cfg = v.cfg /\ sizeo = v.sizeo /\ chain = v.chain /\ nkey = v.nkey /\ st = v.st
  /\ frozen = v.frozen /\ iter = v.iter /\ acc = v.acc /\ work = v.work /\ res = v.res /\ mem = v.mem /\ msta = v.msta

AfterAdd(h, strict) ==                \* lazy growth requested by the walk of this addition
  LET t == AddTarget(h, strict) IN
  IF t > sizeo THEN work' = t /\ mem' = <<WorkReq>> ELSE work' = -1 /\ mem' = <<>>

Add(n, k) ==                          \* cds_lfht_add
  /\ Idle /\ Fresh(n) /\ k \in Keys
  /\ LET rh == KeyRH[k] IN chain' = InsertAt(chain, PosAfter(rh), n)
  /\ nkey' = [nkey EXCEPT ![n] = k] /\ st' = [st EXCEPT ![n] = "live"]
  /\ acc' = acc + 1 /\ res' = ResR(0)
  /\ AfterAdd(HashOf[k], FALSE) /\ Tracked(mem')
  /\ UNCHANGED <<alive, cfg, sizeo, frozen, iter>>

AddUnique(n, k) ==                    \* cds_lfht_add_unique: the existing first match, or the node itself
  /\ Idle /\ Fresh(n) /\ k \in Keys
  /\ LET rh == KeyRH[k] m == Match(rh, k) IN
     IF m # {} THEN /\ res' = ResR(chain[MinS(m)]) /\ UNCHANGED <<chain, nkey, st, acc>>
     ELSE /\ chain' = InsertAt(chain, PosBefore(rh), n)
          /\ nkey' = [nkey EXCEPT ![n] = k] /\ st' = [st EXCEPT ![n] = "live"]
          /\ acc' = acc + 1 /\ res' = ResR(n)
  /\ AfterAdd(HashOf[k], TRUE) /\ Tracked(mem')
  /\ UNCHANGED <<alive, cfg, sizeo, frozen, iter>>

AddReplace(n, k) ==                   \* cds_lfht_add_replace: the replaced first match, or NULL
  /\ Idle /\ Fresh(n) /\ k \in Keys
  /\ LET rh == KeyRH[k] m == Match(rh, k) IN
     IF m # {} THEN LET p == MinS(m) old == chain[p] IN
                    /\ chain' = [chain EXCEPT ![p] = n]
                    /\ nkey' = [nkey EXCEPT ![n] = k] /\ st' = [st EXCEPT ![n] = "live", ![old] = "dead"]
                    /\ frozen' = [frozen EXCEPT ![old] = n]
                    /\ res' = ResR(old) /\ UNCHANGED acc
     ELSE /\ chain' = InsertAt(chain, PosBefore(rh), n)
          /\ nkey' = [nkey EXCEPT ![n] = k] /\ st' = [st EXCEPT ![n] = "live"]
          /\ acc' = acc + 1 /\ res' = ResR(NULL) /\ UNCHANGED frozen
  /\ AfterAdd(HashOf[k], TRUE) /\ Tracked(mem')
  /\ UNCHANGED <<alive, cfg, sizeo, iter>>

Replace(n, k) ==                      \* cds_lfht_replace(ht, &iter, hash(k), match, k, n)
  /\ Idle /\ iter.valid /\ Fresh(n) /\ k \in Keys
  /\ LET old == iter.node IN
     IF old = NULL THEN res' = ResR(ENOENT) /\ UNCHANGED <<chain, nkey, st, frozen>>
     ELSE IF Cmp(RHof(old), KeyRH[k]) # 0 \/ nkey[old] # k THEN res' = ResR(EINVAL) /\ UNCHANGED <<chain, nkey, st, frozen>>
     ELSE IF st[old] = "dead" THEN res' = ResR(ENOENT) /\ UNCHANGED <<chain, nkey, st, frozen>>
     ELSE /\ chain' = [chain EXCEPT ![PosOf(old)] = n]
          /\ nkey' = [nkey EXCEPT ![n] = k] /\ st' = [st EXCEPT ![n] = "live", ![old] = "dead"]
          /\ frozen' = [frozen EXCEPT ![old] = n]
          /\ res' = ResR(0)
  /\ mem' = <<>> /\ Tracked(mem')
  /\ UNCHANGED <<alive, cfg, sizeo, iter, acc, work>>

DelNode(x) ==                         \* cds_lfht_del(ht, x)
  /\ IF x = NULL \/ st[x] \in {"dead", "initdel"} THEN res' = ResR(ENOENT) /\ UNCHANGED <<chain, st, frozen, acc>>
     ELSE /\ st[x] = "live"
          /\ frozen' = [frozen EXCEPT ![x] = SuccOf(x)]
          /\ chain' = RemoveAt(chain, PosOf(x)) /\ st' = [st EXCEPT ![x] = "dead"]
          /\ acc' = acc - 1 /\ res' = ResR(0)
  /\ mem' = <<>> /\ Tracked(mem')
  /\ UNCHANGED <<alive, cfg, sizeo, nkey, iter, work>>
Del(n) == Idle /\ n \in Nodes /\ st[n] \in {"live", "dead"} /\ DelNode(n)          \* a node that was added at some point
DelIter == Idle /\ iter.valid /\ DelNode(iter.node)                               \* cds_lfht_del(ht, cds_lfht_iter_get_node(&iter))
DelInit(n) ==                         \* cds_lfht_node_init_deleted(n); cds_lfht_del(ht, n)
  /\ Idle /\ Fresh(n) /\ st' = [st EXCEPT ![n] = "initdel"]
  /\ res' = ResR(ENOENT) /\ mem' = <<>> /\ Tracked(mem')
  /\ UNCHANGED <<alive, cfg, sizeo, chain, nkey, frozen, iter, acc, work>>
IsDeleted(n) ==                       \* cds_lfht_is_node_deleted
  /\ Idle /\ n \in Nodes /\ st[n] # "fresh"
  /\ res' = ResR(IF st[n] = "live" THEN 0 ELSE 1) /\ mem' = <<>> /\ Tracked(mem')
  /\ UNCHANGED <<alive, cfg, sizeo, chain, nkey, st, frozen, iter, acc, work>>

Query(it) == /\ iter' = SetIter(it) /\ res' = Res(0, it, 0, 0) /\ mem' = <<>> /\ Tracked(mem')
             /\ UNCHANGED <<alive, cfg, sizeo, chain, nkey, st, frozen, acc, work>>
Lookup(hk, k) ==                      \* cds_lfht_lookup(ht, hash(hk), match, k, &iter)
  Idle /\ hk \in Keys /\ k \in Keys
  /\ Query(WalkDup(SuccOf(Bkt(HashBkt(HashOf[hk], sizeo))), KeyRH[hk], k, TRUE))
NextDup(k) ==                         \* cds_lfht_next_duplicate(ht, match, k, &iter); iter.node must not be NULL
  Idle /\ iter.valid /\ iter.node # NULL /\ k \in Keys
  /\ Query(WalkDup(iter.next, RHof(iter.node), k, FALSE))
First == Idle /\ Query(WalkNext(SuccOf(Bkt(0))))                                  \* cds_lfht_first
Next == Idle /\ iter.valid /\ Query(WalkNext(iter.next))                          \* cds_lfht_next

ApproxCount == IF cfg.acct THEN acc ELSE 0
Count ==                              \* cds_lfht_count_nodes
  /\ Idle /\ res' = Res(0, NullIt, Len(chain), ApproxCount) /\ mem' = <<>> /\ Tracked(mem')
  /\ UNCHANGED <<alive, cfg, sizeo, chain, nkey, st, frozen, iter, acc, work>>

Resize(so) ==                         \* cds_lfht_resize(ht, 2^so)  (so = -1: new_size 0)
  /\ Idle /\ so \in -1..30
  /\ LET tgt == MinI(MaxI(so, 0), cfg.maxo)                                       \* resize_target_update_count
         fin == IF tgt > sizeo THEN GrowTo(sizeo, tgt) ELSE tgt IN
     /\ sizeo' = fin
     /\ mem' = IF fin > sizeo THEN GrowReqs(cfg, sizeo, fin) ELSE ShrinkReqs(cfg, sizeo, fin)
     /\ res' = Res(0, NullIt, fin, 0)
  /\ iter' = NoIter /\ Tracked(mem')
  /\ UNCHANGED <<alive, cfg, chain, nkey, st, frozen, acc, work>>

DoWork ==                             \* the worker runs the queued work
  /\ alive /\ work # -1
  /\ IF work >= 0
     THEN /\ sizeo' = GrowTo(sizeo, work)                                          \* do_resize_cb (:2196): grow to the queued target
          /\ mem' = GrowReqs(cfg, sizeo, sizeo') \o <<WorkFree>>
          /\ res' = Res(0, NullIt, sizeo', 0) /\ alive' = TRUE
     ELSE /\ mem' = DestroyReqs(cfg, sizeo)                                        \* do_auto_resize_destroy_cb (:1949)
          /\ res' = Res(0, NullIt, -1, 0) /\ alive' = FALSE /\ sizeo' = sizeo
  /\ work' = -1 /\ Tracked(mem')
  /\ UNCHANGED <<cfg, chain, nkey, st, frozen, iter, acc>>

Destroy ==                            \* cds_lfht_destroy: 0 iff no stored node, else -EPERM and the table stays
  /\ Idle
  /\ IF chain # <<>> THEN alive' = TRUE /\ res' = ResR(EPERM) /\ mem' = <<>> /\ work' = -1
     ELSE IF cfg.auto THEN alive' = TRUE /\ res' = ResR(0) /\ mem' = <<>> /\ work' = -2     \* freed by the queued destroy work (:1993)
     ELSE alive' = FALSE /\ res' = ResR(0) /\ mem' = DestroyReqs(cfg, sizeo) /\ work' = -1
  /\ Tracked(mem')
  /\ UNCHANGED <<cfg, sizeo, chain, nkey, st, frozen, iter, acc>>

\* ---------------------------------------------------------------- properties of the object (checked on every reachable state)
TypeOK == /\ alive \in BOOLEAN /\ sizeo \in 0..63 /\ work \in -2..63
          /\ \A p \in Idx : chain[p] \in Nodes /\ st[chain[p]] = "live"
          /\ \A n \in Nodes : st[n] = "live" <=> \E p \in Idx : chain[p] = n
Sorted == \A p \in Idx : p < Len(chain) => Cmp(RHof(chain[p]), RHof(chain[p + 1])) <= 0
NoRepeat == \A p, q \in Idx : chain[p] = chain[q] => p = q
RECURSIVE TraverseFrom(_, _)
TraverseFrom(it, fuel) == IF it.node = NULL \/ fuel = 0 THEN <<>> ELSE <<it.node>> \o TraverseFrom(WalkNext(it.next), fuel - 1)
(* a full first/next traversal visits every stored node exactly once, in chain order *)
TraversalExact == alive => TraverseFrom(WalkNext(SuccOf(Bkt(0))), NNodes + 1) = chain
RECURSIVE DupsFrom(_, _, _)
DupsFrom(it, k, fuel) == IF it.node = NULL \/ fuel = 0 THEN <<>>
                         ELSE <<it.node>> \o DupsFrom(WalkDup(it.next, RHof(it.node), k, FALSE), k, fuel - 1)
(* lookup + next_duplicate enumerate all stored nodes of a key, each once, in chain order *)
DuplicatesExact == alive => \A k \in Keys :
   DupsFrom(WalkDup(SuccOf(Bkt(HashBkt(HashOf[k], sizeo))), KeyRH[k], k, TRUE), k, NNodes + 1)
     = SelectSeq(chain, LAMBDA n : nkey[n] = k)
CountExact == acc = Len(chain)
(* every bucket of the current size lies in a live allocation; no request hit a dead / doubly allocated table *)
MmValid == /\ msta.ok
           /\ alive => \A i \in ProbeSet(sizeo) : BucketLive(cfg, msta, i)
           /\ (~alive) => (DOMAIN msta.live = {} /\ msta.pop = {})
AbsInv == TypeOK /\ Sorted /\ NoRepeat /\ TraversalExact /\ DuplicatesExact /\ CountExact /\ MmValid
====
