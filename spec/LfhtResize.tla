----------------------------- MODULE LfhtResize -----------------------------
(***************************************************************************)
(* Resize CONTROL logic of cds_lfht (src/rculfhash.c): one action per      *)
(* shared access / decision of                                             *)
(*   cds_lfht_resize, resize_target_update_count, _do_cds_lfht_resize,     *)
(*   _do_cds_lfht_grow/init_table, _do_cds_lfht_shrink/fini_table,         *)
(*   partition_resize_helper / partition_resize_thread (helper threads,    *)
(*   pthread_create failing with EAGAIN, single-threaded fallback),        *)
(*   resize_target_grow (_uatomic_xchg_monotonic_increase),                *)
(*   cds_lfht_resize_lazy_grow / _lazy_count, __cds_lfht_resize_lazy_launch*)
(*   check_resize (from cds_lfht_add AND from the bucket insertions of     *)
(*   init_table_populate), ht_count_add / ht_count_del (split counters),   *)
(*   do_resize_cb / do_auto_resize_destroy_cb on the work-queue thread,    *)
(*   cds_lfht_destroy / cds_lfht_delete_bucket,                            *)
(* under SC or x86-TSO store buffers.                                      *)
(*                                                                         *)
(* Abstractions: the bucket lists are not modelled (the list work of one   *)
(* partition of populate / remove_table, of add, del, lookup is one silent *)
(* step; contents at CAS granularity: spec/Lfht.tla, C05/C07); chain       *)
(* lengths seen by check_resize are nondeterministic (growth in Growths,   *)
(* at most MaxChk / MaxChkP calls); the work queue is a FIFO (the real     *)
(* src/workqueue.c is executed by the driver); grace periods follow        *)
(* harness/absrcu.h == AbstractRcu (blocking step enabled when every       *)
(* read-side section open at its start has ended); pthread_create and      *)
(* pthread_join are full fences (system calls).                            *)
(*                                                                         *)
(* Operations of a scenario (Prog[t]):                                     *)
(*   [op |-> "resize", ns |-> set of requested sizes]  cds_lfht_resize     *)
(*   [op |-> "add"]    rcu_read_lock; cds_lfht_add; rcu_read_unlock        *)
(*   [op |-> "del"]    rcu_read_lock; cds_lfht_del; rcu_read_unlock        *)
(*   [op |-> "lookup"] rcu_read_lock; cds_lfht_lookup; rcu_read_unlock     *)
(*   [op |-> "destroy"] (after every other thread finished) cds_lfht_destroy*)
(* Ghosts: alloc[order] in {none, allocated, published, unlinked, freed},  *)
(* gpok (grace period elapsed since unlink), held[reader] (orders a reader *)
(* may still dereference), htAlive, items, pcov (buckets handled by the    *)
(* partitions of one populate / remove), err / errA (violated checks:      *)
(* free before grace period, free while published, access to the freed     *)
(* table, partition cover, ...).                                           *)
(*                                                                         *)
(* Mut (mutation tags, {} for every claim; negative controls of the check):*)
(*   no_gp      fini_table frees without waiting for a grace period        *)
(*   pub_first  init_table stores ht->size before allocating the order     *)
(*   noclamp    resize_target_update_count does not clamp to max_nr_buckets*)
(*   no_mb      no fence between resize_initiated = 0 and the re-read      *)
(*   no_ipd     lazy launch does not test in_progress_destroy (within the  *)
(*              API contract this test never reads 1 while                 *)
(*              resize_initiated is 0: not distinguishable, no control)    *)
(* Repaired = FALSE is the unrepaired resize_target_update_count of        *)
(* finding F1 (negative control: Returns must be violated).                *)
(***************************************************************************)
EXTENDS Integers, Sequences, FiniteSets, TLC

CONSTANTS Threads,     \* scenario threads (strings)
          Prog,        \* [Threads -> Seq(op record)]
          TSO,         \* TRUE: stores are buffered (x86-TSO)
          Tracing,     \* TRUE: maintain acc (trace validation / schedule generation)
          SBMax,       \* store-buffer bound used by the state constraint SBBound
          MaxB,        \* max_nr_buckets (power of two)
          S0,          \* initial size (= initial resize_target)
          AutoResize,  \* CDS_LFHT_AUTO_RESIZE
          Accounting,  \* CDS_LFHT_ACCOUNTING
          CCO,         \* COUNT_COMMIT_ORDER
          SCMask,      \* split_count_mask (number of model CPUs rounded up to a power of two, minus 1)
          Cpu,         \* [Threads -> Nat]: model CPU each thread runs on
          SC0,         \* initial split counters: [0..SCMask -> [add |-> Nat, del |-> Nat]]
          Count0,      \* initial ht->count
          Items0,      \* nodes in the table initially
          Growths,     \* values of `growth' check_resize may compute from a chain length >= 3
          MaxChk,      \* bound on check_resize calls of one add
          MaxChkP,     \* bound on check_resize calls of one populate partition (bucket insertion walks the parent's chain)
          Repaired,    \* TRUE: resize_target_update_count rounds up to a power of two (fix of F1)
          NrCpusMask,  \* nr_cpus_mask of rculfhash.c: SCMask, or -2 (NR_CPUS_MASK_INIT_FAILED)
          MPO,         \* MIN_PARTITION_PER_THREAD_ORDER
          FailAt,      \* index (0-based, counting every pthread_create of the library) of the create that returns EAGAIN; -1: none
          Mut,         \* set of mutation tags ({} for every claim)
          Qsbr,        \* TRUE: the flavor is QSBR: a registered thread is online (one long read-side section) from register_thread /
                       \*   thread_online to unregister_thread / thread_offline, read_lock / read_unlock are no-ops inside it, and
                       \*   synchronize_rcu takes an online caller offline while it waits; scenario threads are offline between operations
          CheckGrowWins \* evaluate GrowWins (scenarios without explicit resize)

W == "h1"                                   \* the work-queue thread (first thread the library creates)
Helpers == {"p1", "p2"}                      \* slots of the partition threads of one partition_resize_helper() call
Slot(k) == "p" \o ToString(k)
Procs == Threads \cup {W} \cup Helpers
Idle == [st |-> "idle", par |-> "-", kind |-> "-", len |-> 0]
BIG == 1000000                              \* stands for ULONG_MAX
Pow2(k) == 2 ^ k
Max2(a, b) == IF a >= b THEN a ELSE b
Min2(a, b) == IF a <= b THEN a ELSE b
RECURSIVE Order(_)
Order(x) == IF x <= 1 THEN 0 ELSE 1 + Order((x + 1) \div 2)     \* cds_lfht_get_count_order_ulong (x >= 1)
IsPow2(x) == x >= 1 /\ Pow2(Order(x)) = x
PassPow2(c) == c = 0 \/ IsPow2(c)                                \* !(count & (count - 1)) on an unsigned long
MaxOrd == Order(MaxB)
Orders == 0..(MaxOrd + 2)
SCOrder == Order(SCMask + 1)                                     \* split_count_order
SmallLimit == Pow2(CCO + SCOrder)
ClampC(c) == Min2(Max2(c, 1), MaxB)                              \* lazy paths: [MIN_TABLE_SIZE, max_nr_buckets]
ClampR(n) == LET a == Max2(n, 1)
                 b == IF "noclamp" \in Mut THEN a ELSE Min2(a, MaxB) IN
             IF Repaired THEN Pow2(Order(b)) ELSE b               \* resize_target_update_count
ScLoc(idx, f) == "sc" \o ToString(idx) \o "." \o f
Locs == {"size", "resize_target", "resize_initiated", "in_progress_destroy", "count"}
        \cup {ScLoc(k, f) : k \in 0..SCMask, f \in {"add", "del"}}
InitVal(l) == CASE l \in {"size", "resize_target"} -> S0
                [] l = "count" -> Count0
                [] l \in {"resize_initiated", "in_progress_destroy"} -> 0
                [] OTHER -> LET k == CHOOSE k \in 0..SCMask : l \in {ScLoc(k, "add"), ScLoc(k, "del")} IN
                            IF l = ScLoc(k, "add") THEN SC0[k].add ELSE SC0[k].del
FlId(t) == "F:" \o t
Flushers == {FlId(t) : t \in Procs}
FlOf == [f \in Flushers |-> CHOOSE t \in Procs : FlId(t) = f]
NoOp == [op |-> "none"]
PartThreads(len, ncpumask, mpo) == IF ncpumask > 0 THEN Min2(ncpumask + 1, len \div Pow2(mpo)) ELSE 1

(* --algorithm lfhtresize {
variables
  mem = [l \in Locs |-> InitVal(l)],
  sb = [p \in Procs |-> <<>>],
  mutex = "free",                                 \* ht->resize_mutex
  acc = [k |-> 0],
  alloc = [o \in Orders |-> IF o <= Order(S0) THEN "published" ELSE "none"],
  gpok = {},                                      \* unlinked orders for which a grace period has elapsed since
  gpw = [p \in Procs |-> {}],                     \* readers the pending grace period of p still waits for
  gps = [p \in Procs |-> {}],                     \* orders that were already unlinked when p's grace period began
  cs = [p \in Procs |-> FALSE],                   \* inside a read-side critical section
  online = [p \in Procs |-> FALSE],               \* Qsbr: registered and online (a grace period waits for it like for an open section);
                                                  \* scenario threads are registered readers, online from their first step (t_reg) to their "fin"
  goff = [p \in Procs |-> FALSE],                 \* Qsbr: taken offline by its own synchronize_rcu
  held = [p \in Procs |-> {}],                    \* orders a reader may still dereference in its current section
  wq = <<>>,                                      \* work queue: "rw" (do_resize_cb) / "dw" (do_auto_resize_destroy_cb)
  htAlive = TRUE, destroying = FALSE,
  items = Items0,
  growMax = 0,                                    \* largest target a lazy grow asked for
  done = [t \in Threads |-> FALSE],
  err = {}, errA = {},
  rv = [p \in Procs |-> 0],
  ra = [p \in Procs |-> 0], rb = [p \in Procs |-> 0], rs = [p \in Procs |-> 0],
  osz = [p \in Procs |-> 0], nsz = [p \in Procs |-> 0], oi = [p \in Procs |-> 0],
  olast = [p \in Procs |-> 0], fbr = [p \in Procs |-> 0],
  \* partition_resize_helper: job of each helper slot, number of pthread_create calls so far, locals of the caller
  hjob = [h \in Helpers |-> Idle],
  ncreate = IF AutoResize THEN 1 ELSE 0,          \* the work-queue thread is created by cds_lfht_new
  pnt = [p \in Procs |-> 0], pk = [p \in Procs |-> 0], pstart = [p \in Procs |-> 0], plen = [p \in Procs |-> 0],
  ppl = [p \in Procs |-> 0], pcov = [p \in Procs |-> 0], pn = [p \in Procs |-> 0], pg = [p \in Procs |-> 0];

define {
  LastIdx(t, loc) == LET S == {j \in DOMAIN sb[t] : sb[t][j][1] = loc} IN
                     IF S = {} THEN 0 ELSE CHOOSE j \in S : \A k \in S : k <= j
  Rd(t, loc) == IF LastIdx(t, loc) = 0 THEN mem[loc] ELSE sb[t][LastIdx(t, loc)][2]
  Drained(t) == sb[t] = <<>>
  Ev(t, o, var, a, b, r) == IF Tracing THEN [k |-> acc.k + 1, t |-> t, op |-> o, var |-> var, a |-> a, b |-> b, r |-> r] ELSE acc
  Alive(tag) == IF htAlive THEN errA ELSE errA \cup {tag}
  Linked == {o \in Orders : alloc[o] \in {"allocated", "published"}}
  Buffered(loc) == UNION {{sb[p][j][2] : j \in {k \in DOMAIN sb[p] : sb[p][k][1] = loc}} : p \in Procs}
  SizeVals == {mem["size"]} \cup Buffered("size")
  TargetVals == {mem["resize_target"]} \cup Buffered("resize_target")

  \* ---- properties (state invariants)
  SizeOK == \A s \in SizeVals : s >= 1 /\ s <= MaxB /\ IsPow2(s)
  TargetOK == \A s \in TargetVals : s >= 1 /\ s <= MaxB /\ (Repaired => IsPow2(s))
  AllocBeforePublish == destroying \/ \A s \in SizeVals : \A o \in 0..Order(s) : alloc[o] = "published"
  NoUAF == \A p \in Procs : \A o \in held[p] : alloc[o] # "freed"
  NoErr == err = {} /\ errA = {}
  SBBound == \A p \in Procs : Len(sb[p]) <= SBMax
}

macro Ld(dst, loc)        { dst := Rd(self, loc); acc := Ev(self, "ld", loc, 0, 0, Rd(self, loc)); errA := Alive("ld:" \o loc); }
macro St(loc, v)          { if (TSO) { sb[self] := Append(sb[self], <<loc, v>>) } else { mem[loc] := v };
                            acc := Ev(self, "st", loc, v, 0, 0); errA := Alive("st:" \o loc); }
macro Cas(dst, loc, o, n) { await Drained(self); dst := mem[loc]; if (mem[loc] = o) { mem[loc] := n };
                            acc := Ev(self, "cas", loc, o, n, dst); errA := Alive("cas:" \o loc); }
macro AddRet(dst, loc, v) { await Drained(self); dst := mem[loc] + v; mem[loc] := mem[loc] + v;
                            acc := Ev(self, "addret", loc, v, 0, dst); errA := Alive("addret:" \o loc); }
macro Mb()                { await Drained(self); acc := Ev(self, "mb", "-", 0, 0, 0); }
macro Lock()              { await Drained(self) /\ mutex = "free"; mutex := self; acc := Ev(self, "lock", "resize_mutex", 0, 0, 0);
                            errA := Alive("lock"); }
macro Unlock()            { await Drained(self); mutex := "free"; acc := Ev(self, "unlock", "resize_mutex", 0, 0, 0);
                            errA := Alive("unlock"); }
macro RLock()             { cs[self] := TRUE; acc := Ev(self, "rlock", "-", 0, 0, 0); }
macro RUnlock()           { cs[self] := FALSE; held[self] := {}; gpw := [p \in Procs |-> IF online[self] THEN gpw[p] ELSE gpw[p] \ {self}];
                            acc := Ev(self, "runlock", "-", 0, 0, 0); }
\* update_synchronize_rcu() as implemented by harness/absrcu.h: gp_begin records the sections that are open (no fence yet),
\* gp_end is enabled once they have all ended and the caller's store buffer is drained
macro GpBegin()           { gpw := [p \in Procs |-> IF p = self THEN {q \in Procs \ {self} : cs[q] \/ online[q]}
                                                   ELSE IF online[self] THEN gpw[p] \ {self} ELSE gpw[p]];   \* qsbr: an online caller goes offline
                            goff[self] := online[self]; online[self] := FALSE;
                            gps[self] := {o \in Orders : alloc[o] = "unlinked"};
                            err := IF cs[self] THEN err \cup {"gp_in_cs"} ELSE err;
                            acc := Ev(self, "gp_begin", "-", 0, 0, 0); }
macro GpEnd()             { await Drained(self) /\ gpw[self] = {}; gpok := gpok \cup gps[self]; acc := Ev(self, "gp_end", "-", 0, 0, 0);
                            online[self] := goff[self]; goff[self] := FALSE; }
\* register_thread / thread_online and unregister_thread / thread_offline of the flavor (no-ops unless Qsbr)
macro GoOnline(what)      { online[self] := Qsbr; acc := Ev(self, what, "-", 0, 0, 0); }
macro GoOffline(what)     { online[self] := FALSE; gpw := [p \in Procs |-> IF cs[self] THEN gpw[p] ELSE gpw[p] \ {self}]; acc := Ev(self, what, "-", 0, 0, 0); }
\* cds_lfht_free_bucket_table(ht, o) from fini_table: only an unlinked order, after a grace period, with the size lowered
macro FreeOrder(o)        { err := err \cup (IF alloc[o] = "unlinked" THEN {} ELSE {"free_not_unlinked"})
                                       \cup (IF o \in gpok THEN {} ELSE {"free_before_gp"})
                                       \cup (IF \A s \in SizeVals : s <= Pow2(o - 1) THEN {} ELSE {"free_while_published"});
                            alloc[o] := "freed"; gpok := gpok \ {o};
                            acc := Ev(self, "bfree", "order", o, 0, 0); }

\* ---------------------------------------------------------------- partition_resize_helper(ht, i, len, fct); i = oi[self], len = 2^(i-1)
\* kind "pop": fct = init_table_populate_partition (bucket insertion: _cds_lfht_add calls check_resize per traversed node)
\* kind "rem": fct = remove_table_partition (no access to the control variables)
procedure partition(kind = "pop")
{
ph_top:    pcov[self] := 0; pstart[self] := 0; pk[self] := 0; pn[self] := 0; plen[self] := Pow2(oi[self] - 1);
           if (NrCpusMask < 0 \/ Pow2(oi[self] - 1) < 2 * Pow2(MPO)) { pnt[self] := 0; goto ph_own }      \* goto fallback
           else { pnt[self] := PartThreads(Pow2(oi[self] - 1), NrCpusMask, MPO);
                  ppl[self] := Pow2(oi[self] - 1) \div Pow2(Order(PartThreads(Pow2(oi[self] - 1), NrCpusMask, MPO))) };
ph_create: while (pk[self] < pnt[self]) {                          \* pthread_create(&work[thread].thread_id, ..., partition_resize_thread, ...)
             await Drained(self);                                  \* a system call (clone): full fence
             if (ncreate = FailAt) {                               \* EAGAIN: join what was created, handle the leftovers here
               ncreate := ncreate + 1; acc := Ev(self, "fault", "pthread_create", 0, 0, 0);
               pstart[self] := pk[self] * ppl[self]; plen[self] := plen[self] - pk[self] * ppl[self]; pnt[self] := pk[self];
               goto ph_join0 }
             else {
               ncreate := ncreate + 1;
               err := IF hjob[Slot(pk[self] + 1)].st = "idle" THEN err ELSE err \cup {"helper_slot_busy"};
               hjob[Slot(pk[self] + 1)] := [st |-> "run", par |-> self, kind |-> kind, len |-> ppl[self]];
               acc := Ev(self, "spawn", Slot(pk[self] + 1), 0, 0, 0);
               pk[self] := pk[self] + 1 } };
ph_join0:  pk[self] := 0;
ph_join:   while (pk[self] < pnt[self]) {                          \* pthread_join(work[thread].thread_id, NULL)
             await Drained(self) /\ hjob[Slot(pk[self] + 1)].st = "done" /\ sb[Slot(pk[self] + 1)] = <<>>;
             hjob[Slot(pk[self] + 1)] := Idle;
             acc := Ev(self, "join", Slot(pk[self] + 1), 0, 0, 0);
             pk[self] := pk[self] + 1 };
ph_after:  if (pstart[self] = 0 /\ pnt[self] > 0) { goto ph_done };     \* if (start == 0 && nr_threads > 0) return;
ph_own:    pcov[self] := pcov[self] + plen[self];                  \* fallback: fct(ht, i, start, len) in the calling thread
ph_walk:   either { await AutoResize /\ kind = "pop" /\ pn[self] < MaxChkP; pn[self] := pn[self] + 1;
                    with (gg \in Growths \cup {0}) { pg[self] := gg } }
           or     { goto ph_done };
ph_chk:    call check_resize(Pow2(oi[self] - 1), pg[self]);
ph_back:   goto ph_walk;
ph_done:   await Drained(self);                                    \* every partition contains at least one locked instruction
           err := IF pcov[self] = Pow2(oi[self] - 1) THEN err ELSE err \cup {"partition_cover"};
           return;
}

\* ---------------------------------------------------------------- _do_cds_lfht_resize (resize_mutex held)
procedure do_resize()
{
dr_ld_ipd:  Ld(ra[self], "in_progress_destroy");                   \* if (uatomic_load(&ht->in_progress_destroy)) break;
            err := IF mutex = self THEN err ELSE err \cup {"resize_without_mutex"};
            if (ra[self] # 0) { return };
dr_st_ri1:  St("resize_initiated", 1);                             \* uatomic_store(&ht->resize_initiated, 1)
dr_ld_tgt:  osz[self] := Rd(self, "size");                         \* old_size = ht->size (plain; only the mutex holder writes it)
            Ld(nsz[self], "resize_target");                        \* new_size = uatomic_load(&ht->resize_target)
            fbr[self] := 0;
            if (osz[self] < nsz[self]) {                           \* _do_cds_lfht_grow -> init_table(old_order + 1, new_order)
              oi[self] := Order(osz[self]) + 1; olast[self] := Order(nsz[self]); goto it_loop }
            else if (osz[self] > nsz[self]) {                      \* _do_cds_lfht_shrink -> fini_table(new_order + 1, old_order)
              oi[self] := Order(osz[self]); olast[self] := Order(Max2(nsz[self], 1)) + 1; goto ft_loop }
            else { goto dr_st_ri0 };

            \* ---- init_table
it_loop:    if (oi[self] > olast[self]) { goto dr_st_ri0 };
it_ld_tgt:  Ld(ra[self], "resize_target");                         \* if (uatomic_load(&ht->resize_target) < (1UL << i)) break;
            if (ra[self] < Pow2(oi[self])) { goto dr_st_ri0 };
it_alloc:   if ("pub_first" \in Mut) { goto it_st_size }
            else {
              err := IF alloc[oi[self]] \in {"none", "freed"} THEN err ELSE err \cup {"alloc_twice"};
              alloc[oi[self]] := "allocated";                      \* cds_lfht_alloc_bucket_table(ht, i)
              acc := Ev(self, "balloc", "order", oi[self], 0, 0) };
it_pop:     call partition("pop");                                 \* init_table_populate(ht, i, len)
it_st_size: St("size", Pow2(oi[self]));                            \* uatomic_store(&ht->size, 1UL << i, CMM_RELEASE)
            if ("pub_first" \in Mut) { goto it_alloc2 } else { alloc[oi[self]] := "published" };
it_ld_ipd:  Ld(ra[self], "in_progress_destroy");                   \* if (uatomic_load(&ht->in_progress_destroy)) break;
            oi[self] := oi[self] + 1;
            if (ra[self] # 0) { goto dr_st_ri0 } else { goto it_loop };
it_alloc2:  alloc[oi[self]] := "published";                        \* mutation pub_first only: allocate after publishing
            acc := Ev(self, "balloc", "order", oi[self], 0, 0);
            goto it_ld_ipd;

            \* ---- fini_table
ft_loop:    if (oi[self] < olast[self]) { goto ft_end };
ft_ld_tgt:  Ld(ra[self], "resize_target");                         \* if (uatomic_load(&ht->resize_target) > (1UL << (i - 1))) break;
            if (ra[self] > Pow2(oi[self] - 1)) { goto ft_end };
ft_st_size: St("size", Pow2(oi[self] - 1));                        \* cmm_smp_wmb(); uatomic_store(&ht->size, 1UL << (i - 1))
ft_gp1_b:   if ("no_gp" \in Mut) { goto ft_free1 } else { GpBegin() };   \* ht->flavor->update_synchronize_rcu()
ft_gp1_e:   GpEnd();
ft_free1:   if (fbr[self] # 0) { FreeOrder(fbr[self]) };           \* if (free_by_rcu_order) cds_lfht_free_bucket_table(...)
ft_remove:  call partition("rem");                                 \* remove_table(ht, i, len)
ft_unlnk:   err := IF alloc[oi[self]] = "published" THEN err ELSE err \cup {"unlink_not_published"};
            alloc[oi[self]] := "unlinked"; gpok := gpok \ {oi[self]};
            fbr[self] := oi[self];                                 \* free_by_rcu_order = i
ft_ld_ipd:  Ld(ra[self], "in_progress_destroy");                   \* if (uatomic_load(&ht->in_progress_destroy)) break;
            oi[self] := oi[self] - 1;
            if (ra[self] # 0) { goto ft_end } else { goto ft_loop };
ft_end:     if (fbr[self] = 0) { goto dr_st_ri0 };
ft_gp2_b:   if ("no_gp" \in Mut) { goto ft_free2 } else { GpBegin() };   \* ht->flavor->update_synchronize_rcu()
ft_gp2_e:   GpEnd();
ft_free2:   FreeOrder(fbr[self]);                                  \* cds_lfht_free_bucket_table(ht, free_by_rcu_order)

dr_st_ri0:  St("resize_initiated", 0);                             \* uatomic_store(&ht->resize_initiated, 0)
dr_mb:      if ("no_mb" \notin Mut) { Mb() };                      \* cmm_smp_mb(): write resize_initiated before read resize_target
dr_ld_tgt2: Ld(ra[self], "resize_target");                         \* while (ht->size != uatomic_load(&ht->resize_target))
            if (Rd(self, "size") # ra[self]) { goto dr_ld_ipd } else { return };
}

\* ---------------------------------------------------------------- _uatomic_xchg_monotonic_increase(&ht->resize_target, v)
procedure target_grow(tv = 0)
{
tg_ld:   Ld(ra[self], "resize_target");                            \* old1 = uatomic_load(ptr)
         if (ra[self] >= tv) { goto tg_mb } else { goto tg_cas };
tg_mb:   Mb();                                                     \* if (old2 >= tv) { cmm_smp_mb(); return old2; }
         rv[self] := ra[self]; growMax := Max2(growMax, tv);
         return;
tg_cas:  Cas(rb[self], "resize_target", ra[self], tv);              \* while ((old1 = uatomic_cmpxchg(ptr, old2, v)) != old2)
         if (rb[self] = ra[self]) { rv[self] := ra[self]; growMax := Max2(growMax, tv); return }
         else { ra[self] := rb[self]; if (rb[self] >= tv) { goto tg_mb } else { goto tg_cas } };
}

\* ---------------------------------------------------------------- __cds_lfht_resize_lazy_launch
procedure lazy_launch()
{
ll_ld_ri:  Ld(ra[self], "resize_initiated");                       \* if (!uatomic_load(&ht->resize_initiated)) {
           if (ra[self] # 0) { return };
ll_ld_ipd: if ("no_ipd" \in Mut) { skip }
           else { Ld(ra[self], "in_progress_destroy");             \* if (uatomic_load(&ht->in_progress_destroy)) return;
                  if (ra[self] # 0) { return } };
ll_walloc: acc := Ev(self, "walloc", "rw", 0, 0, 0);               \* work = ht->alloc->malloc(...)
           errA := Alive("walloc");
ll_queue:  await Drained(self);                                    \* urcu_workqueue_queue_work(cds_lfht_workqueue, &work->work, do_resize_cb)
           wq := Append(wq, "rw"); acc := Ev(self, "enq", "rw", 0, 0, 0);
ll_st_ri:  St("resize_initiated", 1);                              \* uatomic_store(&ht->resize_initiated, 1)
           return;
}

\* ---------------------------------------------------------------- cds_lfht_resize_lazy_grow(ht, size, growth)
procedure lazy_grow(gsz = 0, lg = 0)
{
lg_tg:   call target_grow(Min2(gsz * Pow2(lg), MaxB));             \* resize_target_grow(ht, min(size << growth, max_nr_buckets))
lg_chk:  if (rv[self] >= Min2(gsz * Pow2(lg), MaxB)) { return }
         else { call lazy_launch(); return };
}

\* ---------------------------------------------------------------- cds_lfht_resize_lazy_count(ht, size, count)
procedure lazy_count(lsz = 0, lcnt = 0)
{
lc_top:  rs[self] := lsz;
         if (~AutoResize) { return }
         else if (ClampC(lcnt) = lsz) { return }                   \* already the right size
         else if (ClampC(lcnt) < lsz) { goto lc_cas };             \* lazy shrink
lc_grow: call target_grow(ClampC(lcnt));                           \* lazy grow
lc_gchk: if (rv[self] >= ClampC(lcnt)) { return } else { goto lc_launch };
lc_cas:  Cas(rb[self], "resize_target", rs[self], ClampC(lcnt));   \* s = uatomic_cmpxchg(&ht->resize_target, size, count)
         if (rb[self] = rs[self]) { goto lc_launch }               \* no resize needed before: launch
         else if (rb[self] > rs[self]) { return }                  \* growing is/(was just) in progress
         else if (rb[self] <= ClampC(lcnt)) { return }             \* some other thread does the shrink
         else { rs[self] := rb[self]; goto lc_cas };
lc_launch: call lazy_launch();
           return;
}

\* ---------------------------------------------------------------- check_resize(ht, size, chain_len); cg = 0: chain_len < threshold
procedure check_resize(csz = 0, cg = 0)
{
cr_ld_count: Ld(ra[self], "count");                                \* count = uatomic_load(&ht->count) (unsigned comparison)
             if (ra[self] < 0 \/ ra[self] >= SmallLimit \/ cg = 0) { return }
             else if (Accounting /\ csz * Pow2(cg) >= SmallLimit) {
               if (CCO + SCOrder - Order(csz) <= 0) { return }
               else { call lazy_grow(csz, CCO + SCOrder - Order(csz)); return } }
             else { call lazy_grow(csz, cg); return };
}

\* ---------------------------------------------------------------- ht_count_add / ht_count_del
procedure ht_count_add(hsz = 0)
{
ca_add:  if (~Accounting) { return }
         else { AddRet(ra[self], ScLoc(Cpu[self] % (SCMask + 1), "add"), 1);     \* uatomic_add_return(&ht->split_count[index].add, 1)
                if (ra[self] % Pow2(CCO) # 0) { return } };
ca_cnt:  AddRet(ra[self], "count", Pow2(CCO));                     \* uatomic_add_return(&ht->count, 1UL << COUNT_COMMIT_ORDER)
         if (~PassPow2(ra[self])) { return }
         else if (ra[self] \div 8 < hsz) { return }                \* (count >> CHAIN_LEN_RESIZE_THRESHOLD) < size
         else { call lazy_count(hsz, ra[self]); return };
}

procedure ht_count_del(ksz = 0)
{
cd_del:  if (~Accounting) { return }
         else { AddRet(ra[self], ScLoc(Cpu[self] % (SCMask + 1), "del"), 1);     \* uatomic_add_return(&ht->split_count[index].del, 1)
                if (ra[self] % Pow2(CCO) # 0) { return } };
cd_cnt:  AddRet(ra[self], "count", 0 - Pow2(CCO));                 \* uatomic_add_return(&ht->count, -(1UL << COUNT_COMMIT_ORDER))
         if (~PassPow2(ra[self])) { return }
         else if (ra[self] \div 8 >= ksz) { return }
         else if (ra[self] < Pow2(CCO) * (SCMask + 1)) { return }  \* don't shrink below the threshold
         else { call lazy_count(ksz, ra[self]); return };
}

\* ---------------------------------------------------------------- cds_lfht_delete_bucket (no concurrent access by contract)
procedure delete_bucket()
{
db_chk:  errA := Alive("delete_bucket");
         if (items # 0) { rv[self] := 0 - 1; return }             \* -EPERM: a non-bucket node is linked
         else { destroying := TRUE; oi[self] := Order(Rd(self, "size")) };   \* size = ht->size
db_free: while (oi[self] >= 0) {                                   \* for (order = count_order(size); order >= 0; order--) free
           err := IF alloc[oi[self]] = "published" THEN err ELSE err \cup {"destroy_free_unpublished"};
           alloc[oi[self]] := "freed";
           acc := Ev(self, "bfree", "order", oi[self], 0, 0);
           oi[self] := oi[self] - 1 };
         rv[self] := 0;
         return;
}

fair process (flusher \in Flushers) {
fl: while (TRUE) {
      await sb[FlOf[self]] # <<>>;
      mem[Head(sb[FlOf[self]])[1]] := Head(sb[FlOf[self]])[2] || sb[FlOf[self]] := Tail(sb[FlOf[self]])
      || acc := IF Tracing THEN [k |-> acc.k + 1, t |-> FlOf[self], op |-> "flush", var |-> Head(sb[FlOf[self]])[1],
                               a |-> Head(sb[FlOf[self]])[2], b |-> 0, r |-> 0] ELSE acc;
    }
}

fair process (thr \in Threads)
variables i = 1, op = NoOp, n = 0, sz = 0, g = 0, nchk = 0, res = 0, woff = FALSE;
{
t_reg:  online[self] := Qsbr;                                       \* (Qsbr: rcu_register_thread() by the thread itself)
t_top:  while (i <= Len(Prog[self])) {
          op := Prog[self][i]; nchk := 0; res := 0;
          if (Prog[self][i].op = "resize") {
            with (v \in Prog[self][i].ns) { n := v; acc := Ev(self, "call", "resize", v, 0, 0) }; goto rs_tgt }
          else if (Prog[self][i].op = "add") { acc := Ev(self, "call", "add", 0, 0, 0); goto a_rlock }
          else if (Prog[self][i].op = "del") { acc := Ev(self, "call", "del", 0, 0, 0); goto d_rlock }
          else if (Prog[self][i].op = "lookup") { acc := Ev(self, "call", "lookup", 0, 0, 0); goto l_rlock }
          else { acc := Ev(self, "call", "destroy", 0, 0, 0); goto ds_join };

        \* ---------------- cds_lfht_resize(ht, n)
rs_tgt:   St("resize_target", ClampR(n));                          \* resize_target_update_count(ht, new_size)
rs_st_ri: St("resize_initiated", 1);                               \* uatomic_store(&ht->resize_initiated, 1)
          \* finding F7 (repaired): an online QSBR caller goes offline while it blocks on the mutex; Mut "on_lock" = unrepaired code
rs_off:   if (online[self] /\ "on_lock" \notin Mut) { woff := TRUE; GoOffline("offline") }   \* was_online = read_ongoing(); if (was_online) thread_offline()
          else { woff := FALSE };
rs_lock:  Lock();                                                  \* mutex_lock(&ht->resize_mutex)
rs_on:    if (woff) { GoOnline("online") };                        \* if (was_online) thread_online()
rs_do:    call do_resize();
rs_unlock: Unlock();
          goto t_ret;

        \* ---------------- rcu_read_lock(); cds_lfht_add(); rcu_read_unlock()
a_rlock:  RLock();
a_ld_size: Ld(sz, "size");                                         \* size = uatomic_load(&ht->size, CMM_ACQUIRE)
          held[self] := 0..Order(sz);
a_walk:   either { await AutoResize /\ nchk < MaxChk; nchk := nchk + 1;         \* _cds_lfht_add: check_resize(ht, size, ++chain_len)
                   with (gg \in Growths \cup {0}) { g := gg };
                   held[self] := held[self] \cup Linked }
          or     { goto a_insert };
a_chk:    call check_resize(sz, g);
a_back:   goto a_walk;
a_insert: await Drained(self);                                     \* uatomic_cmpxchg(&iter_prev->next, iter, new_node)
          items := items + 1; held[self] := held[self] \cup Linked;
a_cnt:    call ht_count_add(sz);
a_runlock: RUnlock();
          goto t_ret;

        \* ---------------- rcu_read_lock(); cds_lfht_del(); rcu_read_unlock()
d_rlock:  RLock();
d_ld_size: Ld(sz, "size");
          held[self] := 0..Order(sz);
d_remove: await Drained(self);                                     \* _cds_lfht_del: uatomic_or REMOVED, gc, xchg REMOVAL_OWNER
          items := items - 1; held[self] := held[self] \cup Linked;
d_cnt:    call ht_count_del(sz);
d_runlock: RUnlock();
          goto t_ret;

        \* ---------------- rcu_read_lock(); cds_lfht_lookup(); rcu_read_unlock()
l_rlock:  RLock();
l_ld_size: Ld(sz, "size");
          held[self] := 0..Order(sz);
l_walk:   held[self] := held[self] \cup Linked;                    \* chain traversal may step on any linked bucket node
l_runlock: RUnlock();
          goto t_ret;

        \* ---------------- cds_lfht_destroy(ht, NULL), called once every other thread has finished
ds_join:  await \A t \in Threads \ {self} : done[t];
          if (AutoResize) { goto ds_e_on } else { goto ds_db };
ds_e_on:  GoOnline("online");                \* cds_lfht_is_empty(): if (!read_ongoing()) { thread_online(); read_lock(); }
ds_e_lock: RLock();                                                \*   (destroy is called outside any section: the QSBR bracket is always taken)
          errA := Alive("is_empty");
ds_e_unlock: RUnlock();                                            \* read_unlock(); thread_offline();
ds_e_off: GoOffline("offline");
          if (items # 0) { res := 0 - 1; goto t_ret };
ds_st_ipd: St("in_progress_destroy", 1);                           \* uatomic_store(&ht->in_progress_destroy, 1)
ds_queue: await Drained(self);                                     \* urcu_workqueue_queue_work(..., &ht->destroy_work, do_auto_resize_destroy_cb)
          wq := Append(wq, "dw"); acc := Ev(self, "enq", "dw", 0, 0, 0);
          goto t_ret;
ds_db:    call delete_bucket();
ds_dbr:   if (rv[self] # 0) { res := 0 - 1; goto t_ret };
ds_fsc:   if (Accounting) { acc := Ev(self, "scfree", "-", 0, 0, 0) };     \* free_split_items_count(ht)
ds_fht:   htAlive := FALSE; acc := Ev(self, "htfree", "-", 0, 0, 0);       \* poison_free(ht->alloc, ht)

t_ret:    acc := Ev(self, "ret", op.op, 0, 0, res);
          i := i + 1;
        };
t_fin:  done[self] := TRUE; acc := Ev(self, "fin", "-", 0, 0, 0);                \* (Qsbr: rcu_unregister_thread())
        online[self] := FALSE; gpw := [p \in Procs |-> gpw[p] \ {self}];
}

\* ---------------------------------------------------------------- partition_resize_thread (slots p1, p2)
fair process (helper \in Helpers)
variables hn = 0, hg = 0;
{
hp_reg:   while (TRUE) {
            await hjob[self].st = "run";
            hn := 0; GoOnline("reg");        \* work->ht->flavor->register_thread()
hp_walk:    either { await AutoResize /\ hjob[self].kind = "pop" /\ hn < MaxChkP; hn := hn + 1;
                     with (gg \in Growths \cup {0}) { hg := gg } }
            or     { goto hp_unreg };
hp_chk:     call check_resize(Pow2(oi[hjob[self].par] - 1), hg);
hp_back:    goto hp_walk;
hp_unreg:   \* work->ht->flavor->unregister_thread(); thread exit (the exit drains the store buffer before the join returns)
            pcov[hjob[self].par] := pcov[hjob[self].par] + hjob[self].len;
            hjob[self].st := "done";
            GoOffline("unreg");
          }
}

\* ---------------------------------------------------------------- work-queue thread (workqueue_thread -> uwp->func(uwp))
fair process (worker \in {W})
variables cur = "";
{
w_wait: while (TRUE) {
          await wq # <<>>;
          cur := Head(wq); wq := Tail(wq);
          errA := Alive("work");
w_disp:   if (cur = "rw") { if ("reg_first" \in Mut) { goto w_oreg } else { goto w_lock } } else { goto w_reg2 };
          \* do_resize_cb, repaired order (finding F6): the thread registers (QSBR: goes online) only once it owns resize_mutex
w_lock:   Lock();                                                  \* mutex_lock(&ht->resize_mutex)
w_reg:    GoOnline("reg");                                          \* ht->flavor->register_thread()
w_do:     call do_resize();
w_unreg:  GoOffline("unreg");                                       \* ht->flavor->unregister_thread()
w_unlock: Unlock();
w_wfree:  acc := Ev(self, "wfree", "rw", 0, 0, 0);                 \* poison_free(ht->alloc, work)
          goto w_wait;
          \* do_resize_cb as it was before the repair of F6 (Mut "reg_first", negative control): register, lock, resize, unlock, unregister
w_oreg:   GoOnline("reg");
w_olock:  Lock();
w_odo:    call do_resize();
w_ounlock: Unlock();
w_ounreg: GoOffline("unreg");
          goto w_wfree;
          \* do_auto_resize_destroy_cb
w_reg2:   GoOnline("reg");                                          \* ht->flavor->register_thread()
w_db:     call delete_bucket();
w_fsc:    err := IF rv[self] = 0 THEN err ELSE err \cup {"destroy_cb_nonempty"};
          if (Accounting) { acc := Ev(self, "scfree", "-", 0, 0, 0) };
w_unreg2: GoOffline("unreg");
w_fht:    htAlive := FALSE; acc := Ev(self, "htfree", "-", 0, 0, 0);
        }
}
} *)
\* BEGIN TRANSLATION
VARIABLES pc, mem, sb, mutex, acc, alloc, gpok, gpw, gps, cs, online, goff, 
          held, wq, htAlive, destroying, items, growMax, done, err, errA, rv, 
          ra, rb, rs, osz, nsz, oi, olast, fbr, hjob, ncreate, pnt, pk, 
          pstart, plen, ppl, pcov, pn, pg, stack

(* define statement *)
LastIdx(t, loc) == LET S == {j \in DOMAIN sb[t] : sb[t][j][1] = loc} IN
                   IF S = {} THEN 0 ELSE CHOOSE j \in S : \A k \in S : k <= j
Rd(t, loc) == IF LastIdx(t, loc) = 0 THEN mem[loc] ELSE sb[t][LastIdx(t, loc)][2]
Drained(t) == sb[t] = <<>>
Ev(t, o, var, a, b, r) == IF Tracing THEN [k |-> acc.k + 1, t |-> t, op |-> o, var |-> var, a |-> a, b |-> b, r |-> r] ELSE acc
Alive(tag) == IF htAlive THEN errA ELSE errA \cup {tag}
Linked == {o \in Orders : alloc[o] \in {"allocated", "published"}}
Buffered(loc) == UNION {{sb[p][j][2] : j \in {k \in DOMAIN sb[p] : sb[p][k][1] = loc}} : p \in Procs}
SizeVals == {mem["size"]} \cup Buffered("size")
TargetVals == {mem["resize_target"]} \cup Buffered("resize_target")


SizeOK == \A s \in SizeVals : s >= 1 /\ s <= MaxB /\ IsPow2(s)
TargetOK == \A s \in TargetVals : s >= 1 /\ s <= MaxB /\ (Repaired => IsPow2(s))
AllocBeforePublish == destroying \/ \A s \in SizeVals : \A o \in 0..Order(s) : alloc[o] = "published"
NoUAF == \A p \in Procs : \A o \in held[p] : alloc[o] # "freed"
NoErr == err = {} /\ errA = {}
SBBound == \A p \in Procs : Len(sb[p]) <= SBMax

VARIABLES kind, tv, gsz, lg, lsz, lcnt, csz, cg, hsz, ksz, i, op, n, sz, g, 
          nchk, res, woff, hn, hg, cur

vars == << pc, mem, sb, mutex, acc, alloc, gpok, gpw, gps, cs, online, goff, 
           held, wq, htAlive, destroying, items, growMax, done, err, errA, rv, 
           ra, rb, rs, osz, nsz, oi, olast, fbr, hjob, ncreate, pnt, pk, 
           pstart, plen, ppl, pcov, pn, pg, stack, kind, tv, gsz, lg, lsz, 
           lcnt, csz, cg, hsz, ksz, i, op, n, sz, g, nchk, res, woff, hn, hg, 
           cur >>

ProcSet == (Flushers) \cup (Threads) \cup (Helpers) \cup ({W})

Init == (* Global variables *)
        /\ mem = [l \in Locs |-> InitVal(l)]
        /\ sb = [p \in Procs |-> <<>>]
        /\ mutex = "free"
        /\ acc = [k |-> 0]
        /\ alloc = [o \in Orders |-> IF o <= Order(S0) THEN "published" ELSE "none"]
        /\ gpok = {}
        /\ gpw = [p \in Procs |-> {}]
        /\ gps = [p \in Procs |-> {}]
        /\ cs = [p \in Procs |-> FALSE]
        /\ online = [p \in Procs |-> FALSE]
        /\ goff = [p \in Procs |-> FALSE]
        /\ held = [p \in Procs |-> {}]
        /\ wq = <<>>
        /\ htAlive = TRUE
        /\ destroying = FALSE
        /\ items = Items0
        /\ growMax = 0
        /\ done = [t \in Threads |-> FALSE]
        /\ err = {}
        /\ errA = {}
        /\ rv = [p \in Procs |-> 0]
        /\ ra = [p \in Procs |-> 0]
        /\ rb = [p \in Procs |-> 0]
        /\ rs = [p \in Procs |-> 0]
        /\ osz = [p \in Procs |-> 0]
        /\ nsz = [p \in Procs |-> 0]
        /\ oi = [p \in Procs |-> 0]
        /\ olast = [p \in Procs |-> 0]
        /\ fbr = [p \in Procs |-> 0]
        /\ hjob = [h \in Helpers |-> Idle]
        /\ ncreate = IF AutoResize THEN 1 ELSE 0
        /\ pnt = [p \in Procs |-> 0]
        /\ pk = [p \in Procs |-> 0]
        /\ pstart = [p \in Procs |-> 0]
        /\ plen = [p \in Procs |-> 0]
        /\ ppl = [p \in Procs |-> 0]
        /\ pcov = [p \in Procs |-> 0]
        /\ pn = [p \in Procs |-> 0]
        /\ pg = [p \in Procs |-> 0]
        (* Procedure partition *)
        /\ kind = [ self \in ProcSet |-> "pop"]
        (* Procedure target_grow *)
        /\ tv = [ self \in ProcSet |-> 0]
        (* Procedure lazy_grow *)
        /\ gsz = [ self \in ProcSet |-> 0]
        /\ lg = [ self \in ProcSet |-> 0]
        (* Procedure lazy_count *)
        /\ lsz = [ self \in ProcSet |-> 0]
        /\ lcnt = [ self \in ProcSet |-> 0]
        (* Procedure check_resize *)
        /\ csz = [ self \in ProcSet |-> 0]
        /\ cg = [ self \in ProcSet |-> 0]
        (* Procedure ht_count_add *)
        /\ hsz = [ self \in ProcSet |-> 0]
        (* Procedure ht_count_del *)
        /\ ksz = [ self \in ProcSet |-> 0]
        (* Process thr *)
        /\ i = [self \in Threads |-> 1]
        /\ op = [self \in Threads |-> NoOp]
        /\ n = [self \in Threads |-> 0]
        /\ sz = [self \in Threads |-> 0]
        /\ g = [self \in Threads |-> 0]
        /\ nchk = [self \in Threads |-> 0]
        /\ res = [self \in Threads |-> 0]
        /\ woff = [self \in Threads |-> FALSE]
        (* Process helper *)
        /\ hn = [self \in Helpers |-> 0]
        /\ hg = [self \in Helpers |-> 0]
        (* Process worker *)
        /\ cur = [self \in {W} |-> ""]
        /\ stack = [self \in ProcSet |-> << >>]
        /\ pc = [self \in ProcSet |-> CASE self \in Flushers -> "fl"
                                        [] self \in Threads -> "t_reg"
                                        [] self \in Helpers -> "hp_reg"
                                        [] self \in {W} -> "w_wait"]

ph_top(self) == /\ pc[self] = "ph_top"
                /\ pcov' = [pcov EXCEPT ![self] = 0]
                /\ pstart' = [pstart EXCEPT ![self] = 0]
                /\ pk' = [pk EXCEPT ![self] = 0]
                /\ pn' = [pn EXCEPT ![self] = 0]
                /\ plen' = [plen EXCEPT ![self] = Pow2(oi[self] - 1)]
                /\ IF NrCpusMask < 0 \/ Pow2(oi[self] - 1) < 2 * Pow2(MPO)
                      THEN /\ pnt' = [pnt EXCEPT ![self] = 0]
                           /\ pc' = [pc EXCEPT ![self] = "ph_own"]
                           /\ ppl' = ppl
                      ELSE /\ pnt' = [pnt EXCEPT ![self] = PartThreads(Pow2(oi[self] - 1), NrCpusMask, MPO)]
                           /\ ppl' = [ppl EXCEPT ![self] = Pow2(oi[self] - 1) \div Pow2(Order(PartThreads(Pow2(oi[self] - 1), NrCpusMask, MPO)))]
                           /\ pc' = [pc EXCEPT ![self] = "ph_create"]
                /\ UNCHANGED << mem, sb, mutex, acc, alloc, gpok, gpw, gps, cs, 
                                online, goff, held, wq, htAlive, destroying, 
                                items, growMax, done, err, errA, rv, ra, rb, 
                                rs, osz, nsz, oi, olast, fbr, hjob, ncreate, 
                                pg, stack, kind, tv, gsz, lg, lsz, lcnt, csz, 
                                cg, hsz, ksz, i, op, n, sz, g, nchk, res, woff, 
                                hn, hg, cur >>

ph_create(self) == /\ pc[self] = "ph_create"
                   /\ IF pk[self] < pnt[self]
                         THEN /\ Drained(self)
                              /\ IF ncreate = FailAt
                                    THEN /\ ncreate' = ncreate + 1
                                         /\ acc' = Ev(self, "fault", "pthread_create", 0, 0, 0)
                                         /\ pstart' = [pstart EXCEPT ![self] = pk[self] * ppl[self]]
                                         /\ plen' = [plen EXCEPT ![self] = plen[self] - pk[self] * ppl[self]]
                                         /\ pnt' = [pnt EXCEPT ![self] = pk[self]]
                                         /\ pc' = [pc EXCEPT ![self] = "ph_join0"]
                                         /\ UNCHANGED << err, hjob, pk >>
                                    ELSE /\ ncreate' = ncreate + 1
                                         /\ err' = (IF hjob[Slot(pk[self] + 1)].st = "idle" THEN err ELSE err \cup {"helper_slot_busy"})
                                         /\ hjob' = [hjob EXCEPT ![Slot(pk[self] + 1)] = [st |-> "run", par |-> self, kind |-> kind[self], len |-> ppl[self]]]
                                         /\ acc' = Ev(self, "spawn", Slot(pk[self] + 1), 0, 0, 0)
                                         /\ pk' = [pk EXCEPT ![self] = pk[self] + 1]
                                         /\ pc' = [pc EXCEPT ![self] = "ph_create"]
                                         /\ UNCHANGED << pnt, pstart, plen >>
                         ELSE /\ pc' = [pc EXCEPT ![self] = "ph_join0"]
                              /\ UNCHANGED << acc, err, hjob, ncreate, pnt, pk, 
                                              pstart, plen >>
                   /\ UNCHANGED << mem, sb, mutex, alloc, gpok, gpw, gps, cs, 
                                   online, goff, held, wq, htAlive, destroying, 
                                   items, growMax, done, errA, rv, ra, rb, rs, 
                                   osz, nsz, oi, olast, fbr, ppl, pcov, pn, pg, 
                                   stack, kind, tv, gsz, lg, lsz, lcnt, csz, 
                                   cg, hsz, ksz, i, op, n, sz, g, nchk, res, 
                                   woff, hn, hg, cur >>

ph_join0(self) == /\ pc[self] = "ph_join0"
                  /\ pk' = [pk EXCEPT ![self] = 0]
                  /\ pc' = [pc EXCEPT ![self] = "ph_join"]
                  /\ UNCHANGED << mem, sb, mutex, acc, alloc, gpok, gpw, gps, 
                                  cs, online, goff, held, wq, htAlive, 
                                  destroying, items, growMax, done, err, errA, 
                                  rv, ra, rb, rs, osz, nsz, oi, olast, fbr, 
                                  hjob, ncreate, pnt, pstart, plen, ppl, pcov, 
                                  pn, pg, stack, kind, tv, gsz, lg, lsz, lcnt, 
                                  csz, cg, hsz, ksz, i, op, n, sz, g, nchk, 
                                  res, woff, hn, hg, cur >>

ph_join(self) == /\ pc[self] = "ph_join"
                 /\ IF pk[self] < pnt[self]
                       THEN /\ Drained(self) /\ hjob[Slot(pk[self] + 1)].st = "done" /\ sb[Slot(pk[self] + 1)] = <<>>
                            /\ hjob' = [hjob EXCEPT ![Slot(pk[self] + 1)] = Idle]
                            /\ acc' = Ev(self, "join", Slot(pk[self] + 1), 0, 0, 0)
                            /\ pk' = [pk EXCEPT ![self] = pk[self] + 1]
                            /\ pc' = [pc EXCEPT ![self] = "ph_join"]
                       ELSE /\ pc' = [pc EXCEPT ![self] = "ph_after"]
                            /\ UNCHANGED << acc, hjob, pk >>
                 /\ UNCHANGED << mem, sb, mutex, alloc, gpok, gpw, gps, cs, 
                                 online, goff, held, wq, htAlive, destroying, 
                                 items, growMax, done, err, errA, rv, ra, rb, 
                                 rs, osz, nsz, oi, olast, fbr, ncreate, pnt, 
                                 pstart, plen, ppl, pcov, pn, pg, stack, kind, 
                                 tv, gsz, lg, lsz, lcnt, csz, cg, hsz, ksz, i, 
                                 op, n, sz, g, nchk, res, woff, hn, hg, cur >>

ph_after(self) == /\ pc[self] = "ph_after"
                  /\ IF pstart[self] = 0 /\ pnt[self] > 0
                        THEN /\ pc' = [pc EXCEPT ![self] = "ph_done"]
                        ELSE /\ pc' = [pc EXCEPT ![self] = "ph_own"]
                  /\ UNCHANGED << mem, sb, mutex, acc, alloc, gpok, gpw, gps, 
                                  cs, online, goff, held, wq, htAlive, 
                                  destroying, items, growMax, done, err, errA, 
                                  rv, ra, rb, rs, osz, nsz, oi, olast, fbr, 
                                  hjob, ncreate, pnt, pk, pstart, plen, ppl, 
                                  pcov, pn, pg, stack, kind, tv, gsz, lg, lsz, 
                                  lcnt, csz, cg, hsz, ksz, i, op, n, sz, g, 
                                  nchk, res, woff, hn, hg, cur >>

ph_own(self) == /\ pc[self] = "ph_own"
                /\ pcov' = [pcov EXCEPT ![self] = pcov[self] + plen[self]]
                /\ pc' = [pc EXCEPT ![self] = "ph_walk"]
                /\ UNCHANGED << mem, sb, mutex, acc, alloc, gpok, gpw, gps, cs, 
                                online, goff, held, wq, htAlive, destroying, 
                                items, growMax, done, err, errA, rv, ra, rb, 
                                rs, osz, nsz, oi, olast, fbr, hjob, ncreate, 
                                pnt, pk, pstart, plen, ppl, pn, pg, stack, 
                                kind, tv, gsz, lg, lsz, lcnt, csz, cg, hsz, 
                                ksz, i, op, n, sz, g, nchk, res, woff, hn, hg, 
                                cur >>

ph_walk(self) == /\ pc[self] = "ph_walk"
                 /\ \/ /\ AutoResize /\ kind[self] = "pop" /\ pn[self] < MaxChkP
                       /\ pn' = [pn EXCEPT ![self] = pn[self] + 1]
                       /\ \E gg \in Growths \cup {0}:
                            pg' = [pg EXCEPT ![self] = gg]
                       /\ pc' = [pc EXCEPT ![self] = "ph_chk"]
                    \/ /\ pc' = [pc EXCEPT ![self] = "ph_done"]
                       /\ UNCHANGED <<pn, pg>>
                 /\ UNCHANGED << mem, sb, mutex, acc, alloc, gpok, gpw, gps, 
                                 cs, online, goff, held, wq, htAlive, 
                                 destroying, items, growMax, done, err, errA, 
                                 rv, ra, rb, rs, osz, nsz, oi, olast, fbr, 
                                 hjob, ncreate, pnt, pk, pstart, plen, ppl, 
                                 pcov, stack, kind, tv, gsz, lg, lsz, lcnt, 
                                 csz, cg, hsz, ksz, i, op, n, sz, g, nchk, res, 
                                 woff, hn, hg, cur >>

ph_chk(self) == /\ pc[self] = "ph_chk"
                /\ /\ cg' = [cg EXCEPT ![self] = pg[self]]
                   /\ csz' = [csz EXCEPT ![self] = Pow2(oi[self] - 1)]
                   /\ stack' = [stack EXCEPT ![self] = << [ procedure |->  "check_resize",
                                                            pc        |->  "ph_back",
                                                            csz       |->  csz[self],
                                                            cg        |->  cg[self] ] >>
                                                        \o stack[self]]
                /\ pc' = [pc EXCEPT ![self] = "cr_ld_count"]
                /\ UNCHANGED << mem, sb, mutex, acc, alloc, gpok, gpw, gps, cs, 
                                online, goff, held, wq, htAlive, destroying, 
                                items, growMax, done, err, errA, rv, ra, rb, 
                                rs, osz, nsz, oi, olast, fbr, hjob, ncreate, 
                                pnt, pk, pstart, plen, ppl, pcov, pn, pg, kind, 
                                tv, gsz, lg, lsz, lcnt, hsz, ksz, i, op, n, sz, 
                                g, nchk, res, woff, hn, hg, cur >>

ph_back(self) == /\ pc[self] = "ph_back"
                 /\ pc' = [pc EXCEPT ![self] = "ph_walk"]
                 /\ UNCHANGED << mem, sb, mutex, acc, alloc, gpok, gpw, gps, 
                                 cs, online, goff, held, wq, htAlive, 
                                 destroying, items, growMax, done, err, errA, 
                                 rv, ra, rb, rs, osz, nsz, oi, olast, fbr, 
                                 hjob, ncreate, pnt, pk, pstart, plen, ppl, 
                                 pcov, pn, pg, stack, kind, tv, gsz, lg, lsz, 
                                 lcnt, csz, cg, hsz, ksz, i, op, n, sz, g, 
                                 nchk, res, woff, hn, hg, cur >>

ph_done(self) == /\ pc[self] = "ph_done"
                 /\ Drained(self)
                 /\ err' = (IF pcov[self] = Pow2(oi[self] - 1) THEN err ELSE err \cup {"partition_cover"})
                 /\ pc' = [pc EXCEPT ![self] = Head(stack[self]).pc]
                 /\ kind' = [kind EXCEPT ![self] = Head(stack[self]).kind]
                 /\ stack' = [stack EXCEPT ![self] = Tail(stack[self])]
                 /\ UNCHANGED << mem, sb, mutex, acc, alloc, gpok, gpw, gps, 
                                 cs, online, goff, held, wq, htAlive, 
                                 destroying, items, growMax, done, errA, rv, 
                                 ra, rb, rs, osz, nsz, oi, olast, fbr, hjob, 
                                 ncreate, pnt, pk, pstart, plen, ppl, pcov, pn, 
                                 pg, tv, gsz, lg, lsz, lcnt, csz, cg, hsz, ksz, 
                                 i, op, n, sz, g, nchk, res, woff, hn, hg, cur >>

partition(self) == ph_top(self) \/ ph_create(self) \/ ph_join0(self)
                      \/ ph_join(self) \/ ph_after(self) \/ ph_own(self)
                      \/ ph_walk(self) \/ ph_chk(self) \/ ph_back(self)
                      \/ ph_done(self)

dr_ld_ipd(self) == /\ pc[self] = "dr_ld_ipd"
                   /\ ra' = [ra EXCEPT ![self] = Rd(self, "in_progress_destroy")]
                   /\ acc' = Ev(self, "ld", "in_progress_destroy", 0, 0, Rd(self, "in_progress_destroy"))
                   /\ errA' = Alive("ld:" \o "in_progress_destroy")
                   /\ err' = (IF mutex = self THEN err ELSE err \cup {"resize_without_mutex"})
                   /\ IF ra'[self] # 0
                         THEN /\ pc' = [pc EXCEPT ![self] = Head(stack[self]).pc]
                              /\ stack' = [stack EXCEPT ![self] = Tail(stack[self])]
                         ELSE /\ pc' = [pc EXCEPT ![self] = "dr_st_ri1"]
                              /\ stack' = stack
                   /\ UNCHANGED << mem, sb, mutex, alloc, gpok, gpw, gps, cs, 
                                   online, goff, held, wq, htAlive, destroying, 
                                   items, growMax, done, rv, rb, rs, osz, nsz, 
                                   oi, olast, fbr, hjob, ncreate, pnt, pk, 
                                   pstart, plen, ppl, pcov, pn, pg, kind, tv, 
                                   gsz, lg, lsz, lcnt, csz, cg, hsz, ksz, i, 
                                   op, n, sz, g, nchk, res, woff, hn, hg, cur >>

dr_st_ri1(self) == /\ pc[self] = "dr_st_ri1"
                   /\ IF TSO
                         THEN /\ sb' = [sb EXCEPT ![self] = Append(sb[self], <<"resize_initiated", 1>>)]
                              /\ mem' = mem
                         ELSE /\ mem' = [mem EXCEPT !["resize_initiated"] = 1]
                              /\ sb' = sb
                   /\ acc' = Ev(self, "st", "resize_initiated", 1, 0, 0)
                   /\ errA' = Alive("st:" \o "resize_initiated")
                   /\ pc' = [pc EXCEPT ![self] = "dr_ld_tgt"]
                   /\ UNCHANGED << mutex, alloc, gpok, gpw, gps, cs, online, 
                                   goff, held, wq, htAlive, destroying, items, 
                                   growMax, done, err, rv, ra, rb, rs, osz, 
                                   nsz, oi, olast, fbr, hjob, ncreate, pnt, pk, 
                                   pstart, plen, ppl, pcov, pn, pg, stack, 
                                   kind, tv, gsz, lg, lsz, lcnt, csz, cg, hsz, 
                                   ksz, i, op, n, sz, g, nchk, res, woff, hn, 
                                   hg, cur >>

dr_ld_tgt(self) == /\ pc[self] = "dr_ld_tgt"
                   /\ osz' = [osz EXCEPT ![self] = Rd(self, "size")]
                   /\ nsz' = [nsz EXCEPT ![self] = Rd(self, "resize_target")]
                   /\ acc' = Ev(self, "ld", "resize_target", 0, 0, Rd(self, "resize_target"))
                   /\ errA' = Alive("ld:" \o "resize_target")
                   /\ fbr' = [fbr EXCEPT ![self] = 0]
                   /\ IF osz'[self] < nsz'[self]
                         THEN /\ oi' = [oi EXCEPT ![self] = Order(osz'[self]) + 1]
                              /\ olast' = [olast EXCEPT ![self] = Order(nsz'[self])]
                              /\ pc' = [pc EXCEPT ![self] = "it_loop"]
                         ELSE /\ IF osz'[self] > nsz'[self]
                                    THEN /\ oi' = [oi EXCEPT ![self] = Order(osz'[self])]
                                         /\ olast' = [olast EXCEPT ![self] = Order(Max2(nsz'[self], 1)) + 1]
                                         /\ pc' = [pc EXCEPT ![self] = "ft_loop"]
                                    ELSE /\ pc' = [pc EXCEPT ![self] = "dr_st_ri0"]
                                         /\ UNCHANGED << oi, olast >>
                   /\ UNCHANGED << mem, sb, mutex, alloc, gpok, gpw, gps, cs, 
                                   online, goff, held, wq, htAlive, destroying, 
                                   items, growMax, done, err, rv, ra, rb, rs, 
                                   hjob, ncreate, pnt, pk, pstart, plen, ppl, 
                                   pcov, pn, pg, stack, kind, tv, gsz, lg, lsz, 
                                   lcnt, csz, cg, hsz, ksz, i, op, n, sz, g, 
                                   nchk, res, woff, hn, hg, cur >>

it_loop(self) == /\ pc[self] = "it_loop"
                 /\ IF oi[self] > olast[self]
                       THEN /\ pc' = [pc EXCEPT ![self] = "dr_st_ri0"]
                       ELSE /\ pc' = [pc EXCEPT ![self] = "it_ld_tgt"]
                 /\ UNCHANGED << mem, sb, mutex, acc, alloc, gpok, gpw, gps, 
                                 cs, online, goff, held, wq, htAlive, 
                                 destroying, items, growMax, done, err, errA, 
                                 rv, ra, rb, rs, osz, nsz, oi, olast, fbr, 
                                 hjob, ncreate, pnt, pk, pstart, plen, ppl, 
                                 pcov, pn, pg, stack, kind, tv, gsz, lg, lsz, 
                                 lcnt, csz, cg, hsz, ksz, i, op, n, sz, g, 
                                 nchk, res, woff, hn, hg, cur >>

it_ld_tgt(self) == /\ pc[self] = "it_ld_tgt"
                   /\ ra' = [ra EXCEPT ![self] = Rd(self, "resize_target")]
                   /\ acc' = Ev(self, "ld", "resize_target", 0, 0, Rd(self, "resize_target"))
                   /\ errA' = Alive("ld:" \o "resize_target")
                   /\ IF ra'[self] < Pow2(oi[self])
                         THEN /\ pc' = [pc EXCEPT ![self] = "dr_st_ri0"]
                         ELSE /\ pc' = [pc EXCEPT ![self] = "it_alloc"]
                   /\ UNCHANGED << mem, sb, mutex, alloc, gpok, gpw, gps, cs, 
                                   online, goff, held, wq, htAlive, destroying, 
                                   items, growMax, done, err, rv, rb, rs, osz, 
                                   nsz, oi, olast, fbr, hjob, ncreate, pnt, pk, 
                                   pstart, plen, ppl, pcov, pn, pg, stack, 
                                   kind, tv, gsz, lg, lsz, lcnt, csz, cg, hsz, 
                                   ksz, i, op, n, sz, g, nchk, res, woff, hn, 
                                   hg, cur >>

it_alloc(self) == /\ pc[self] = "it_alloc"
                  /\ IF "pub_first" \in Mut
                        THEN /\ pc' = [pc EXCEPT ![self] = "it_st_size"]
                             /\ UNCHANGED << acc, alloc, err >>
                        ELSE /\ err' = (IF alloc[oi[self]] \in {"none", "freed"} THEN err ELSE err \cup {"alloc_twice"})
                             /\ alloc' = [alloc EXCEPT ![oi[self]] = "allocated"]
                             /\ acc' = Ev(self, "balloc", "order", oi[self], 0, 0)
                             /\ pc' = [pc EXCEPT ![self] = "it_pop"]
                  /\ UNCHANGED << mem, sb, mutex, gpok, gpw, gps, cs, online, 
                                  goff, held, wq, htAlive, destroying, items, 
                                  growMax, done, errA, rv, ra, rb, rs, osz, 
                                  nsz, oi, olast, fbr, hjob, ncreate, pnt, pk, 
                                  pstart, plen, ppl, pcov, pn, pg, stack, kind, 
                                  tv, gsz, lg, lsz, lcnt, csz, cg, hsz, ksz, i, 
                                  op, n, sz, g, nchk, res, woff, hn, hg, cur >>

it_pop(self) == /\ pc[self] = "it_pop"
                /\ /\ kind' = [kind EXCEPT ![self] = "pop"]
                   /\ stack' = [stack EXCEPT ![self] = << [ procedure |->  "partition",
                                                            pc        |->  "it_st_size",
                                                            kind      |->  kind[self] ] >>
                                                        \o stack[self]]
                /\ pc' = [pc EXCEPT ![self] = "ph_top"]
                /\ UNCHANGED << mem, sb, mutex, acc, alloc, gpok, gpw, gps, cs, 
                                online, goff, held, wq, htAlive, destroying, 
                                items, growMax, done, err, errA, rv, ra, rb, 
                                rs, osz, nsz, oi, olast, fbr, hjob, ncreate, 
                                pnt, pk, pstart, plen, ppl, pcov, pn, pg, tv, 
                                gsz, lg, lsz, lcnt, csz, cg, hsz, ksz, i, op, 
                                n, sz, g, nchk, res, woff, hn, hg, cur >>

it_st_size(self) == /\ pc[self] = "it_st_size"
                    /\ IF TSO
                          THEN /\ sb' = [sb EXCEPT ![self] = Append(sb[self], <<"size", (Pow2(oi[self]))>>)]
                               /\ mem' = mem
                          ELSE /\ mem' = [mem EXCEPT !["size"] = Pow2(oi[self])]
                               /\ sb' = sb
                    /\ acc' = Ev(self, "st", "size", (Pow2(oi[self])), 0, 0)
                    /\ errA' = Alive("st:" \o "size")
                    /\ IF "pub_first" \in Mut
                          THEN /\ pc' = [pc EXCEPT ![self] = "it_alloc2"]
                               /\ alloc' = alloc
                          ELSE /\ alloc' = [alloc EXCEPT ![oi[self]] = "published"]
                               /\ pc' = [pc EXCEPT ![self] = "it_ld_ipd"]
                    /\ UNCHANGED << mutex, gpok, gpw, gps, cs, online, goff, 
                                    held, wq, htAlive, destroying, items, 
                                    growMax, done, err, rv, ra, rb, rs, osz, 
                                    nsz, oi, olast, fbr, hjob, ncreate, pnt, 
                                    pk, pstart, plen, ppl, pcov, pn, pg, stack, 
                                    kind, tv, gsz, lg, lsz, lcnt, csz, cg, hsz, 
                                    ksz, i, op, n, sz, g, nchk, res, woff, hn, 
                                    hg, cur >>

it_ld_ipd(self) == /\ pc[self] = "it_ld_ipd"
                   /\ ra' = [ra EXCEPT ![self] = Rd(self, "in_progress_destroy")]
                   /\ acc' = Ev(self, "ld", "in_progress_destroy", 0, 0, Rd(self, "in_progress_destroy"))
                   /\ errA' = Alive("ld:" \o "in_progress_destroy")
                   /\ oi' = [oi EXCEPT ![self] = oi[self] + 1]
                   /\ IF ra'[self] # 0
                         THEN /\ pc' = [pc EXCEPT ![self] = "dr_st_ri0"]
                         ELSE /\ pc' = [pc EXCEPT ![self] = "it_loop"]
                   /\ UNCHANGED << mem, sb, mutex, alloc, gpok, gpw, gps, cs, 
                                   online, goff, held, wq, htAlive, destroying, 
                                   items, growMax, done, err, rv, rb, rs, osz, 
                                   nsz, olast, fbr, hjob, ncreate, pnt, pk, 
                                   pstart, plen, ppl, pcov, pn, pg, stack, 
                                   kind, tv, gsz, lg, lsz, lcnt, csz, cg, hsz, 
                                   ksz, i, op, n, sz, g, nchk, res, woff, hn, 
                                   hg, cur >>

it_alloc2(self) == /\ pc[self] = "it_alloc2"
                   /\ alloc' = [alloc EXCEPT ![oi[self]] = "published"]
                   /\ acc' = Ev(self, "balloc", "order", oi[self], 0, 0)
                   /\ pc' = [pc EXCEPT ![self] = "it_ld_ipd"]
                   /\ UNCHANGED << mem, sb, mutex, gpok, gpw, gps, cs, online, 
                                   goff, held, wq, htAlive, destroying, items, 
                                   growMax, done, err, errA, rv, ra, rb, rs, 
                                   osz, nsz, oi, olast, fbr, hjob, ncreate, 
                                   pnt, pk, pstart, plen, ppl, pcov, pn, pg, 
                                   stack, kind, tv, gsz, lg, lsz, lcnt, csz, 
                                   cg, hsz, ksz, i, op, n, sz, g, nchk, res, 
                                   woff, hn, hg, cur >>

ft_loop(self) == /\ pc[self] = "ft_loop"
                 /\ IF oi[self] < olast[self]
                       THEN /\ pc' = [pc EXCEPT ![self] = "ft_end"]
                       ELSE /\ pc' = [pc EXCEPT ![self] = "ft_ld_tgt"]
                 /\ UNCHANGED << mem, sb, mutex, acc, alloc, gpok, gpw, gps, 
                                 cs, online, goff, held, wq, htAlive, 
                                 destroying, items, growMax, done, err, errA, 
                                 rv, ra, rb, rs, osz, nsz, oi, olast, fbr, 
                                 hjob, ncreate, pnt, pk, pstart, plen, ppl, 
                                 pcov, pn, pg, stack, kind, tv, gsz, lg, lsz, 
                                 lcnt, csz, cg, hsz, ksz, i, op, n, sz, g, 
                                 nchk, res, woff, hn, hg, cur >>

ft_ld_tgt(self) == /\ pc[self] = "ft_ld_tgt"
                   /\ ra' = [ra EXCEPT ![self] = Rd(self, "resize_target")]
                   /\ acc' = Ev(self, "ld", "resize_target", 0, 0, Rd(self, "resize_target"))
                   /\ errA' = Alive("ld:" \o "resize_target")
                   /\ IF ra'[self] > Pow2(oi[self] - 1)
                         THEN /\ pc' = [pc EXCEPT ![self] = "ft_end"]
                         ELSE /\ pc' = [pc EXCEPT ![self] = "ft_st_size"]
                   /\ UNCHANGED << mem, sb, mutex, alloc, gpok, gpw, gps, cs, 
                                   online, goff, held, wq, htAlive, destroying, 
                                   items, growMax, done, err, rv, rb, rs, osz, 
                                   nsz, oi, olast, fbr, hjob, ncreate, pnt, pk, 
                                   pstart, plen, ppl, pcov, pn, pg, stack, 
                                   kind, tv, gsz, lg, lsz, lcnt, csz, cg, hsz, 
                                   ksz, i, op, n, sz, g, nchk, res, woff, hn, 
                                   hg, cur >>

ft_st_size(self) == /\ pc[self] = "ft_st_size"
                    /\ IF TSO
                          THEN /\ sb' = [sb EXCEPT ![self] = Append(sb[self], <<"size", (Pow2(oi[self] - 1))>>)]
                               /\ mem' = mem
                          ELSE /\ mem' = [mem EXCEPT !["size"] = Pow2(oi[self] - 1)]
                               /\ sb' = sb
                    /\ acc' = Ev(self, "st", "size", (Pow2(oi[self] - 1)), 0, 0)
                    /\ errA' = Alive("st:" \o "size")
                    /\ pc' = [pc EXCEPT ![self] = "ft_gp1_b"]
                    /\ UNCHANGED << mutex, alloc, gpok, gpw, gps, cs, online, 
                                    goff, held, wq, htAlive, destroying, items, 
                                    growMax, done, err, rv, ra, rb, rs, osz, 
                                    nsz, oi, olast, fbr, hjob, ncreate, pnt, 
                                    pk, pstart, plen, ppl, pcov, pn, pg, stack, 
                                    kind, tv, gsz, lg, lsz, lcnt, csz, cg, hsz, 
                                    ksz, i, op, n, sz, g, nchk, res, woff, hn, 
                                    hg, cur >>

ft_gp1_b(self) == /\ pc[self] = "ft_gp1_b"
                  /\ IF "no_gp" \in Mut
                        THEN /\ pc' = [pc EXCEPT ![self] = "ft_free1"]
                             /\ UNCHANGED << acc, gpw, gps, online, goff, err >>
                        ELSE /\ gpw' = [p \in Procs |-> IF p = self THEN {q \in Procs \ {self} : cs[q] \/ online[q]}
                                                       ELSE IF online[self] THEN gpw[p] \ {self} ELSE gpw[p]]
                             /\ goff' = [goff EXCEPT ![self] = online[self]]
                             /\ online' = [online EXCEPT ![self] = FALSE]
                             /\ gps' = [gps EXCEPT ![self] = {o \in Orders : alloc[o] = "unlinked"}]
                             /\ err' = (IF cs[self] THEN err \cup {"gp_in_cs"} ELSE err)
                             /\ acc' = Ev(self, "gp_begin", "-", 0, 0, 0)
                             /\ pc' = [pc EXCEPT ![self] = "ft_gp1_e"]
                  /\ UNCHANGED << mem, sb, mutex, alloc, gpok, cs, held, wq, 
                                  htAlive, destroying, items, growMax, done, 
                                  errA, rv, ra, rb, rs, osz, nsz, oi, olast, 
                                  fbr, hjob, ncreate, pnt, pk, pstart, plen, 
                                  ppl, pcov, pn, pg, stack, kind, tv, gsz, lg, 
                                  lsz, lcnt, csz, cg, hsz, ksz, i, op, n, sz, 
                                  g, nchk, res, woff, hn, hg, cur >>

ft_gp1_e(self) == /\ pc[self] = "ft_gp1_e"
                  /\ Drained(self) /\ gpw[self] = {}
                  /\ gpok' = (gpok \cup gps[self])
                  /\ acc' = Ev(self, "gp_end", "-", 0, 0, 0)
                  /\ online' = [online EXCEPT ![self] = goff[self]]
                  /\ goff' = [goff EXCEPT ![self] = FALSE]
                  /\ pc' = [pc EXCEPT ![self] = "ft_free1"]
                  /\ UNCHANGED << mem, sb, mutex, alloc, gpw, gps, cs, held, 
                                  wq, htAlive, destroying, items, growMax, 
                                  done, err, errA, rv, ra, rb, rs, osz, nsz, 
                                  oi, olast, fbr, hjob, ncreate, pnt, pk, 
                                  pstart, plen, ppl, pcov, pn, pg, stack, kind, 
                                  tv, gsz, lg, lsz, lcnt, csz, cg, hsz, ksz, i, 
                                  op, n, sz, g, nchk, res, woff, hn, hg, cur >>

ft_free1(self) == /\ pc[self] = "ft_free1"
                  /\ IF fbr[self] # 0
                        THEN /\ err' = (err \cup (IF alloc[(fbr[self])] = "unlinked" THEN {} ELSE {"free_not_unlinked"})
                                            \cup (IF (fbr[self]) \in gpok THEN {} ELSE {"free_before_gp"})
                                            \cup (IF \A s \in SizeVals : s <= Pow2((fbr[self]) - 1) THEN {} ELSE {"free_while_published"}))
                             /\ alloc' = [alloc EXCEPT ![(fbr[self])] = "freed"]
                             /\ gpok' = gpok \ {(fbr[self])}
                             /\ acc' = Ev(self, "bfree", "order", (fbr[self]), 0, 0)
                        ELSE /\ TRUE
                             /\ UNCHANGED << acc, alloc, gpok, err >>
                  /\ pc' = [pc EXCEPT ![self] = "ft_remove"]
                  /\ UNCHANGED << mem, sb, mutex, gpw, gps, cs, online, goff, 
                                  held, wq, htAlive, destroying, items, 
                                  growMax, done, errA, rv, ra, rb, rs, osz, 
                                  nsz, oi, olast, fbr, hjob, ncreate, pnt, pk, 
                                  pstart, plen, ppl, pcov, pn, pg, stack, kind, 
                                  tv, gsz, lg, lsz, lcnt, csz, cg, hsz, ksz, i, 
                                  op, n, sz, g, nchk, res, woff, hn, hg, cur >>

ft_remove(self) == /\ pc[self] = "ft_remove"
                   /\ /\ kind' = [kind EXCEPT ![self] = "rem"]
                      /\ stack' = [stack EXCEPT ![self] = << [ procedure |->  "partition",
                                                               pc        |->  "ft_unlnk",
                                                               kind      |->  kind[self] ] >>
                                                           \o stack[self]]
                   /\ pc' = [pc EXCEPT ![self] = "ph_top"]
                   /\ UNCHANGED << mem, sb, mutex, acc, alloc, gpok, gpw, gps, 
                                   cs, online, goff, held, wq, htAlive, 
                                   destroying, items, growMax, done, err, errA, 
                                   rv, ra, rb, rs, osz, nsz, oi, olast, fbr, 
                                   hjob, ncreate, pnt, pk, pstart, plen, ppl, 
                                   pcov, pn, pg, tv, gsz, lg, lsz, lcnt, csz, 
                                   cg, hsz, ksz, i, op, n, sz, g, nchk, res, 
                                   woff, hn, hg, cur >>

ft_unlnk(self) == /\ pc[self] = "ft_unlnk"
                  /\ err' = (IF alloc[oi[self]] = "published" THEN err ELSE err \cup {"unlink_not_published"})
                  /\ alloc' = [alloc EXCEPT ![oi[self]] = "unlinked"]
                  /\ gpok' = gpok \ {oi[self]}
                  /\ fbr' = [fbr EXCEPT ![self] = oi[self]]
                  /\ pc' = [pc EXCEPT ![self] = "ft_ld_ipd"]
                  /\ UNCHANGED << mem, sb, mutex, acc, gpw, gps, cs, online, 
                                  goff, held, wq, htAlive, destroying, items, 
                                  growMax, done, errA, rv, ra, rb, rs, osz, 
                                  nsz, oi, olast, hjob, ncreate, pnt, pk, 
                                  pstart, plen, ppl, pcov, pn, pg, stack, kind, 
                                  tv, gsz, lg, lsz, lcnt, csz, cg, hsz, ksz, i, 
                                  op, n, sz, g, nchk, res, woff, hn, hg, cur >>

ft_ld_ipd(self) == /\ pc[self] = "ft_ld_ipd"
                   /\ ra' = [ra EXCEPT ![self] = Rd(self, "in_progress_destroy")]
                   /\ acc' = Ev(self, "ld", "in_progress_destroy", 0, 0, Rd(self, "in_progress_destroy"))
                   /\ errA' = Alive("ld:" \o "in_progress_destroy")
                   /\ oi' = [oi EXCEPT ![self] = oi[self] - 1]
                   /\ IF ra'[self] # 0
                         THEN /\ pc' = [pc EXCEPT ![self] = "ft_end"]
                         ELSE /\ pc' = [pc EXCEPT ![self] = "ft_loop"]
                   /\ UNCHANGED << mem, sb, mutex, alloc, gpok, gpw, gps, cs, 
                                   online, goff, held, wq, htAlive, destroying, 
                                   items, growMax, done, err, rv, rb, rs, osz, 
                                   nsz, olast, fbr, hjob, ncreate, pnt, pk, 
                                   pstart, plen, ppl, pcov, pn, pg, stack, 
                                   kind, tv, gsz, lg, lsz, lcnt, csz, cg, hsz, 
                                   ksz, i, op, n, sz, g, nchk, res, woff, hn, 
                                   hg, cur >>

ft_end(self) == /\ pc[self] = "ft_end"
                /\ IF fbr[self] = 0
                      THEN /\ pc' = [pc EXCEPT ![self] = "dr_st_ri0"]
                      ELSE /\ pc' = [pc EXCEPT ![self] = "ft_gp2_b"]
                /\ UNCHANGED << mem, sb, mutex, acc, alloc, gpok, gpw, gps, cs, 
                                online, goff, held, wq, htAlive, destroying, 
                                items, growMax, done, err, errA, rv, ra, rb, 
                                rs, osz, nsz, oi, olast, fbr, hjob, ncreate, 
                                pnt, pk, pstart, plen, ppl, pcov, pn, pg, 
                                stack, kind, tv, gsz, lg, lsz, lcnt, csz, cg, 
                                hsz, ksz, i, op, n, sz, g, nchk, res, woff, hn, 
                                hg, cur >>

ft_gp2_b(self) == /\ pc[self] = "ft_gp2_b"
                  /\ IF "no_gp" \in Mut
                        THEN /\ pc' = [pc EXCEPT ![self] = "ft_free2"]
                             /\ UNCHANGED << acc, gpw, gps, online, goff, err >>
                        ELSE /\ gpw' = [p \in Procs |-> IF p = self THEN {q \in Procs \ {self} : cs[q] \/ online[q]}
                                                       ELSE IF online[self] THEN gpw[p] \ {self} ELSE gpw[p]]
                             /\ goff' = [goff EXCEPT ![self] = online[self]]
                             /\ online' = [online EXCEPT ![self] = FALSE]
                             /\ gps' = [gps EXCEPT ![self] = {o \in Orders : alloc[o] = "unlinked"}]
                             /\ err' = (IF cs[self] THEN err \cup {"gp_in_cs"} ELSE err)
                             /\ acc' = Ev(self, "gp_begin", "-", 0, 0, 0)
                             /\ pc' = [pc EXCEPT ![self] = "ft_gp2_e"]
                  /\ UNCHANGED << mem, sb, mutex, alloc, gpok, cs, held, wq, 
                                  htAlive, destroying, items, growMax, done, 
                                  errA, rv, ra, rb, rs, osz, nsz, oi, olast, 
                                  fbr, hjob, ncreate, pnt, pk, pstart, plen, 
                                  ppl, pcov, pn, pg, stack, kind, tv, gsz, lg, 
                                  lsz, lcnt, csz, cg, hsz, ksz, i, op, n, sz, 
                                  g, nchk, res, woff, hn, hg, cur >>

ft_gp2_e(self) == /\ pc[self] = "ft_gp2_e"
                  /\ Drained(self) /\ gpw[self] = {}
                  /\ gpok' = (gpok \cup gps[self])
                  /\ acc' = Ev(self, "gp_end", "-", 0, 0, 0)
                  /\ online' = [online EXCEPT ![self] = goff[self]]
                  /\ goff' = [goff EXCEPT ![self] = FALSE]
                  /\ pc' = [pc EXCEPT ![self] = "ft_free2"]
                  /\ UNCHANGED << mem, sb, mutex, alloc, gpw, gps, cs, held, 
                                  wq, htAlive, destroying, items, growMax, 
                                  done, err, errA, rv, ra, rb, rs, osz, nsz, 
                                  oi, olast, fbr, hjob, ncreate, pnt, pk, 
                                  pstart, plen, ppl, pcov, pn, pg, stack, kind, 
                                  tv, gsz, lg, lsz, lcnt, csz, cg, hsz, ksz, i, 
                                  op, n, sz, g, nchk, res, woff, hn, hg, cur >>

ft_free2(self) == /\ pc[self] = "ft_free2"
                  /\ err' = (err \cup (IF alloc[(fbr[self])] = "unlinked" THEN {} ELSE {"free_not_unlinked"})
                                 \cup (IF (fbr[self]) \in gpok THEN {} ELSE {"free_before_gp"})
                                 \cup (IF \A s \in SizeVals : s <= Pow2((fbr[self]) - 1) THEN {} ELSE {"free_while_published"}))
                  /\ alloc' = [alloc EXCEPT ![(fbr[self])] = "freed"]
                  /\ gpok' = gpok \ {(fbr[self])}
                  /\ acc' = Ev(self, "bfree", "order", (fbr[self]), 0, 0)
                  /\ pc' = [pc EXCEPT ![self] = "dr_st_ri0"]
                  /\ UNCHANGED << mem, sb, mutex, gpw, gps, cs, online, goff, 
                                  held, wq, htAlive, destroying, items, 
                                  growMax, done, errA, rv, ra, rb, rs, osz, 
                                  nsz, oi, olast, fbr, hjob, ncreate, pnt, pk, 
                                  pstart, plen, ppl, pcov, pn, pg, stack, kind, 
                                  tv, gsz, lg, lsz, lcnt, csz, cg, hsz, ksz, i, 
                                  op, n, sz, g, nchk, res, woff, hn, hg, cur >>

dr_st_ri0(self) == /\ pc[self] = "dr_st_ri0"
                   /\ IF TSO
                         THEN /\ sb' = [sb EXCEPT ![self] = Append(sb[self], <<"resize_initiated", 0>>)]
                              /\ mem' = mem
                         ELSE /\ mem' = [mem EXCEPT !["resize_initiated"] = 0]
                              /\ sb' = sb
                   /\ acc' = Ev(self, "st", "resize_initiated", 0, 0, 0)
                   /\ errA' = Alive("st:" \o "resize_initiated")
                   /\ pc' = [pc EXCEPT ![self] = "dr_mb"]
                   /\ UNCHANGED << mutex, alloc, gpok, gpw, gps, cs, online, 
                                   goff, held, wq, htAlive, destroying, items, 
                                   growMax, done, err, rv, ra, rb, rs, osz, 
                                   nsz, oi, olast, fbr, hjob, ncreate, pnt, pk, 
                                   pstart, plen, ppl, pcov, pn, pg, stack, 
                                   kind, tv, gsz, lg, lsz, lcnt, csz, cg, hsz, 
                                   ksz, i, op, n, sz, g, nchk, res, woff, hn, 
                                   hg, cur >>

dr_mb(self) == /\ pc[self] = "dr_mb"
               /\ IF "no_mb" \notin Mut
                     THEN /\ Drained(self)
                          /\ acc' = Ev(self, "mb", "-", 0, 0, 0)
                     ELSE /\ TRUE
                          /\ acc' = acc
               /\ pc' = [pc EXCEPT ![self] = "dr_ld_tgt2"]
               /\ UNCHANGED << mem, sb, mutex, alloc, gpok, gpw, gps, cs, 
                               online, goff, held, wq, htAlive, destroying, 
                               items, growMax, done, err, errA, rv, ra, rb, rs, 
                               osz, nsz, oi, olast, fbr, hjob, ncreate, pnt, 
                               pk, pstart, plen, ppl, pcov, pn, pg, stack, 
                               kind, tv, gsz, lg, lsz, lcnt, csz, cg, hsz, ksz, 
                               i, op, n, sz, g, nchk, res, woff, hn, hg, cur >>

dr_ld_tgt2(self) == /\ pc[self] = "dr_ld_tgt2"
                    /\ ra' = [ra EXCEPT ![self] = Rd(self, "resize_target")]
                    /\ acc' = Ev(self, "ld", "resize_target", 0, 0, Rd(self, "resize_target"))
                    /\ errA' = Alive("ld:" \o "resize_target")
                    /\ IF Rd(self, "size") # ra'[self]
                          THEN /\ pc' = [pc EXCEPT ![self] = "dr_ld_ipd"]
                               /\ stack' = stack
                          ELSE /\ pc' = [pc EXCEPT ![self] = Head(stack[self]).pc]
                               /\ stack' = [stack EXCEPT ![self] = Tail(stack[self])]
                    /\ UNCHANGED << mem, sb, mutex, alloc, gpok, gpw, gps, cs, 
                                    online, goff, held, wq, htAlive, 
                                    destroying, items, growMax, done, err, rv, 
                                    rb, rs, osz, nsz, oi, olast, fbr, hjob, 
                                    ncreate, pnt, pk, pstart, plen, ppl, pcov, 
                                    pn, pg, kind, tv, gsz, lg, lsz, lcnt, csz, 
                                    cg, hsz, ksz, i, op, n, sz, g, nchk, res, 
                                    woff, hn, hg, cur >>

do_resize(self) == dr_ld_ipd(self) \/ dr_st_ri1(self) \/ dr_ld_tgt(self)
                      \/ it_loop(self) \/ it_ld_tgt(self) \/ it_alloc(self)
                      \/ it_pop(self) \/ it_st_size(self)
                      \/ it_ld_ipd(self) \/ it_alloc2(self)
                      \/ ft_loop(self) \/ ft_ld_tgt(self)
                      \/ ft_st_size(self) \/ ft_gp1_b(self)
                      \/ ft_gp1_e(self) \/ ft_free1(self)
                      \/ ft_remove(self) \/ ft_unlnk(self)
                      \/ ft_ld_ipd(self) \/ ft_end(self) \/ ft_gp2_b(self)
                      \/ ft_gp2_e(self) \/ ft_free2(self)
                      \/ dr_st_ri0(self) \/ dr_mb(self) \/ dr_ld_tgt2(self)

tg_ld(self) == /\ pc[self] = "tg_ld"
               /\ ra' = [ra EXCEPT ![self] = Rd(self, "resize_target")]
               /\ acc' = Ev(self, "ld", "resize_target", 0, 0, Rd(self, "resize_target"))
               /\ errA' = Alive("ld:" \o "resize_target")
               /\ IF ra'[self] >= tv[self]
                     THEN /\ pc' = [pc EXCEPT ![self] = "tg_mb"]
                     ELSE /\ pc' = [pc EXCEPT ![self] = "tg_cas"]
               /\ UNCHANGED << mem, sb, mutex, alloc, gpok, gpw, gps, cs, 
                               online, goff, held, wq, htAlive, destroying, 
                               items, growMax, done, err, rv, rb, rs, osz, nsz, 
                               oi, olast, fbr, hjob, ncreate, pnt, pk, pstart, 
                               plen, ppl, pcov, pn, pg, stack, kind, tv, gsz, 
                               lg, lsz, lcnt, csz, cg, hsz, ksz, i, op, n, sz, 
                               g, nchk, res, woff, hn, hg, cur >>

tg_mb(self) == /\ pc[self] = "tg_mb"
               /\ Drained(self)
               /\ acc' = Ev(self, "mb", "-", 0, 0, 0)
               /\ rv' = [rv EXCEPT ![self] = ra[self]]
               /\ growMax' = Max2(growMax, tv[self])
               /\ pc' = [pc EXCEPT ![self] = Head(stack[self]).pc]
               /\ tv' = [tv EXCEPT ![self] = Head(stack[self]).tv]
               /\ stack' = [stack EXCEPT ![self] = Tail(stack[self])]
               /\ UNCHANGED << mem, sb, mutex, alloc, gpok, gpw, gps, cs, 
                               online, goff, held, wq, htAlive, destroying, 
                               items, done, err, errA, ra, rb, rs, osz, nsz, 
                               oi, olast, fbr, hjob, ncreate, pnt, pk, pstart, 
                               plen, ppl, pcov, pn, pg, kind, gsz, lg, lsz, 
                               lcnt, csz, cg, hsz, ksz, i, op, n, sz, g, nchk, 
                               res, woff, hn, hg, cur >>

tg_cas(self) == /\ pc[self] = "tg_cas"
                /\ Drained(self)
                /\ rb' = [rb EXCEPT ![self] = mem["resize_target"]]
                /\ IF mem["resize_target"] = (ra[self])
                      THEN /\ mem' = [mem EXCEPT !["resize_target"] = tv[self]]
                      ELSE /\ TRUE
                           /\ mem' = mem
                /\ acc' = Ev(self, "cas", "resize_target", (ra[self]), tv[self], (rb'[self]))
                /\ errA' = Alive("cas:" \o "resize_target")
                /\ IF rb'[self] = ra[self]
                      THEN /\ rv' = [rv EXCEPT ![self] = ra[self]]
                           /\ growMax' = Max2(growMax, tv[self])
                           /\ pc' = [pc EXCEPT ![self] = Head(stack[self]).pc]
                           /\ tv' = [tv EXCEPT ![self] = Head(stack[self]).tv]
                           /\ stack' = [stack EXCEPT ![self] = Tail(stack[self])]
                           /\ ra' = ra
                      ELSE /\ ra' = [ra EXCEPT ![self] = rb'[self]]
                           /\ IF rb'[self] >= tv[self]
                                 THEN /\ pc' = [pc EXCEPT ![self] = "tg_mb"]
                                 ELSE /\ pc' = [pc EXCEPT ![self] = "tg_cas"]
                           /\ UNCHANGED << growMax, rv, stack, tv >>
                /\ UNCHANGED << sb, mutex, alloc, gpok, gpw, gps, cs, online, 
                                goff, held, wq, htAlive, destroying, items, 
                                done, err, rs, osz, nsz, oi, olast, fbr, hjob, 
                                ncreate, pnt, pk, pstart, plen, ppl, pcov, pn, 
                                pg, kind, gsz, lg, lsz, lcnt, csz, cg, hsz, 
                                ksz, i, op, n, sz, g, nchk, res, woff, hn, hg, 
                                cur >>

target_grow(self) == tg_ld(self) \/ tg_mb(self) \/ tg_cas(self)

ll_ld_ri(self) == /\ pc[self] = "ll_ld_ri"
                  /\ ra' = [ra EXCEPT ![self] = Rd(self, "resize_initiated")]
                  /\ acc' = Ev(self, "ld", "resize_initiated", 0, 0, Rd(self, "resize_initiated"))
                  /\ errA' = Alive("ld:" \o "resize_initiated")
                  /\ IF ra'[self] # 0
                        THEN /\ pc' = [pc EXCEPT ![self] = Head(stack[self]).pc]
                             /\ stack' = [stack EXCEPT ![self] = Tail(stack[self])]
                        ELSE /\ pc' = [pc EXCEPT ![self] = "ll_ld_ipd"]
                             /\ stack' = stack
                  /\ UNCHANGED << mem, sb, mutex, alloc, gpok, gpw, gps, cs, 
                                  online, goff, held, wq, htAlive, destroying, 
                                  items, growMax, done, err, rv, rb, rs, osz, 
                                  nsz, oi, olast, fbr, hjob, ncreate, pnt, pk, 
                                  pstart, plen, ppl, pcov, pn, pg, kind, tv, 
                                  gsz, lg, lsz, lcnt, csz, cg, hsz, ksz, i, op, 
                                  n, sz, g, nchk, res, woff, hn, hg, cur >>

ll_ld_ipd(self) == /\ pc[self] = "ll_ld_ipd"
                   /\ IF "no_ipd" \in Mut
                         THEN /\ TRUE
                              /\ pc' = [pc EXCEPT ![self] = "ll_walloc"]
                              /\ UNCHANGED << acc, errA, ra, stack >>
                         ELSE /\ ra' = [ra EXCEPT ![self] = Rd(self, "in_progress_destroy")]
                              /\ acc' = Ev(self, "ld", "in_progress_destroy", 0, 0, Rd(self, "in_progress_destroy"))
                              /\ errA' = Alive("ld:" \o "in_progress_destroy")
                              /\ IF ra'[self] # 0
                                    THEN /\ pc' = [pc EXCEPT ![self] = Head(stack[self]).pc]
                                         /\ stack' = [stack EXCEPT ![self] = Tail(stack[self])]
                                    ELSE /\ pc' = [pc EXCEPT ![self] = "ll_walloc"]
                                         /\ stack' = stack
                   /\ UNCHANGED << mem, sb, mutex, alloc, gpok, gpw, gps, cs, 
                                   online, goff, held, wq, htAlive, destroying, 
                                   items, growMax, done, err, rv, rb, rs, osz, 
                                   nsz, oi, olast, fbr, hjob, ncreate, pnt, pk, 
                                   pstart, plen, ppl, pcov, pn, pg, kind, tv, 
                                   gsz, lg, lsz, lcnt, csz, cg, hsz, ksz, i, 
                                   op, n, sz, g, nchk, res, woff, hn, hg, cur >>

ll_walloc(self) == /\ pc[self] = "ll_walloc"
                   /\ acc' = Ev(self, "walloc", "rw", 0, 0, 0)
                   /\ errA' = Alive("walloc")
                   /\ pc' = [pc EXCEPT ![self] = "ll_queue"]
                   /\ UNCHANGED << mem, sb, mutex, alloc, gpok, gpw, gps, cs, 
                                   online, goff, held, wq, htAlive, destroying, 
                                   items, growMax, done, err, rv, ra, rb, rs, 
                                   osz, nsz, oi, olast, fbr, hjob, ncreate, 
                                   pnt, pk, pstart, plen, ppl, pcov, pn, pg, 
                                   stack, kind, tv, gsz, lg, lsz, lcnt, csz, 
                                   cg, hsz, ksz, i, op, n, sz, g, nchk, res, 
                                   woff, hn, hg, cur >>

ll_queue(self) == /\ pc[self] = "ll_queue"
                  /\ Drained(self)
                  /\ wq' = Append(wq, "rw")
                  /\ acc' = Ev(self, "enq", "rw", 0, 0, 0)
                  /\ pc' = [pc EXCEPT ![self] = "ll_st_ri"]
                  /\ UNCHANGED << mem, sb, mutex, alloc, gpok, gpw, gps, cs, 
                                  online, goff, held, htAlive, destroying, 
                                  items, growMax, done, err, errA, rv, ra, rb, 
                                  rs, osz, nsz, oi, olast, fbr, hjob, ncreate, 
                                  pnt, pk, pstart, plen, ppl, pcov, pn, pg, 
                                  stack, kind, tv, gsz, lg, lsz, lcnt, csz, cg, 
                                  hsz, ksz, i, op, n, sz, g, nchk, res, woff, 
                                  hn, hg, cur >>

ll_st_ri(self) == /\ pc[self] = "ll_st_ri"
                  /\ IF TSO
                        THEN /\ sb' = [sb EXCEPT ![self] = Append(sb[self], <<"resize_initiated", 1>>)]
                             /\ mem' = mem
                        ELSE /\ mem' = [mem EXCEPT !["resize_initiated"] = 1]
                             /\ sb' = sb
                  /\ acc' = Ev(self, "st", "resize_initiated", 1, 0, 0)
                  /\ errA' = Alive("st:" \o "resize_initiated")
                  /\ pc' = [pc EXCEPT ![self] = Head(stack[self]).pc]
                  /\ stack' = [stack EXCEPT ![self] = Tail(stack[self])]
                  /\ UNCHANGED << mutex, alloc, gpok, gpw, gps, cs, online, 
                                  goff, held, wq, htAlive, destroying, items, 
                                  growMax, done, err, rv, ra, rb, rs, osz, nsz, 
                                  oi, olast, fbr, hjob, ncreate, pnt, pk, 
                                  pstart, plen, ppl, pcov, pn, pg, kind, tv, 
                                  gsz, lg, lsz, lcnt, csz, cg, hsz, ksz, i, op, 
                                  n, sz, g, nchk, res, woff, hn, hg, cur >>

lazy_launch(self) == ll_ld_ri(self) \/ ll_ld_ipd(self) \/ ll_walloc(self)
                        \/ ll_queue(self) \/ ll_st_ri(self)

lg_tg(self) == /\ pc[self] = "lg_tg"
               /\ /\ stack' = [stack EXCEPT ![self] = << [ procedure |->  "target_grow",
                                                           pc        |->  "lg_chk",
                                                           tv        |->  tv[self] ] >>
                                                       \o stack[self]]
                  /\ tv' = [tv EXCEPT ![self] = Min2(gsz[self] * Pow2(lg[self]), MaxB)]
               /\ pc' = [pc EXCEPT ![self] = "tg_ld"]
               /\ UNCHANGED << mem, sb, mutex, acc, alloc, gpok, gpw, gps, cs, 
                               online, goff, held, wq, htAlive, destroying, 
                               items, growMax, done, err, errA, rv, ra, rb, rs, 
                               osz, nsz, oi, olast, fbr, hjob, ncreate, pnt, 
                               pk, pstart, plen, ppl, pcov, pn, pg, kind, gsz, 
                               lg, lsz, lcnt, csz, cg, hsz, ksz, i, op, n, sz, 
                               g, nchk, res, woff, hn, hg, cur >>

lg_chk(self) == /\ pc[self] = "lg_chk"
                /\ IF rv[self] >= Min2(gsz[self] * Pow2(lg[self]), MaxB)
                      THEN /\ pc' = [pc EXCEPT ![self] = Head(stack[self]).pc]
                           /\ gsz' = [gsz EXCEPT ![self] = Head(stack[self]).gsz]
                           /\ lg' = [lg EXCEPT ![self] = Head(stack[self]).lg]
                           /\ stack' = [stack EXCEPT ![self] = Tail(stack[self])]
                      ELSE /\ stack' = [stack EXCEPT ![self] = << [ procedure |->  "lazy_launch",
                                                                    pc        |->  Head(stack[self]).pc ] >>
                                                                \o Tail(stack[self])]
                           /\ pc' = [pc EXCEPT ![self] = "ll_ld_ri"]
                           /\ UNCHANGED << gsz, lg >>
                /\ UNCHANGED << mem, sb, mutex, acc, alloc, gpok, gpw, gps, cs, 
                                online, goff, held, wq, htAlive, destroying, 
                                items, growMax, done, err, errA, rv, ra, rb, 
                                rs, osz, nsz, oi, olast, fbr, hjob, ncreate, 
                                pnt, pk, pstart, plen, ppl, pcov, pn, pg, kind, 
                                tv, lsz, lcnt, csz, cg, hsz, ksz, i, op, n, sz, 
                                g, nchk, res, woff, hn, hg, cur >>

lazy_grow(self) == lg_tg(self) \/ lg_chk(self)

lc_top(self) == /\ pc[self] = "lc_top"
                /\ rs' = [rs EXCEPT ![self] = lsz[self]]
                /\ IF ~AutoResize
                      THEN /\ pc' = [pc EXCEPT ![self] = Head(stack[self]).pc]
                           /\ lsz' = [lsz EXCEPT ![self] = Head(stack[self]).lsz]
                           /\ lcnt' = [lcnt EXCEPT ![self] = Head(stack[self]).lcnt]
                           /\ stack' = [stack EXCEPT ![self] = Tail(stack[self])]
                      ELSE /\ IF ClampC(lcnt[self]) = lsz[self]
                                 THEN /\ pc' = [pc EXCEPT ![self] = Head(stack[self]).pc]
                                      /\ lsz' = [lsz EXCEPT ![self] = Head(stack[self]).lsz]
                                      /\ lcnt' = [lcnt EXCEPT ![self] = Head(stack[self]).lcnt]
                                      /\ stack' = [stack EXCEPT ![self] = Tail(stack[self])]
                                 ELSE /\ IF ClampC(lcnt[self]) < lsz[self]
                                            THEN /\ pc' = [pc EXCEPT ![self] = "lc_cas"]
                                            ELSE /\ pc' = [pc EXCEPT ![self] = "lc_grow"]
                                      /\ UNCHANGED << stack, lsz, lcnt >>
                /\ UNCHANGED << mem, sb, mutex, acc, alloc, gpok, gpw, gps, cs, 
                                online, goff, held, wq, htAlive, destroying, 
                                items, growMax, done, err, errA, rv, ra, rb, 
                                osz, nsz, oi, olast, fbr, hjob, ncreate, pnt, 
                                pk, pstart, plen, ppl, pcov, pn, pg, kind, tv, 
                                gsz, lg, csz, cg, hsz, ksz, i, op, n, sz, g, 
                                nchk, res, woff, hn, hg, cur >>

lc_grow(self) == /\ pc[self] = "lc_grow"
                 /\ /\ stack' = [stack EXCEPT ![self] = << [ procedure |->  "target_grow",
                                                             pc        |->  "lc_gchk",
                                                             tv        |->  tv[self] ] >>
                                                         \o stack[self]]
                    /\ tv' = [tv EXCEPT ![self] = ClampC(lcnt[self])]
                 /\ pc' = [pc EXCEPT ![self] = "tg_ld"]
                 /\ UNCHANGED << mem, sb, mutex, acc, alloc, gpok, gpw, gps, 
                                 cs, online, goff, held, wq, htAlive, 
                                 destroying, items, growMax, done, err, errA, 
                                 rv, ra, rb, rs, osz, nsz, oi, olast, fbr, 
                                 hjob, ncreate, pnt, pk, pstart, plen, ppl, 
                                 pcov, pn, pg, kind, gsz, lg, lsz, lcnt, csz, 
                                 cg, hsz, ksz, i, op, n, sz, g, nchk, res, 
                                 woff, hn, hg, cur >>

lc_gchk(self) == /\ pc[self] = "lc_gchk"
                 /\ IF rv[self] >= ClampC(lcnt[self])
                       THEN /\ pc' = [pc EXCEPT ![self] = Head(stack[self]).pc]
                            /\ lsz' = [lsz EXCEPT ![self] = Head(stack[self]).lsz]
                            /\ lcnt' = [lcnt EXCEPT ![self] = Head(stack[self]).lcnt]
                            /\ stack' = [stack EXCEPT ![self] = Tail(stack[self])]
                       ELSE /\ pc' = [pc EXCEPT ![self] = "lc_launch"]
                            /\ UNCHANGED << stack, lsz, lcnt >>
                 /\ UNCHANGED << mem, sb, mutex, acc, alloc, gpok, gpw, gps, 
                                 cs, online, goff, held, wq, htAlive, 
                                 destroying, items, growMax, done, err, errA, 
                                 rv, ra, rb, rs, osz, nsz, oi, olast, fbr, 
                                 hjob, ncreate, pnt, pk, pstart, plen, ppl, 
                                 pcov, pn, pg, kind, tv, gsz, lg, csz, cg, hsz, 
                                 ksz, i, op, n, sz, g, nchk, res, woff, hn, hg, 
                                 cur >>

lc_cas(self) == /\ pc[self] = "lc_cas"
                /\ Drained(self)
                /\ rb' = [rb EXCEPT ![self] = mem["resize_target"]]
                /\ IF mem["resize_target"] = (rs[self])
                      THEN /\ mem' = [mem EXCEPT !["resize_target"] = ClampC(lcnt[self])]
                      ELSE /\ TRUE
                           /\ mem' = mem
                /\ acc' = Ev(self, "cas", "resize_target", (rs[self]), (ClampC(lcnt[self])), (rb'[self]))
                /\ errA' = Alive("cas:" \o "resize_target")
                /\ IF rb'[self] = rs[self]
                      THEN /\ pc' = [pc EXCEPT ![self] = "lc_launch"]
                           /\ UNCHANGED << rs, stack, lsz, lcnt >>
                      ELSE /\ IF rb'[self] > rs[self]
                                 THEN /\ pc' = [pc EXCEPT ![self] = Head(stack[self]).pc]
                                      /\ lsz' = [lsz EXCEPT ![self] = Head(stack[self]).lsz]
                                      /\ lcnt' = [lcnt EXCEPT ![self] = Head(stack[self]).lcnt]
                                      /\ stack' = [stack EXCEPT ![self] = Tail(stack[self])]
                                      /\ rs' = rs
                                 ELSE /\ IF rb'[self] <= ClampC(lcnt[self])
                                            THEN /\ pc' = [pc EXCEPT ![self] = Head(stack[self]).pc]
                                                 /\ lsz' = [lsz EXCEPT ![self] = Head(stack[self]).lsz]
                                                 /\ lcnt' = [lcnt EXCEPT ![self] = Head(stack[self]).lcnt]
                                                 /\ stack' = [stack EXCEPT ![self] = Tail(stack[self])]
                                                 /\ rs' = rs
                                            ELSE /\ rs' = [rs EXCEPT ![self] = rb'[self]]
                                                 /\ pc' = [pc EXCEPT ![self] = "lc_cas"]
                                                 /\ UNCHANGED << stack, lsz, 
                                                                 lcnt >>
                /\ UNCHANGED << sb, mutex, alloc, gpok, gpw, gps, cs, online, 
                                goff, held, wq, htAlive, destroying, items, 
                                growMax, done, err, rv, ra, osz, nsz, oi, 
                                olast, fbr, hjob, ncreate, pnt, pk, pstart, 
                                plen, ppl, pcov, pn, pg, kind, tv, gsz, lg, 
                                csz, cg, hsz, ksz, i, op, n, sz, g, nchk, res, 
                                woff, hn, hg, cur >>

lc_launch(self) == /\ pc[self] = "lc_launch"
                   /\ stack' = [stack EXCEPT ![self] = << [ procedure |->  "lazy_launch",
                                                            pc        |->  Head(stack[self]).pc ] >>
                                                        \o Tail(stack[self])]
                   /\ pc' = [pc EXCEPT ![self] = "ll_ld_ri"]
                   /\ UNCHANGED << mem, sb, mutex, acc, alloc, gpok, gpw, gps, 
                                   cs, online, goff, held, wq, htAlive, 
                                   destroying, items, growMax, done, err, errA, 
                                   rv, ra, rb, rs, osz, nsz, oi, olast, fbr, 
                                   hjob, ncreate, pnt, pk, pstart, plen, ppl, 
                                   pcov, pn, pg, kind, tv, gsz, lg, lsz, lcnt, 
                                   csz, cg, hsz, ksz, i, op, n, sz, g, nchk, 
                                   res, woff, hn, hg, cur >>

lazy_count(self) == lc_top(self) \/ lc_grow(self) \/ lc_gchk(self)
                       \/ lc_cas(self) \/ lc_launch(self)

cr_ld_count(self) == /\ pc[self] = "cr_ld_count"
                     /\ ra' = [ra EXCEPT ![self] = Rd(self, "count")]
                     /\ acc' = Ev(self, "ld", "count", 0, 0, Rd(self, "count"))
                     /\ errA' = Alive("ld:" \o "count")
                     /\ IF ra'[self] < 0 \/ ra'[self] >= SmallLimit \/ cg[self] = 0
                           THEN /\ pc' = [pc EXCEPT ![self] = Head(stack[self]).pc]
                                /\ csz' = [csz EXCEPT ![self] = Head(stack[self]).csz]
                                /\ cg' = [cg EXCEPT ![self] = Head(stack[self]).cg]
                                /\ stack' = [stack EXCEPT ![self] = Tail(stack[self])]
                                /\ UNCHANGED << gsz, lg >>
                           ELSE /\ IF Accounting /\ csz[self] * Pow2(cg[self]) >= SmallLimit
                                      THEN /\ IF CCO + SCOrder - Order(csz[self]) <= 0
                                                 THEN /\ pc' = [pc EXCEPT ![self] = Head(stack[self]).pc]
                                                      /\ csz' = [csz EXCEPT ![self] = Head(stack[self]).csz]
                                                      /\ cg' = [cg EXCEPT ![self] = Head(stack[self]).cg]
                                                      /\ stack' = [stack EXCEPT ![self] = Tail(stack[self])]
                                                      /\ UNCHANGED << gsz, lg >>
                                                 ELSE /\ /\ gsz' = [gsz EXCEPT ![self] = csz[self]]
                                                         /\ lg' = [lg EXCEPT ![self] = CCO + SCOrder - Order(csz[self])]
                                                         /\ stack' = [stack EXCEPT ![self] = << [ procedure |->  "lazy_grow",
                                                                                                  pc        |->  Head(stack[self]).pc,
                                                                                                  gsz       |->  gsz[self],
                                                                                                  lg        |->  lg[self] ] >>
                                                                                              \o Tail(stack[self])]
                                                      /\ pc' = [pc EXCEPT ![self] = "lg_tg"]
                                                      /\ UNCHANGED << csz, cg >>
                                      ELSE /\ /\ gsz' = [gsz EXCEPT ![self] = csz[self]]
                                              /\ lg' = [lg EXCEPT ![self] = cg[self]]
                                              /\ stack' = [stack EXCEPT ![self] = << [ procedure |->  "lazy_grow",
                                                                                       pc        |->  Head(stack[self]).pc,
                                                                                       gsz       |->  gsz[self],
                                                                                       lg        |->  lg[self] ] >>
                                                                                   \o Tail(stack[self])]
                                           /\ pc' = [pc EXCEPT ![self] = "lg_tg"]
                                           /\ UNCHANGED << csz, cg >>
                     /\ UNCHANGED << mem, sb, mutex, alloc, gpok, gpw, gps, cs, 
                                     online, goff, held, wq, htAlive, 
                                     destroying, items, growMax, done, err, rv, 
                                     rb, rs, osz, nsz, oi, olast, fbr, hjob, 
                                     ncreate, pnt, pk, pstart, plen, ppl, pcov, 
                                     pn, pg, kind, tv, lsz, lcnt, hsz, ksz, i, 
                                     op, n, sz, g, nchk, res, woff, hn, hg, 
                                     cur >>

check_resize(self) == cr_ld_count(self)

ca_add(self) == /\ pc[self] = "ca_add"
                /\ IF ~Accounting
                      THEN /\ pc' = [pc EXCEPT ![self] = Head(stack[self]).pc]
                           /\ hsz' = [hsz EXCEPT ![self] = Head(stack[self]).hsz]
                           /\ stack' = [stack EXCEPT ![self] = Tail(stack[self])]
                           /\ UNCHANGED << mem, acc, errA, ra >>
                      ELSE /\ Drained(self)
                           /\ ra' = [ra EXCEPT ![self] = mem[(ScLoc(Cpu[self] % (SCMask + 1), "add"))] + 1]
                           /\ mem' = [mem EXCEPT ![(ScLoc(Cpu[self] % (SCMask + 1), "add"))] = mem[(ScLoc(Cpu[self] % (SCMask + 1), "add"))] + 1]
                           /\ acc' = Ev(self, "addret", (ScLoc(Cpu[self] % (SCMask + 1), "add")), 1, 0, (ra'[self]))
                           /\ errA' = Alive("addret:" \o (ScLoc(Cpu[self] % (SCMask + 1), "add")))
                           /\ IF ra'[self] % Pow2(CCO) # 0
                                 THEN /\ pc' = [pc EXCEPT ![self] = Head(stack[self]).pc]
                                      /\ hsz' = [hsz EXCEPT ![self] = Head(stack[self]).hsz]
                                      /\ stack' = [stack EXCEPT ![self] = Tail(stack[self])]
                                 ELSE /\ pc' = [pc EXCEPT ![self] = "ca_cnt"]
                                      /\ UNCHANGED << stack, hsz >>
                /\ UNCHANGED << sb, mutex, alloc, gpok, gpw, gps, cs, online, 
                                goff, held, wq, htAlive, destroying, items, 
                                growMax, done, err, rv, rb, rs, osz, nsz, oi, 
                                olast, fbr, hjob, ncreate, pnt, pk, pstart, 
                                plen, ppl, pcov, pn, pg, kind, tv, gsz, lg, 
                                lsz, lcnt, csz, cg, ksz, i, op, n, sz, g, nchk, 
                                res, woff, hn, hg, cur >>

ca_cnt(self) == /\ pc[self] = "ca_cnt"
                /\ Drained(self)
                /\ ra' = [ra EXCEPT ![self] = mem["count"] + (Pow2(CCO))]
                /\ mem' = [mem EXCEPT !["count"] = mem["count"] + (Pow2(CCO))]
                /\ acc' = Ev(self, "addret", "count", (Pow2(CCO)), 0, (ra'[self]))
                /\ errA' = Alive("addret:" \o "count")
                /\ IF ~PassPow2(ra'[self])
                      THEN /\ pc' = [pc EXCEPT ![self] = Head(stack[self]).pc]
                           /\ hsz' = [hsz EXCEPT ![self] = Head(stack[self]).hsz]
                           /\ stack' = [stack EXCEPT ![self] = Tail(stack[self])]
                           /\ UNCHANGED << lsz, lcnt >>
                      ELSE /\ IF ra'[self] \div 8 < hsz[self]
                                 THEN /\ pc' = [pc EXCEPT ![self] = Head(stack[self]).pc]
                                      /\ hsz' = [hsz EXCEPT ![self] = Head(stack[self]).hsz]
                                      /\ stack' = [stack EXCEPT ![self] = Tail(stack[self])]
                                      /\ UNCHANGED << lsz, lcnt >>
                                 ELSE /\ /\ lcnt' = [lcnt EXCEPT ![self] = ra'[self]]
                                         /\ lsz' = [lsz EXCEPT ![self] = hsz[self]]
                                         /\ stack' = [stack EXCEPT ![self] = << [ procedure |->  "lazy_count",
                                                                                  pc        |->  Head(stack[self]).pc,
                                                                                  lsz       |->  lsz[self],
                                                                                  lcnt      |->  lcnt[self] ] >>
                                                                              \o Tail(stack[self])]
                                      /\ pc' = [pc EXCEPT ![self] = "lc_top"]
                                      /\ hsz' = hsz
                /\ UNCHANGED << sb, mutex, alloc, gpok, gpw, gps, cs, online, 
                                goff, held, wq, htAlive, destroying, items, 
                                growMax, done, err, rv, rb, rs, osz, nsz, oi, 
                                olast, fbr, hjob, ncreate, pnt, pk, pstart, 
                                plen, ppl, pcov, pn, pg, kind, tv, gsz, lg, 
                                csz, cg, ksz, i, op, n, sz, g, nchk, res, woff, 
                                hn, hg, cur >>

ht_count_add(self) == ca_add(self) \/ ca_cnt(self)

cd_del(self) == /\ pc[self] = "cd_del"
                /\ IF ~Accounting
                      THEN /\ pc' = [pc EXCEPT ![self] = Head(stack[self]).pc]
                           /\ ksz' = [ksz EXCEPT ![self] = Head(stack[self]).ksz]
                           /\ stack' = [stack EXCEPT ![self] = Tail(stack[self])]
                           /\ UNCHANGED << mem, acc, errA, ra >>
                      ELSE /\ Drained(self)
                           /\ ra' = [ra EXCEPT ![self] = mem[(ScLoc(Cpu[self] % (SCMask + 1), "del"))] + 1]
                           /\ mem' = [mem EXCEPT ![(ScLoc(Cpu[self] % (SCMask + 1), "del"))] = mem[(ScLoc(Cpu[self] % (SCMask + 1), "del"))] + 1]
                           /\ acc' = Ev(self, "addret", (ScLoc(Cpu[self] % (SCMask + 1), "del")), 1, 0, (ra'[self]))
                           /\ errA' = Alive("addret:" \o (ScLoc(Cpu[self] % (SCMask + 1), "del")))
                           /\ IF ra'[self] % Pow2(CCO) # 0
                                 THEN /\ pc' = [pc EXCEPT ![self] = Head(stack[self]).pc]
                                      /\ ksz' = [ksz EXCEPT ![self] = Head(stack[self]).ksz]
                                      /\ stack' = [stack EXCEPT ![self] = Tail(stack[self])]
                                 ELSE /\ pc' = [pc EXCEPT ![self] = "cd_cnt"]
                                      /\ UNCHANGED << stack, ksz >>
                /\ UNCHANGED << sb, mutex, alloc, gpok, gpw, gps, cs, online, 
                                goff, held, wq, htAlive, destroying, items, 
                                growMax, done, err, rv, rb, rs, osz, nsz, oi, 
                                olast, fbr, hjob, ncreate, pnt, pk, pstart, 
                                plen, ppl, pcov, pn, pg, kind, tv, gsz, lg, 
                                lsz, lcnt, csz, cg, hsz, i, op, n, sz, g, nchk, 
                                res, woff, hn, hg, cur >>

cd_cnt(self) == /\ pc[self] = "cd_cnt"
                /\ Drained(self)
                /\ ra' = [ra EXCEPT ![self] = mem["count"] + (0 - Pow2(CCO))]
                /\ mem' = [mem EXCEPT !["count"] = mem["count"] + (0 - Pow2(CCO))]
                /\ acc' = Ev(self, "addret", "count", (0 - Pow2(CCO)), 0, (ra'[self]))
                /\ errA' = Alive("addret:" \o "count")
                /\ IF ~PassPow2(ra'[self])
                      THEN /\ pc' = [pc EXCEPT ![self] = Head(stack[self]).pc]
                           /\ ksz' = [ksz EXCEPT ![self] = Head(stack[self]).ksz]
                           /\ stack' = [stack EXCEPT ![self] = Tail(stack[self])]
                           /\ UNCHANGED << lsz, lcnt >>
                      ELSE /\ IF ra'[self] \div 8 >= ksz[self]
                                 THEN /\ pc' = [pc EXCEPT ![self] = Head(stack[self]).pc]
                                      /\ ksz' = [ksz EXCEPT ![self] = Head(stack[self]).ksz]
                                      /\ stack' = [stack EXCEPT ![self] = Tail(stack[self])]
                                      /\ UNCHANGED << lsz, lcnt >>
                                 ELSE /\ IF ra'[self] < Pow2(CCO) * (SCMask + 1)
                                            THEN /\ pc' = [pc EXCEPT ![self] = Head(stack[self]).pc]
                                                 /\ ksz' = [ksz EXCEPT ![self] = Head(stack[self]).ksz]
                                                 /\ stack' = [stack EXCEPT ![self] = Tail(stack[self])]
                                                 /\ UNCHANGED << lsz, lcnt >>
                                            ELSE /\ /\ lcnt' = [lcnt EXCEPT ![self] = ra'[self]]
                                                    /\ lsz' = [lsz EXCEPT ![self] = ksz[self]]
                                                    /\ stack' = [stack EXCEPT ![self] = << [ procedure |->  "lazy_count",
                                                                                             pc        |->  Head(stack[self]).pc,
                                                                                             lsz       |->  lsz[self],
                                                                                             lcnt      |->  lcnt[self] ] >>
                                                                                         \o Tail(stack[self])]
                                                 /\ pc' = [pc EXCEPT ![self] = "lc_top"]
                                                 /\ ksz' = ksz
                /\ UNCHANGED << sb, mutex, alloc, gpok, gpw, gps, cs, online, 
                                goff, held, wq, htAlive, destroying, items, 
                                growMax, done, err, rv, rb, rs, osz, nsz, oi, 
                                olast, fbr, hjob, ncreate, pnt, pk, pstart, 
                                plen, ppl, pcov, pn, pg, kind, tv, gsz, lg, 
                                csz, cg, hsz, i, op, n, sz, g, nchk, res, woff, 
                                hn, hg, cur >>

ht_count_del(self) == cd_del(self) \/ cd_cnt(self)

db_chk(self) == /\ pc[self] = "db_chk"
                /\ errA' = Alive("delete_bucket")
                /\ IF items # 0
                      THEN /\ rv' = [rv EXCEPT ![self] = 0 - 1]
                           /\ pc' = [pc EXCEPT ![self] = Head(stack[self]).pc]
                           /\ stack' = [stack EXCEPT ![self] = Tail(stack[self])]
                           /\ UNCHANGED << destroying, oi >>
                      ELSE /\ destroying' = TRUE
                           /\ oi' = [oi EXCEPT ![self] = Order(Rd(self, "size"))]
                           /\ pc' = [pc EXCEPT ![self] = "db_free"]
                           /\ UNCHANGED << rv, stack >>
                /\ UNCHANGED << mem, sb, mutex, acc, alloc, gpok, gpw, gps, cs, 
                                online, goff, held, wq, htAlive, items, 
                                growMax, done, err, ra, rb, rs, osz, nsz, 
                                olast, fbr, hjob, ncreate, pnt, pk, pstart, 
                                plen, ppl, pcov, pn, pg, kind, tv, gsz, lg, 
                                lsz, lcnt, csz, cg, hsz, ksz, i, op, n, sz, g, 
                                nchk, res, woff, hn, hg, cur >>

db_free(self) == /\ pc[self] = "db_free"
                 /\ IF oi[self] >= 0
                       THEN /\ err' = (IF alloc[oi[self]] = "published" THEN err ELSE err \cup {"destroy_free_unpublished"})
                            /\ alloc' = [alloc EXCEPT ![oi[self]] = "freed"]
                            /\ acc' = Ev(self, "bfree", "order", oi[self], 0, 0)
                            /\ oi' = [oi EXCEPT ![self] = oi[self] - 1]
                            /\ pc' = [pc EXCEPT ![self] = "db_free"]
                            /\ UNCHANGED << rv, stack >>
                       ELSE /\ rv' = [rv EXCEPT ![self] = 0]
                            /\ pc' = [pc EXCEPT ![self] = Head(stack[self]).pc]
                            /\ stack' = [stack EXCEPT ![self] = Tail(stack[self])]
                            /\ UNCHANGED << acc, alloc, err, oi >>
                 /\ UNCHANGED << mem, sb, mutex, gpok, gpw, gps, cs, online, 
                                 goff, held, wq, htAlive, destroying, items, 
                                 growMax, done, errA, ra, rb, rs, osz, nsz, 
                                 olast, fbr, hjob, ncreate, pnt, pk, pstart, 
                                 plen, ppl, pcov, pn, pg, kind, tv, gsz, lg, 
                                 lsz, lcnt, csz, cg, hsz, ksz, i, op, n, sz, g, 
                                 nchk, res, woff, hn, hg, cur >>

delete_bucket(self) == db_chk(self) \/ db_free(self)

fl(self) == /\ pc[self] = "fl"
            /\ sb[FlOf[self]] # <<>>
            /\ /\ acc' = IF Tracing THEN [k |-> acc.k + 1, t |-> FlOf[self], op |-> "flush", var |-> Head(sb[FlOf[self]])[1],
                                        a |-> Head(sb[FlOf[self]])[2], b |-> 0, r |-> 0] ELSE acc
               /\ mem' = [mem EXCEPT ![Head(sb[FlOf[self]])[1]] = Head(sb[FlOf[self]])[2]]
               /\ sb' = [sb EXCEPT ![FlOf[self]] = Tail(sb[FlOf[self]])]
            /\ pc' = [pc EXCEPT ![self] = "fl"]
            /\ UNCHANGED << mutex, alloc, gpok, gpw, gps, cs, online, goff, 
                            held, wq, htAlive, destroying, items, growMax, 
                            done, err, errA, rv, ra, rb, rs, osz, nsz, oi, 
                            olast, fbr, hjob, ncreate, pnt, pk, pstart, plen, 
                            ppl, pcov, pn, pg, stack, kind, tv, gsz, lg, lsz, 
                            lcnt, csz, cg, hsz, ksz, i, op, n, sz, g, nchk, 
                            res, woff, hn, hg, cur >>

flusher(self) == fl(self)

t_reg(self) == /\ pc[self] = "t_reg"
               /\ online' = [online EXCEPT ![self] = Qsbr]
               /\ pc' = [pc EXCEPT ![self] = "t_top"]
               /\ UNCHANGED << mem, sb, mutex, acc, alloc, gpok, gpw, gps, cs, 
                               goff, held, wq, htAlive, destroying, items, 
                               growMax, done, err, errA, rv, ra, rb, rs, osz, 
                               nsz, oi, olast, fbr, hjob, ncreate, pnt, pk, 
                               pstart, plen, ppl, pcov, pn, pg, stack, kind, 
                               tv, gsz, lg, lsz, lcnt, csz, cg, hsz, ksz, i, 
                               op, n, sz, g, nchk, res, woff, hn, hg, cur >>

t_top(self) == /\ pc[self] = "t_top"
               /\ IF i[self] <= Len(Prog[self])
                     THEN /\ op' = [op EXCEPT ![self] = Prog[self][i[self]]]
                          /\ nchk' = [nchk EXCEPT ![self] = 0]
                          /\ res' = [res EXCEPT ![self] = 0]
                          /\ IF Prog[self][i[self]].op = "resize"
                                THEN /\ \E v \in Prog[self][i[self]].ns:
                                          /\ n' = [n EXCEPT ![self] = v]
                                          /\ acc' = Ev(self, "call", "resize", v, 0, 0)
                                     /\ pc' = [pc EXCEPT ![self] = "rs_tgt"]
                                ELSE /\ IF Prog[self][i[self]].op = "add"
                                           THEN /\ acc' = Ev(self, "call", "add", 0, 0, 0)
                                                /\ pc' = [pc EXCEPT ![self] = "a_rlock"]
                                           ELSE /\ IF Prog[self][i[self]].op = "del"
                                                      THEN /\ acc' = Ev(self, "call", "del", 0, 0, 0)
                                                           /\ pc' = [pc EXCEPT ![self] = "d_rlock"]
                                                      ELSE /\ IF Prog[self][i[self]].op = "lookup"
                                                                 THEN /\ acc' = Ev(self, "call", "lookup", 0, 0, 0)
                                                                      /\ pc' = [pc EXCEPT ![self] = "l_rlock"]
                                                                 ELSE /\ acc' = Ev(self, "call", "destroy", 0, 0, 0)
                                                                      /\ pc' = [pc EXCEPT ![self] = "ds_join"]
                                     /\ n' = n
                     ELSE /\ pc' = [pc EXCEPT ![self] = "t_fin"]
                          /\ UNCHANGED << acc, op, n, nchk, res >>
               /\ UNCHANGED << mem, sb, mutex, alloc, gpok, gpw, gps, cs, 
                               online, goff, held, wq, htAlive, destroying, 
                               items, growMax, done, err, errA, rv, ra, rb, rs, 
                               osz, nsz, oi, olast, fbr, hjob, ncreate, pnt, 
                               pk, pstart, plen, ppl, pcov, pn, pg, stack, 
                               kind, tv, gsz, lg, lsz, lcnt, csz, cg, hsz, ksz, 
                               i, sz, g, woff, hn, hg, cur >>

rs_tgt(self) == /\ pc[self] = "rs_tgt"
                /\ IF TSO
                      THEN /\ sb' = [sb EXCEPT ![self] = Append(sb[self], <<"resize_target", (ClampR(n[self]))>>)]
                           /\ mem' = mem
                      ELSE /\ mem' = [mem EXCEPT !["resize_target"] = ClampR(n[self])]
                           /\ sb' = sb
                /\ acc' = Ev(self, "st", "resize_target", (ClampR(n[self])), 0, 0)
                /\ errA' = Alive("st:" \o "resize_target")
                /\ pc' = [pc EXCEPT ![self] = "rs_st_ri"]
                /\ UNCHANGED << mutex, alloc, gpok, gpw, gps, cs, online, goff, 
                                held, wq, htAlive, destroying, items, growMax, 
                                done, err, rv, ra, rb, rs, osz, nsz, oi, olast, 
                                fbr, hjob, ncreate, pnt, pk, pstart, plen, ppl, 
                                pcov, pn, pg, stack, kind, tv, gsz, lg, lsz, 
                                lcnt, csz, cg, hsz, ksz, i, op, n, sz, g, nchk, 
                                res, woff, hn, hg, cur >>

rs_st_ri(self) == /\ pc[self] = "rs_st_ri"
                  /\ IF TSO
                        THEN /\ sb' = [sb EXCEPT ![self] = Append(sb[self], <<"resize_initiated", 1>>)]
                             /\ mem' = mem
                        ELSE /\ mem' = [mem EXCEPT !["resize_initiated"] = 1]
                             /\ sb' = sb
                  /\ acc' = Ev(self, "st", "resize_initiated", 1, 0, 0)
                  /\ errA' = Alive("st:" \o "resize_initiated")
                  /\ pc' = [pc EXCEPT ![self] = "rs_off"]
                  /\ UNCHANGED << mutex, alloc, gpok, gpw, gps, cs, online, 
                                  goff, held, wq, htAlive, destroying, items, 
                                  growMax, done, err, rv, ra, rb, rs, osz, nsz, 
                                  oi, olast, fbr, hjob, ncreate, pnt, pk, 
                                  pstart, plen, ppl, pcov, pn, pg, stack, kind, 
                                  tv, gsz, lg, lsz, lcnt, csz, cg, hsz, ksz, i, 
                                  op, n, sz, g, nchk, res, woff, hn, hg, cur >>

rs_off(self) == /\ pc[self] = "rs_off"
                /\ IF online[self] /\ "on_lock" \notin Mut
                      THEN /\ woff' = [woff EXCEPT ![self] = TRUE]
                           /\ online' = [online EXCEPT ![self] = FALSE]
                           /\ gpw' = [p \in Procs |-> IF cs[self] THEN gpw[p] ELSE gpw[p] \ {self}]
                           /\ acc' = Ev(self, "offline", "-", 0, 0, 0)
                      ELSE /\ woff' = [woff EXCEPT ![self] = FALSE]
                           /\ UNCHANGED << acc, gpw, online >>
                /\ pc' = [pc EXCEPT ![self] = "rs_lock"]
                /\ UNCHANGED << mem, sb, mutex, alloc, gpok, gps, cs, goff, 
                                held, wq, htAlive, destroying, items, growMax, 
                                done, err, errA, rv, ra, rb, rs, osz, nsz, oi, 
                                olast, fbr, hjob, ncreate, pnt, pk, pstart, 
                                plen, ppl, pcov, pn, pg, stack, kind, tv, gsz, 
                                lg, lsz, lcnt, csz, cg, hsz, ksz, i, op, n, sz, 
                                g, nchk, res, hn, hg, cur >>

rs_lock(self) == /\ pc[self] = "rs_lock"
                 /\ Drained(self) /\ mutex = "free"
                 /\ mutex' = self
                 /\ acc' = Ev(self, "lock", "resize_mutex", 0, 0, 0)
                 /\ errA' = Alive("lock")
                 /\ pc' = [pc EXCEPT ![self] = "rs_on"]
                 /\ UNCHANGED << mem, sb, alloc, gpok, gpw, gps, cs, online, 
                                 goff, held, wq, htAlive, destroying, items, 
                                 growMax, done, err, rv, ra, rb, rs, osz, nsz, 
                                 oi, olast, fbr, hjob, ncreate, pnt, pk, 
                                 pstart, plen, ppl, pcov, pn, pg, stack, kind, 
                                 tv, gsz, lg, lsz, lcnt, csz, cg, hsz, ksz, i, 
                                 op, n, sz, g, nchk, res, woff, hn, hg, cur >>

rs_on(self) == /\ pc[self] = "rs_on"
               /\ IF woff[self]
                     THEN /\ online' = [online EXCEPT ![self] = Qsbr]
                          /\ acc' = Ev(self, "online", "-", 0, 0, 0)
                     ELSE /\ TRUE
                          /\ UNCHANGED << acc, online >>
               /\ pc' = [pc EXCEPT ![self] = "rs_do"]
               /\ UNCHANGED << mem, sb, mutex, alloc, gpok, gpw, gps, cs, goff, 
                               held, wq, htAlive, destroying, items, growMax, 
                               done, err, errA, rv, ra, rb, rs, osz, nsz, oi, 
                               olast, fbr, hjob, ncreate, pnt, pk, pstart, 
                               plen, ppl, pcov, pn, pg, stack, kind, tv, gsz, 
                               lg, lsz, lcnt, csz, cg, hsz, ksz, i, op, n, sz, 
                               g, nchk, res, woff, hn, hg, cur >>

rs_do(self) == /\ pc[self] = "rs_do"
               /\ stack' = [stack EXCEPT ![self] = << [ procedure |->  "do_resize",
                                                        pc        |->  "rs_unlock" ] >>
                                                    \o stack[self]]
               /\ pc' = [pc EXCEPT ![self] = "dr_ld_ipd"]
               /\ UNCHANGED << mem, sb, mutex, acc, alloc, gpok, gpw, gps, cs, 
                               online, goff, held, wq, htAlive, destroying, 
                               items, growMax, done, err, errA, rv, ra, rb, rs, 
                               osz, nsz, oi, olast, fbr, hjob, ncreate, pnt, 
                               pk, pstart, plen, ppl, pcov, pn, pg, kind, tv, 
                               gsz, lg, lsz, lcnt, csz, cg, hsz, ksz, i, op, n, 
                               sz, g, nchk, res, woff, hn, hg, cur >>

rs_unlock(self) == /\ pc[self] = "rs_unlock"
                   /\ Drained(self)
                   /\ mutex' = "free"
                   /\ acc' = Ev(self, "unlock", "resize_mutex", 0, 0, 0)
                   /\ errA' = Alive("unlock")
                   /\ pc' = [pc EXCEPT ![self] = "t_ret"]
                   /\ UNCHANGED << mem, sb, alloc, gpok, gpw, gps, cs, online, 
                                   goff, held, wq, htAlive, destroying, items, 
                                   growMax, done, err, rv, ra, rb, rs, osz, 
                                   nsz, oi, olast, fbr, hjob, ncreate, pnt, pk, 
                                   pstart, plen, ppl, pcov, pn, pg, stack, 
                                   kind, tv, gsz, lg, lsz, lcnt, csz, cg, hsz, 
                                   ksz, i, op, n, sz, g, nchk, res, woff, hn, 
                                   hg, cur >>

a_rlock(self) == /\ pc[self] = "a_rlock"
                 /\ cs' = [cs EXCEPT ![self] = TRUE]
                 /\ acc' = Ev(self, "rlock", "-", 0, 0, 0)
                 /\ pc' = [pc EXCEPT ![self] = "a_ld_size"]
                 /\ UNCHANGED << mem, sb, mutex, alloc, gpok, gpw, gps, online, 
                                 goff, held, wq, htAlive, destroying, items, 
                                 growMax, done, err, errA, rv, ra, rb, rs, osz, 
                                 nsz, oi, olast, fbr, hjob, ncreate, pnt, pk, 
                                 pstart, plen, ppl, pcov, pn, pg, stack, kind, 
                                 tv, gsz, lg, lsz, lcnt, csz, cg, hsz, ksz, i, 
                                 op, n, sz, g, nchk, res, woff, hn, hg, cur >>

a_ld_size(self) == /\ pc[self] = "a_ld_size"
                   /\ sz' = [sz EXCEPT ![self] = Rd(self, "size")]
                   /\ acc' = Ev(self, "ld", "size", 0, 0, Rd(self, "size"))
                   /\ errA' = Alive("ld:" \o "size")
                   /\ held' = [held EXCEPT ![self] = 0..Order(sz'[self])]
                   /\ pc' = [pc EXCEPT ![self] = "a_walk"]
                   /\ UNCHANGED << mem, sb, mutex, alloc, gpok, gpw, gps, cs, 
                                   online, goff, wq, htAlive, destroying, 
                                   items, growMax, done, err, rv, ra, rb, rs, 
                                   osz, nsz, oi, olast, fbr, hjob, ncreate, 
                                   pnt, pk, pstart, plen, ppl, pcov, pn, pg, 
                                   stack, kind, tv, gsz, lg, lsz, lcnt, csz, 
                                   cg, hsz, ksz, i, op, n, g, nchk, res, woff, 
                                   hn, hg, cur >>

a_walk(self) == /\ pc[self] = "a_walk"
                /\ \/ /\ AutoResize /\ nchk[self] < MaxChk
                      /\ nchk' = [nchk EXCEPT ![self] = nchk[self] + 1]
                      /\ \E gg \in Growths \cup {0}:
                           g' = [g EXCEPT ![self] = gg]
                      /\ held' = [held EXCEPT ![self] = held[self] \cup Linked]
                      /\ pc' = [pc EXCEPT ![self] = "a_chk"]
                   \/ /\ pc' = [pc EXCEPT ![self] = "a_insert"]
                      /\ UNCHANGED <<held, g, nchk>>
                /\ UNCHANGED << mem, sb, mutex, acc, alloc, gpok, gpw, gps, cs, 
                                online, goff, wq, htAlive, destroying, items, 
                                growMax, done, err, errA, rv, ra, rb, rs, osz, 
                                nsz, oi, olast, fbr, hjob, ncreate, pnt, pk, 
                                pstart, plen, ppl, pcov, pn, pg, stack, kind, 
                                tv, gsz, lg, lsz, lcnt, csz, cg, hsz, ksz, i, 
                                op, n, sz, res, woff, hn, hg, cur >>

a_chk(self) == /\ pc[self] = "a_chk"
               /\ /\ cg' = [cg EXCEPT ![self] = g[self]]
                  /\ csz' = [csz EXCEPT ![self] = sz[self]]
                  /\ stack' = [stack EXCEPT ![self] = << [ procedure |->  "check_resize",
                                                           pc        |->  "a_back",
                                                           csz       |->  csz[self],
                                                           cg        |->  cg[self] ] >>
                                                       \o stack[self]]
               /\ pc' = [pc EXCEPT ![self] = "cr_ld_count"]
               /\ UNCHANGED << mem, sb, mutex, acc, alloc, gpok, gpw, gps, cs, 
                               online, goff, held, wq, htAlive, destroying, 
                               items, growMax, done, err, errA, rv, ra, rb, rs, 
                               osz, nsz, oi, olast, fbr, hjob, ncreate, pnt, 
                               pk, pstart, plen, ppl, pcov, pn, pg, kind, tv, 
                               gsz, lg, lsz, lcnt, hsz, ksz, i, op, n, sz, g, 
                               nchk, res, woff, hn, hg, cur >>

a_back(self) == /\ pc[self] = "a_back"
                /\ pc' = [pc EXCEPT ![self] = "a_walk"]
                /\ UNCHANGED << mem, sb, mutex, acc, alloc, gpok, gpw, gps, cs, 
                                online, goff, held, wq, htAlive, destroying, 
                                items, growMax, done, err, errA, rv, ra, rb, 
                                rs, osz, nsz, oi, olast, fbr, hjob, ncreate, 
                                pnt, pk, pstart, plen, ppl, pcov, pn, pg, 
                                stack, kind, tv, gsz, lg, lsz, lcnt, csz, cg, 
                                hsz, ksz, i, op, n, sz, g, nchk, res, woff, hn, 
                                hg, cur >>

a_insert(self) == /\ pc[self] = "a_insert"
                  /\ Drained(self)
                  /\ items' = items + 1
                  /\ held' = [held EXCEPT ![self] = held[self] \cup Linked]
                  /\ pc' = [pc EXCEPT ![self] = "a_cnt"]
                  /\ UNCHANGED << mem, sb, mutex, acc, alloc, gpok, gpw, gps, 
                                  cs, online, goff, wq, htAlive, destroying, 
                                  growMax, done, err, errA, rv, ra, rb, rs, 
                                  osz, nsz, oi, olast, fbr, hjob, ncreate, pnt, 
                                  pk, pstart, plen, ppl, pcov, pn, pg, stack, 
                                  kind, tv, gsz, lg, lsz, lcnt, csz, cg, hsz, 
                                  ksz, i, op, n, sz, g, nchk, res, woff, hn, 
                                  hg, cur >>

a_cnt(self) == /\ pc[self] = "a_cnt"
               /\ /\ hsz' = [hsz EXCEPT ![self] = sz[self]]
                  /\ stack' = [stack EXCEPT ![self] = << [ procedure |->  "ht_count_add",
                                                           pc        |->  "a_runlock",
                                                           hsz       |->  hsz[self] ] >>
                                                       \o stack[self]]
               /\ pc' = [pc EXCEPT ![self] = "ca_add"]
               /\ UNCHANGED << mem, sb, mutex, acc, alloc, gpok, gpw, gps, cs, 
                               online, goff, held, wq, htAlive, destroying, 
                               items, growMax, done, err, errA, rv, ra, rb, rs, 
                               osz, nsz, oi, olast, fbr, hjob, ncreate, pnt, 
                               pk, pstart, plen, ppl, pcov, pn, pg, kind, tv, 
                               gsz, lg, lsz, lcnt, csz, cg, ksz, i, op, n, sz, 
                               g, nchk, res, woff, hn, hg, cur >>

a_runlock(self) == /\ pc[self] = "a_runlock"
                   /\ cs' = [cs EXCEPT ![self] = FALSE]
                   /\ held' = [held EXCEPT ![self] = {}]
                   /\ gpw' = [p \in Procs |-> IF online[self] THEN gpw[p] ELSE gpw[p] \ {self}]
                   /\ acc' = Ev(self, "runlock", "-", 0, 0, 0)
                   /\ pc' = [pc EXCEPT ![self] = "t_ret"]
                   /\ UNCHANGED << mem, sb, mutex, alloc, gpok, gps, online, 
                                   goff, wq, htAlive, destroying, items, 
                                   growMax, done, err, errA, rv, ra, rb, rs, 
                                   osz, nsz, oi, olast, fbr, hjob, ncreate, 
                                   pnt, pk, pstart, plen, ppl, pcov, pn, pg, 
                                   stack, kind, tv, gsz, lg, lsz, lcnt, csz, 
                                   cg, hsz, ksz, i, op, n, sz, g, nchk, res, 
                                   woff, hn, hg, cur >>

d_rlock(self) == /\ pc[self] = "d_rlock"
                 /\ cs' = [cs EXCEPT ![self] = TRUE]
                 /\ acc' = Ev(self, "rlock", "-", 0, 0, 0)
                 /\ pc' = [pc EXCEPT ![self] = "d_ld_size"]
                 /\ UNCHANGED << mem, sb, mutex, alloc, gpok, gpw, gps, online, 
                                 goff, held, wq, htAlive, destroying, items, 
                                 growMax, done, err, errA, rv, ra, rb, rs, osz, 
                                 nsz, oi, olast, fbr, hjob, ncreate, pnt, pk, 
                                 pstart, plen, ppl, pcov, pn, pg, stack, kind, 
                                 tv, gsz, lg, lsz, lcnt, csz, cg, hsz, ksz, i, 
                                 op, n, sz, g, nchk, res, woff, hn, hg, cur >>

d_ld_size(self) == /\ pc[self] = "d_ld_size"
                   /\ sz' = [sz EXCEPT ![self] = Rd(self, "size")]
                   /\ acc' = Ev(self, "ld", "size", 0, 0, Rd(self, "size"))
                   /\ errA' = Alive("ld:" \o "size")
                   /\ held' = [held EXCEPT ![self] = 0..Order(sz'[self])]
                   /\ pc' = [pc EXCEPT ![self] = "d_remove"]
                   /\ UNCHANGED << mem, sb, mutex, alloc, gpok, gpw, gps, cs, 
                                   online, goff, wq, htAlive, destroying, 
                                   items, growMax, done, err, rv, ra, rb, rs, 
                                   osz, nsz, oi, olast, fbr, hjob, ncreate, 
                                   pnt, pk, pstart, plen, ppl, pcov, pn, pg, 
                                   stack, kind, tv, gsz, lg, lsz, lcnt, csz, 
                                   cg, hsz, ksz, i, op, n, g, nchk, res, woff, 
                                   hn, hg, cur >>

d_remove(self) == /\ pc[self] = "d_remove"
                  /\ Drained(self)
                  /\ items' = items - 1
                  /\ held' = [held EXCEPT ![self] = held[self] \cup Linked]
                  /\ pc' = [pc EXCEPT ![self] = "d_cnt"]
                  /\ UNCHANGED << mem, sb, mutex, acc, alloc, gpok, gpw, gps, 
                                  cs, online, goff, wq, htAlive, destroying, 
                                  growMax, done, err, errA, rv, ra, rb, rs, 
                                  osz, nsz, oi, olast, fbr, hjob, ncreate, pnt, 
                                  pk, pstart, plen, ppl, pcov, pn, pg, stack, 
                                  kind, tv, gsz, lg, lsz, lcnt, csz, cg, hsz, 
                                  ksz, i, op, n, sz, g, nchk, res, woff, hn, 
                                  hg, cur >>

d_cnt(self) == /\ pc[self] = "d_cnt"
               /\ /\ ksz' = [ksz EXCEPT ![self] = sz[self]]
                  /\ stack' = [stack EXCEPT ![self] = << [ procedure |->  "ht_count_del",
                                                           pc        |->  "d_runlock",
                                                           ksz       |->  ksz[self] ] >>
                                                       \o stack[self]]
               /\ pc' = [pc EXCEPT ![self] = "cd_del"]
               /\ UNCHANGED << mem, sb, mutex, acc, alloc, gpok, gpw, gps, cs, 
                               online, goff, held, wq, htAlive, destroying, 
                               items, growMax, done, err, errA, rv, ra, rb, rs, 
                               osz, nsz, oi, olast, fbr, hjob, ncreate, pnt, 
                               pk, pstart, plen, ppl, pcov, pn, pg, kind, tv, 
                               gsz, lg, lsz, lcnt, csz, cg, hsz, i, op, n, sz, 
                               g, nchk, res, woff, hn, hg, cur >>

d_runlock(self) == /\ pc[self] = "d_runlock"
                   /\ cs' = [cs EXCEPT ![self] = FALSE]
                   /\ held' = [held EXCEPT ![self] = {}]
                   /\ gpw' = [p \in Procs |-> IF online[self] THEN gpw[p] ELSE gpw[p] \ {self}]
                   /\ acc' = Ev(self, "runlock", "-", 0, 0, 0)
                   /\ pc' = [pc EXCEPT ![self] = "t_ret"]
                   /\ UNCHANGED << mem, sb, mutex, alloc, gpok, gps, online, 
                                   goff, wq, htAlive, destroying, items, 
                                   growMax, done, err, errA, rv, ra, rb, rs, 
                                   osz, nsz, oi, olast, fbr, hjob, ncreate, 
                                   pnt, pk, pstart, plen, ppl, pcov, pn, pg, 
                                   stack, kind, tv, gsz, lg, lsz, lcnt, csz, 
                                   cg, hsz, ksz, i, op, n, sz, g, nchk, res, 
                                   woff, hn, hg, cur >>

l_rlock(self) == /\ pc[self] = "l_rlock"
                 /\ cs' = [cs EXCEPT ![self] = TRUE]
                 /\ acc' = Ev(self, "rlock", "-", 0, 0, 0)
                 /\ pc' = [pc EXCEPT ![self] = "l_ld_size"]
                 /\ UNCHANGED << mem, sb, mutex, alloc, gpok, gpw, gps, online, 
                                 goff, held, wq, htAlive, destroying, items, 
                                 growMax, done, err, errA, rv, ra, rb, rs, osz, 
                                 nsz, oi, olast, fbr, hjob, ncreate, pnt, pk, 
                                 pstart, plen, ppl, pcov, pn, pg, stack, kind, 
                                 tv, gsz, lg, lsz, lcnt, csz, cg, hsz, ksz, i, 
                                 op, n, sz, g, nchk, res, woff, hn, hg, cur >>

l_ld_size(self) == /\ pc[self] = "l_ld_size"
                   /\ sz' = [sz EXCEPT ![self] = Rd(self, "size")]
                   /\ acc' = Ev(self, "ld", "size", 0, 0, Rd(self, "size"))
                   /\ errA' = Alive("ld:" \o "size")
                   /\ held' = [held EXCEPT ![self] = 0..Order(sz'[self])]
                   /\ pc' = [pc EXCEPT ![self] = "l_walk"]
                   /\ UNCHANGED << mem, sb, mutex, alloc, gpok, gpw, gps, cs, 
                                   online, goff, wq, htAlive, destroying, 
                                   items, growMax, done, err, rv, ra, rb, rs, 
                                   osz, nsz, oi, olast, fbr, hjob, ncreate, 
                                   pnt, pk, pstart, plen, ppl, pcov, pn, pg, 
                                   stack, kind, tv, gsz, lg, lsz, lcnt, csz, 
                                   cg, hsz, ksz, i, op, n, g, nchk, res, woff, 
                                   hn, hg, cur >>

l_walk(self) == /\ pc[self] = "l_walk"
                /\ held' = [held EXCEPT ![self] = held[self] \cup Linked]
                /\ pc' = [pc EXCEPT ![self] = "l_runlock"]
                /\ UNCHANGED << mem, sb, mutex, acc, alloc, gpok, gpw, gps, cs, 
                                online, goff, wq, htAlive, destroying, items, 
                                growMax, done, err, errA, rv, ra, rb, rs, osz, 
                                nsz, oi, olast, fbr, hjob, ncreate, pnt, pk, 
                                pstart, plen, ppl, pcov, pn, pg, stack, kind, 
                                tv, gsz, lg, lsz, lcnt, csz, cg, hsz, ksz, i, 
                                op, n, sz, g, nchk, res, woff, hn, hg, cur >>

l_runlock(self) == /\ pc[self] = "l_runlock"
                   /\ cs' = [cs EXCEPT ![self] = FALSE]
                   /\ held' = [held EXCEPT ![self] = {}]
                   /\ gpw' = [p \in Procs |-> IF online[self] THEN gpw[p] ELSE gpw[p] \ {self}]
                   /\ acc' = Ev(self, "runlock", "-", 0, 0, 0)
                   /\ pc' = [pc EXCEPT ![self] = "t_ret"]
                   /\ UNCHANGED << mem, sb, mutex, alloc, gpok, gps, online, 
                                   goff, wq, htAlive, destroying, items, 
                                   growMax, done, err, errA, rv, ra, rb, rs, 
                                   osz, nsz, oi, olast, fbr, hjob, ncreate, 
                                   pnt, pk, pstart, plen, ppl, pcov, pn, pg, 
                                   stack, kind, tv, gsz, lg, lsz, lcnt, csz, 
                                   cg, hsz, ksz, i, op, n, sz, g, nchk, res, 
                                   woff, hn, hg, cur >>

ds_join(self) == /\ pc[self] = "ds_join"
                 /\ \A t \in Threads \ {self} : done[t]
                 /\ IF AutoResize
                       THEN /\ pc' = [pc EXCEPT ![self] = "ds_e_on"]
                       ELSE /\ pc' = [pc EXCEPT ![self] = "ds_db"]
                 /\ UNCHANGED << mem, sb, mutex, acc, alloc, gpok, gpw, gps, 
                                 cs, online, goff, held, wq, htAlive, 
                                 destroying, items, growMax, done, err, errA, 
                                 rv, ra, rb, rs, osz, nsz, oi, olast, fbr, 
                                 hjob, ncreate, pnt, pk, pstart, plen, ppl, 
                                 pcov, pn, pg, stack, kind, tv, gsz, lg, lsz, 
                                 lcnt, csz, cg, hsz, ksz, i, op, n, sz, g, 
                                 nchk, res, woff, hn, hg, cur >>

ds_e_on(self) == /\ pc[self] = "ds_e_on"
                 /\ online' = [online EXCEPT ![self] = Qsbr]
                 /\ acc' = Ev(self, "online", "-", 0, 0, 0)
                 /\ pc' = [pc EXCEPT ![self] = "ds_e_lock"]
                 /\ UNCHANGED << mem, sb, mutex, alloc, gpok, gpw, gps, cs, 
                                 goff, held, wq, htAlive, destroying, items, 
                                 growMax, done, err, errA, rv, ra, rb, rs, osz, 
                                 nsz, oi, olast, fbr, hjob, ncreate, pnt, pk, 
                                 pstart, plen, ppl, pcov, pn, pg, stack, kind, 
                                 tv, gsz, lg, lsz, lcnt, csz, cg, hsz, ksz, i, 
                                 op, n, sz, g, nchk, res, woff, hn, hg, cur >>

ds_e_lock(self) == /\ pc[self] = "ds_e_lock"
                   /\ cs' = [cs EXCEPT ![self] = TRUE]
                   /\ acc' = Ev(self, "rlock", "-", 0, 0, 0)
                   /\ errA' = Alive("is_empty")
                   /\ pc' = [pc EXCEPT ![self] = "ds_e_unlock"]
                   /\ UNCHANGED << mem, sb, mutex, alloc, gpok, gpw, gps, 
                                   online, goff, held, wq, htAlive, destroying, 
                                   items, growMax, done, err, rv, ra, rb, rs, 
                                   osz, nsz, oi, olast, fbr, hjob, ncreate, 
                                   pnt, pk, pstart, plen, ppl, pcov, pn, pg, 
                                   stack, kind, tv, gsz, lg, lsz, lcnt, csz, 
                                   cg, hsz, ksz, i, op, n, sz, g, nchk, res, 
                                   woff, hn, hg, cur >>

ds_e_unlock(self) == /\ pc[self] = "ds_e_unlock"
                     /\ cs' = [cs EXCEPT ![self] = FALSE]
                     /\ held' = [held EXCEPT ![self] = {}]
                     /\ gpw' = [p \in Procs |-> IF online[self] THEN gpw[p] ELSE gpw[p] \ {self}]
                     /\ acc' = Ev(self, "runlock", "-", 0, 0, 0)
                     /\ pc' = [pc EXCEPT ![self] = "ds_e_off"]
                     /\ UNCHANGED << mem, sb, mutex, alloc, gpok, gps, online, 
                                     goff, wq, htAlive, destroying, items, 
                                     growMax, done, err, errA, rv, ra, rb, rs, 
                                     osz, nsz, oi, olast, fbr, hjob, ncreate, 
                                     pnt, pk, pstart, plen, ppl, pcov, pn, pg, 
                                     stack, kind, tv, gsz, lg, lsz, lcnt, csz, 
                                     cg, hsz, ksz, i, op, n, sz, g, nchk, res, 
                                     woff, hn, hg, cur >>

ds_e_off(self) == /\ pc[self] = "ds_e_off"
                  /\ online' = [online EXCEPT ![self] = FALSE]
                  /\ gpw' = [p \in Procs |-> IF cs[self] THEN gpw[p] ELSE gpw[p] \ {self}]
                  /\ acc' = Ev(self, "offline", "-", 0, 0, 0)
                  /\ IF items # 0
                        THEN /\ res' = [res EXCEPT ![self] = 0 - 1]
                             /\ pc' = [pc EXCEPT ![self] = "t_ret"]
                        ELSE /\ pc' = [pc EXCEPT ![self] = "ds_st_ipd"]
                             /\ res' = res
                  /\ UNCHANGED << mem, sb, mutex, alloc, gpok, gps, cs, goff, 
                                  held, wq, htAlive, destroying, items, 
                                  growMax, done, err, errA, rv, ra, rb, rs, 
                                  osz, nsz, oi, olast, fbr, hjob, ncreate, pnt, 
                                  pk, pstart, plen, ppl, pcov, pn, pg, stack, 
                                  kind, tv, gsz, lg, lsz, lcnt, csz, cg, hsz, 
                                  ksz, i, op, n, sz, g, nchk, woff, hn, hg, 
                                  cur >>

ds_st_ipd(self) == /\ pc[self] = "ds_st_ipd"
                   /\ IF TSO
                         THEN /\ sb' = [sb EXCEPT ![self] = Append(sb[self], <<"in_progress_destroy", 1>>)]
                              /\ mem' = mem
                         ELSE /\ mem' = [mem EXCEPT !["in_progress_destroy"] = 1]
                              /\ sb' = sb
                   /\ acc' = Ev(self, "st", "in_progress_destroy", 1, 0, 0)
                   /\ errA' = Alive("st:" \o "in_progress_destroy")
                   /\ pc' = [pc EXCEPT ![self] = "ds_queue"]
                   /\ UNCHANGED << mutex, alloc, gpok, gpw, gps, cs, online, 
                                   goff, held, wq, htAlive, destroying, items, 
                                   growMax, done, err, rv, ra, rb, rs, osz, 
                                   nsz, oi, olast, fbr, hjob, ncreate, pnt, pk, 
                                   pstart, plen, ppl, pcov, pn, pg, stack, 
                                   kind, tv, gsz, lg, lsz, lcnt, csz, cg, hsz, 
                                   ksz, i, op, n, sz, g, nchk, res, woff, hn, 
                                   hg, cur >>

ds_queue(self) == /\ pc[self] = "ds_queue"
                  /\ Drained(self)
                  /\ wq' = Append(wq, "dw")
                  /\ acc' = Ev(self, "enq", "dw", 0, 0, 0)
                  /\ pc' = [pc EXCEPT ![self] = "t_ret"]
                  /\ UNCHANGED << mem, sb, mutex, alloc, gpok, gpw, gps, cs, 
                                  online, goff, held, htAlive, destroying, 
                                  items, growMax, done, err, errA, rv, ra, rb, 
                                  rs, osz, nsz, oi, olast, fbr, hjob, ncreate, 
                                  pnt, pk, pstart, plen, ppl, pcov, pn, pg, 
                                  stack, kind, tv, gsz, lg, lsz, lcnt, csz, cg, 
                                  hsz, ksz, i, op, n, sz, g, nchk, res, woff, 
                                  hn, hg, cur >>

ds_db(self) == /\ pc[self] = "ds_db"
               /\ stack' = [stack EXCEPT ![self] = << [ procedure |->  "delete_bucket",
                                                        pc        |->  "ds_dbr" ] >>
                                                    \o stack[self]]
               /\ pc' = [pc EXCEPT ![self] = "db_chk"]
               /\ UNCHANGED << mem, sb, mutex, acc, alloc, gpok, gpw, gps, cs, 
                               online, goff, held, wq, htAlive, destroying, 
                               items, growMax, done, err, errA, rv, ra, rb, rs, 
                               osz, nsz, oi, olast, fbr, hjob, ncreate, pnt, 
                               pk, pstart, plen, ppl, pcov, pn, pg, kind, tv, 
                               gsz, lg, lsz, lcnt, csz, cg, hsz, ksz, i, op, n, 
                               sz, g, nchk, res, woff, hn, hg, cur >>

ds_dbr(self) == /\ pc[self] = "ds_dbr"
                /\ IF rv[self] # 0
                      THEN /\ res' = [res EXCEPT ![self] = 0 - 1]
                           /\ pc' = [pc EXCEPT ![self] = "t_ret"]
                      ELSE /\ pc' = [pc EXCEPT ![self] = "ds_fsc"]
                           /\ res' = res
                /\ UNCHANGED << mem, sb, mutex, acc, alloc, gpok, gpw, gps, cs, 
                                online, goff, held, wq, htAlive, destroying, 
                                items, growMax, done, err, errA, rv, ra, rb, 
                                rs, osz, nsz, oi, olast, fbr, hjob, ncreate, 
                                pnt, pk, pstart, plen, ppl, pcov, pn, pg, 
                                stack, kind, tv, gsz, lg, lsz, lcnt, csz, cg, 
                                hsz, ksz, i, op, n, sz, g, nchk, woff, hn, hg, 
                                cur >>

ds_fsc(self) == /\ pc[self] = "ds_fsc"
                /\ IF Accounting
                      THEN /\ acc' = Ev(self, "scfree", "-", 0, 0, 0)
                      ELSE /\ TRUE
                           /\ acc' = acc
                /\ pc' = [pc EXCEPT ![self] = "ds_fht"]
                /\ UNCHANGED << mem, sb, mutex, alloc, gpok, gpw, gps, cs, 
                                online, goff, held, wq, htAlive, destroying, 
                                items, growMax, done, err, errA, rv, ra, rb, 
                                rs, osz, nsz, oi, olast, fbr, hjob, ncreate, 
                                pnt, pk, pstart, plen, ppl, pcov, pn, pg, 
                                stack, kind, tv, gsz, lg, lsz, lcnt, csz, cg, 
                                hsz, ksz, i, op, n, sz, g, nchk, res, woff, hn, 
                                hg, cur >>

ds_fht(self) == /\ pc[self] = "ds_fht"
                /\ htAlive' = FALSE
                /\ acc' = Ev(self, "htfree", "-", 0, 0, 0)
                /\ pc' = [pc EXCEPT ![self] = "t_ret"]
                /\ UNCHANGED << mem, sb, mutex, alloc, gpok, gpw, gps, cs, 
                                online, goff, held, wq, destroying, items, 
                                growMax, done, err, errA, rv, ra, rb, rs, osz, 
                                nsz, oi, olast, fbr, hjob, ncreate, pnt, pk, 
                                pstart, plen, ppl, pcov, pn, pg, stack, kind, 
                                tv, gsz, lg, lsz, lcnt, csz, cg, hsz, ksz, i, 
                                op, n, sz, g, nchk, res, woff, hn, hg, cur >>

t_ret(self) == /\ pc[self] = "t_ret"
               /\ acc' = Ev(self, "ret", op[self].op, 0, 0, res[self])
               /\ i' = [i EXCEPT ![self] = i[self] + 1]
               /\ pc' = [pc EXCEPT ![self] = "t_top"]
               /\ UNCHANGED << mem, sb, mutex, alloc, gpok, gpw, gps, cs, 
                               online, goff, held, wq, htAlive, destroying, 
                               items, growMax, done, err, errA, rv, ra, rb, rs, 
                               osz, nsz, oi, olast, fbr, hjob, ncreate, pnt, 
                               pk, pstart, plen, ppl, pcov, pn, pg, stack, 
                               kind, tv, gsz, lg, lsz, lcnt, csz, cg, hsz, ksz, 
                               op, n, sz, g, nchk, res, woff, hn, hg, cur >>

t_fin(self) == /\ pc[self] = "t_fin"
               /\ done' = [done EXCEPT ![self] = TRUE]
               /\ acc' = Ev(self, "fin", "-", 0, 0, 0)
               /\ online' = [online EXCEPT ![self] = FALSE]
               /\ gpw' = [p \in Procs |-> gpw[p] \ {self}]
               /\ pc' = [pc EXCEPT ![self] = "Done"]
               /\ UNCHANGED << mem, sb, mutex, alloc, gpok, gps, cs, goff, 
                               held, wq, htAlive, destroying, items, growMax, 
                               err, errA, rv, ra, rb, rs, osz, nsz, oi, olast, 
                               fbr, hjob, ncreate, pnt, pk, pstart, plen, ppl, 
                               pcov, pn, pg, stack, kind, tv, gsz, lg, lsz, 
                               lcnt, csz, cg, hsz, ksz, i, op, n, sz, g, nchk, 
                               res, woff, hn, hg, cur >>

thr(self) == t_reg(self) \/ t_top(self) \/ rs_tgt(self) \/ rs_st_ri(self)
                \/ rs_off(self) \/ rs_lock(self) \/ rs_on(self)
                \/ rs_do(self) \/ rs_unlock(self) \/ a_rlock(self)
                \/ a_ld_size(self) \/ a_walk(self) \/ a_chk(self)
                \/ a_back(self) \/ a_insert(self) \/ a_cnt(self)
                \/ a_runlock(self) \/ d_rlock(self) \/ d_ld_size(self)
                \/ d_remove(self) \/ d_cnt(self) \/ d_runlock(self)
                \/ l_rlock(self) \/ l_ld_size(self) \/ l_walk(self)
                \/ l_runlock(self) \/ ds_join(self) \/ ds_e_on(self)
                \/ ds_e_lock(self) \/ ds_e_unlock(self) \/ ds_e_off(self)
                \/ ds_st_ipd(self) \/ ds_queue(self) \/ ds_db(self)
                \/ ds_dbr(self) \/ ds_fsc(self) \/ ds_fht(self)
                \/ t_ret(self) \/ t_fin(self)

hp_reg(self) == /\ pc[self] = "hp_reg"
                /\ hjob[self].st = "run"
                /\ hn' = [hn EXCEPT ![self] = 0]
                /\ online' = [online EXCEPT ![self] = Qsbr]
                /\ acc' = Ev(self, "reg", "-", 0, 0, 0)
                /\ pc' = [pc EXCEPT ![self] = "hp_walk"]
                /\ UNCHANGED << mem, sb, mutex, alloc, gpok, gpw, gps, cs, 
                                goff, held, wq, htAlive, destroying, items, 
                                growMax, done, err, errA, rv, ra, rb, rs, osz, 
                                nsz, oi, olast, fbr, hjob, ncreate, pnt, pk, 
                                pstart, plen, ppl, pcov, pn, pg, stack, kind, 
                                tv, gsz, lg, lsz, lcnt, csz, cg, hsz, ksz, i, 
                                op, n, sz, g, nchk, res, woff, hg, cur >>

hp_walk(self) == /\ pc[self] = "hp_walk"
                 /\ \/ /\ AutoResize /\ hjob[self].kind = "pop" /\ hn[self] < MaxChkP
                       /\ hn' = [hn EXCEPT ![self] = hn[self] + 1]
                       /\ \E gg \in Growths \cup {0}:
                            hg' = [hg EXCEPT ![self] = gg]
                       /\ pc' = [pc EXCEPT ![self] = "hp_chk"]
                    \/ /\ pc' = [pc EXCEPT ![self] = "hp_unreg"]
                       /\ UNCHANGED <<hn, hg>>
                 /\ UNCHANGED << mem, sb, mutex, acc, alloc, gpok, gpw, gps, 
                                 cs, online, goff, held, wq, htAlive, 
                                 destroying, items, growMax, done, err, errA, 
                                 rv, ra, rb, rs, osz, nsz, oi, olast, fbr, 
                                 hjob, ncreate, pnt, pk, pstart, plen, ppl, 
                                 pcov, pn, pg, stack, kind, tv, gsz, lg, lsz, 
                                 lcnt, csz, cg, hsz, ksz, i, op, n, sz, g, 
                                 nchk, res, woff, cur >>

hp_chk(self) == /\ pc[self] = "hp_chk"
                /\ /\ cg' = [cg EXCEPT ![self] = hg[self]]
                   /\ csz' = [csz EXCEPT ![self] = Pow2(oi[hjob[self].par] - 1)]
                   /\ stack' = [stack EXCEPT ![self] = << [ procedure |->  "check_resize",
                                                            pc        |->  "hp_back",
                                                            csz       |->  csz[self],
                                                            cg        |->  cg[self] ] >>
                                                        \o stack[self]]
                /\ pc' = [pc EXCEPT ![self] = "cr_ld_count"]
                /\ UNCHANGED << mem, sb, mutex, acc, alloc, gpok, gpw, gps, cs, 
                                online, goff, held, wq, htAlive, destroying, 
                                items, growMax, done, err, errA, rv, ra, rb, 
                                rs, osz, nsz, oi, olast, fbr, hjob, ncreate, 
                                pnt, pk, pstart, plen, ppl, pcov, pn, pg, kind, 
                                tv, gsz, lg, lsz, lcnt, hsz, ksz, i, op, n, sz, 
                                g, nchk, res, woff, hn, hg, cur >>

hp_back(self) == /\ pc[self] = "hp_back"
                 /\ pc' = [pc EXCEPT ![self] = "hp_walk"]
                 /\ UNCHANGED << mem, sb, mutex, acc, alloc, gpok, gpw, gps, 
                                 cs, online, goff, held, wq, htAlive, 
                                 destroying, items, growMax, done, err, errA, 
                                 rv, ra, rb, rs, osz, nsz, oi, olast, fbr, 
                                 hjob, ncreate, pnt, pk, pstart, plen, ppl, 
                                 pcov, pn, pg, stack, kind, tv, gsz, lg, lsz, 
                                 lcnt, csz, cg, hsz, ksz, i, op, n, sz, g, 
                                 nchk, res, woff, hn, hg, cur >>

hp_unreg(self) == /\ pc[self] = "hp_unreg"
                  /\ pcov' = [pcov EXCEPT ![hjob[self].par] = pcov[hjob[self].par] + hjob[self].len]
                  /\ hjob' = [hjob EXCEPT ![self].st = "done"]
                  /\ online' = [online EXCEPT ![self] = FALSE]
                  /\ gpw' = [p \in Procs |-> IF cs[self] THEN gpw[p] ELSE gpw[p] \ {self}]
                  /\ acc' = Ev(self, "unreg", "-", 0, 0, 0)
                  /\ pc' = [pc EXCEPT ![self] = "hp_reg"]
                  /\ UNCHANGED << mem, sb, mutex, alloc, gpok, gps, cs, goff, 
                                  held, wq, htAlive, destroying, items, 
                                  growMax, done, err, errA, rv, ra, rb, rs, 
                                  osz, nsz, oi, olast, fbr, ncreate, pnt, pk, 
                                  pstart, plen, ppl, pn, pg, stack, kind, tv, 
                                  gsz, lg, lsz, lcnt, csz, cg, hsz, ksz, i, op, 
                                  n, sz, g, nchk, res, woff, hn, hg, cur >>

helper(self) == hp_reg(self) \/ hp_walk(self) \/ hp_chk(self)
                   \/ hp_back(self) \/ hp_unreg(self)

w_wait(self) == /\ pc[self] = "w_wait"
                /\ wq # <<>>
                /\ cur' = [cur EXCEPT ![self] = Head(wq)]
                /\ wq' = Tail(wq)
                /\ errA' = Alive("work")
                /\ pc' = [pc EXCEPT ![self] = "w_disp"]
                /\ UNCHANGED << mem, sb, mutex, acc, alloc, gpok, gpw, gps, cs, 
                                online, goff, held, htAlive, destroying, items, 
                                growMax, done, err, rv, ra, rb, rs, osz, nsz, 
                                oi, olast, fbr, hjob, ncreate, pnt, pk, pstart, 
                                plen, ppl, pcov, pn, pg, stack, kind, tv, gsz, 
                                lg, lsz, lcnt, csz, cg, hsz, ksz, i, op, n, sz, 
                                g, nchk, res, woff, hn, hg >>

w_disp(self) == /\ pc[self] = "w_disp"
                /\ IF cur[self] = "rw"
                      THEN /\ IF "reg_first" \in Mut
                                 THEN /\ pc' = [pc EXCEPT ![self] = "w_oreg"]
                                 ELSE /\ pc' = [pc EXCEPT ![self] = "w_lock"]
                      ELSE /\ pc' = [pc EXCEPT ![self] = "w_reg2"]
                /\ UNCHANGED << mem, sb, mutex, acc, alloc, gpok, gpw, gps, cs, 
                                online, goff, held, wq, htAlive, destroying, 
                                items, growMax, done, err, errA, rv, ra, rb, 
                                rs, osz, nsz, oi, olast, fbr, hjob, ncreate, 
                                pnt, pk, pstart, plen, ppl, pcov, pn, pg, 
                                stack, kind, tv, gsz, lg, lsz, lcnt, csz, cg, 
                                hsz, ksz, i, op, n, sz, g, nchk, res, woff, hn, 
                                hg, cur >>

w_lock(self) == /\ pc[self] = "w_lock"
                /\ Drained(self) /\ mutex = "free"
                /\ mutex' = self
                /\ acc' = Ev(self, "lock", "resize_mutex", 0, 0, 0)
                /\ errA' = Alive("lock")
                /\ pc' = [pc EXCEPT ![self] = "w_reg"]
                /\ UNCHANGED << mem, sb, alloc, gpok, gpw, gps, cs, online, 
                                goff, held, wq, htAlive, destroying, items, 
                                growMax, done, err, rv, ra, rb, rs, osz, nsz, 
                                oi, olast, fbr, hjob, ncreate, pnt, pk, pstart, 
                                plen, ppl, pcov, pn, pg, stack, kind, tv, gsz, 
                                lg, lsz, lcnt, csz, cg, hsz, ksz, i, op, n, sz, 
                                g, nchk, res, woff, hn, hg, cur >>

w_reg(self) == /\ pc[self] = "w_reg"
               /\ online' = [online EXCEPT ![self] = Qsbr]
               /\ acc' = Ev(self, "reg", "-", 0, 0, 0)
               /\ pc' = [pc EXCEPT ![self] = "w_do"]
               /\ UNCHANGED << mem, sb, mutex, alloc, gpok, gpw, gps, cs, goff, 
                               held, wq, htAlive, destroying, items, growMax, 
                               done, err, errA, rv, ra, rb, rs, osz, nsz, oi, 
                               olast, fbr, hjob, ncreate, pnt, pk, pstart, 
                               plen, ppl, pcov, pn, pg, stack, kind, tv, gsz, 
                               lg, lsz, lcnt, csz, cg, hsz, ksz, i, op, n, sz, 
                               g, nchk, res, woff, hn, hg, cur >>

w_do(self) == /\ pc[self] = "w_do"
              /\ stack' = [stack EXCEPT ![self] = << [ procedure |->  "do_resize",
                                                       pc        |->  "w_unreg" ] >>
                                                   \o stack[self]]
              /\ pc' = [pc EXCEPT ![self] = "dr_ld_ipd"]
              /\ UNCHANGED << mem, sb, mutex, acc, alloc, gpok, gpw, gps, cs, 
                              online, goff, held, wq, htAlive, destroying, 
                              items, growMax, done, err, errA, rv, ra, rb, rs, 
                              osz, nsz, oi, olast, fbr, hjob, ncreate, pnt, pk, 
                              pstart, plen, ppl, pcov, pn, pg, kind, tv, gsz, 
                              lg, lsz, lcnt, csz, cg, hsz, ksz, i, op, n, sz, 
                              g, nchk, res, woff, hn, hg, cur >>

w_unreg(self) == /\ pc[self] = "w_unreg"
                 /\ online' = [online EXCEPT ![self] = FALSE]
                 /\ gpw' = [p \in Procs |-> IF cs[self] THEN gpw[p] ELSE gpw[p] \ {self}]
                 /\ acc' = Ev(self, "unreg", "-", 0, 0, 0)
                 /\ pc' = [pc EXCEPT ![self] = "w_unlock"]
                 /\ UNCHANGED << mem, sb, mutex, alloc, gpok, gps, cs, goff, 
                                 held, wq, htAlive, destroying, items, growMax, 
                                 done, err, errA, rv, ra, rb, rs, osz, nsz, oi, 
                                 olast, fbr, hjob, ncreate, pnt, pk, pstart, 
                                 plen, ppl, pcov, pn, pg, stack, kind, tv, gsz, 
                                 lg, lsz, lcnt, csz, cg, hsz, ksz, i, op, n, 
                                 sz, g, nchk, res, woff, hn, hg, cur >>

w_unlock(self) == /\ pc[self] = "w_unlock"
                  /\ Drained(self)
                  /\ mutex' = "free"
                  /\ acc' = Ev(self, "unlock", "resize_mutex", 0, 0, 0)
                  /\ errA' = Alive("unlock")
                  /\ pc' = [pc EXCEPT ![self] = "w_wfree"]
                  /\ UNCHANGED << mem, sb, alloc, gpok, gpw, gps, cs, online, 
                                  goff, held, wq, htAlive, destroying, items, 
                                  growMax, done, err, rv, ra, rb, rs, osz, nsz, 
                                  oi, olast, fbr, hjob, ncreate, pnt, pk, 
                                  pstart, plen, ppl, pcov, pn, pg, stack, kind, 
                                  tv, gsz, lg, lsz, lcnt, csz, cg, hsz, ksz, i, 
                                  op, n, sz, g, nchk, res, woff, hn, hg, cur >>

w_wfree(self) == /\ pc[self] = "w_wfree"
                 /\ acc' = Ev(self, "wfree", "rw", 0, 0, 0)
                 /\ pc' = [pc EXCEPT ![self] = "w_wait"]
                 /\ UNCHANGED << mem, sb, mutex, alloc, gpok, gpw, gps, cs, 
                                 online, goff, held, wq, htAlive, destroying, 
                                 items, growMax, done, err, errA, rv, ra, rb, 
                                 rs, osz, nsz, oi, olast, fbr, hjob, ncreate, 
                                 pnt, pk, pstart, plen, ppl, pcov, pn, pg, 
                                 stack, kind, tv, gsz, lg, lsz, lcnt, csz, cg, 
                                 hsz, ksz, i, op, n, sz, g, nchk, res, woff, 
                                 hn, hg, cur >>

w_oreg(self) == /\ pc[self] = "w_oreg"
                /\ online' = [online EXCEPT ![self] = Qsbr]
                /\ acc' = Ev(self, "reg", "-", 0, 0, 0)
                /\ pc' = [pc EXCEPT ![self] = "w_olock"]
                /\ UNCHANGED << mem, sb, mutex, alloc, gpok, gpw, gps, cs, 
                                goff, held, wq, htAlive, destroying, items, 
                                growMax, done, err, errA, rv, ra, rb, rs, osz, 
                                nsz, oi, olast, fbr, hjob, ncreate, pnt, pk, 
                                pstart, plen, ppl, pcov, pn, pg, stack, kind, 
                                tv, gsz, lg, lsz, lcnt, csz, cg, hsz, ksz, i, 
                                op, n, sz, g, nchk, res, woff, hn, hg, cur >>

w_olock(self) == /\ pc[self] = "w_olock"
                 /\ Drained(self) /\ mutex = "free"
                 /\ mutex' = self
                 /\ acc' = Ev(self, "lock", "resize_mutex", 0, 0, 0)
                 /\ errA' = Alive("lock")
                 /\ pc' = [pc EXCEPT ![self] = "w_odo"]
                 /\ UNCHANGED << mem, sb, alloc, gpok, gpw, gps, cs, online, 
                                 goff, held, wq, htAlive, destroying, items, 
                                 growMax, done, err, rv, ra, rb, rs, osz, nsz, 
                                 oi, olast, fbr, hjob, ncreate, pnt, pk, 
                                 pstart, plen, ppl, pcov, pn, pg, stack, kind, 
                                 tv, gsz, lg, lsz, lcnt, csz, cg, hsz, ksz, i, 
                                 op, n, sz, g, nchk, res, woff, hn, hg, cur >>

w_odo(self) == /\ pc[self] = "w_odo"
               /\ stack' = [stack EXCEPT ![self] = << [ procedure |->  "do_resize",
                                                        pc        |->  "w_ounlock" ] >>
                                                    \o stack[self]]
               /\ pc' = [pc EXCEPT ![self] = "dr_ld_ipd"]
               /\ UNCHANGED << mem, sb, mutex, acc, alloc, gpok, gpw, gps, cs, 
                               online, goff, held, wq, htAlive, destroying, 
                               items, growMax, done, err, errA, rv, ra, rb, rs, 
                               osz, nsz, oi, olast, fbr, hjob, ncreate, pnt, 
                               pk, pstart, plen, ppl, pcov, pn, pg, kind, tv, 
                               gsz, lg, lsz, lcnt, csz, cg, hsz, ksz, i, op, n, 
                               sz, g, nchk, res, woff, hn, hg, cur >>

w_ounlock(self) == /\ pc[self] = "w_ounlock"
                   /\ Drained(self)
                   /\ mutex' = "free"
                   /\ acc' = Ev(self, "unlock", "resize_mutex", 0, 0, 0)
                   /\ errA' = Alive("unlock")
                   /\ pc' = [pc EXCEPT ![self] = "w_ounreg"]
                   /\ UNCHANGED << mem, sb, alloc, gpok, gpw, gps, cs, online, 
                                   goff, held, wq, htAlive, destroying, items, 
                                   growMax, done, err, rv, ra, rb, rs, osz, 
                                   nsz, oi, olast, fbr, hjob, ncreate, pnt, pk, 
                                   pstart, plen, ppl, pcov, pn, pg, stack, 
                                   kind, tv, gsz, lg, lsz, lcnt, csz, cg, hsz, 
                                   ksz, i, op, n, sz, g, nchk, res, woff, hn, 
                                   hg, cur >>

w_ounreg(self) == /\ pc[self] = "w_ounreg"
                  /\ online' = [online EXCEPT ![self] = FALSE]
                  /\ gpw' = [p \in Procs |-> IF cs[self] THEN gpw[p] ELSE gpw[p] \ {self}]
                  /\ acc' = Ev(self, "unreg", "-", 0, 0, 0)
                  /\ pc' = [pc EXCEPT ![self] = "w_wfree"]
                  /\ UNCHANGED << mem, sb, mutex, alloc, gpok, gps, cs, goff, 
                                  held, wq, htAlive, destroying, items, 
                                  growMax, done, err, errA, rv, ra, rb, rs, 
                                  osz, nsz, oi, olast, fbr, hjob, ncreate, pnt, 
                                  pk, pstart, plen, ppl, pcov, pn, pg, stack, 
                                  kind, tv, gsz, lg, lsz, lcnt, csz, cg, hsz, 
                                  ksz, i, op, n, sz, g, nchk, res, woff, hn, 
                                  hg, cur >>

w_reg2(self) == /\ pc[self] = "w_reg2"
                /\ online' = [online EXCEPT ![self] = Qsbr]
                /\ acc' = Ev(self, "reg", "-", 0, 0, 0)
                /\ pc' = [pc EXCEPT ![self] = "w_db"]
                /\ UNCHANGED << mem, sb, mutex, alloc, gpok, gpw, gps, cs, 
                                goff, held, wq, htAlive, destroying, items, 
                                growMax, done, err, errA, rv, ra, rb, rs, osz, 
                                nsz, oi, olast, fbr, hjob, ncreate, pnt, pk, 
                                pstart, plen, ppl, pcov, pn, pg, stack, kind, 
                                tv, gsz, lg, lsz, lcnt, csz, cg, hsz, ksz, i, 
                                op, n, sz, g, nchk, res, woff, hn, hg, cur >>

w_db(self) == /\ pc[self] = "w_db"
              /\ stack' = [stack EXCEPT ![self] = << [ procedure |->  "delete_bucket",
                                                       pc        |->  "w_fsc" ] >>
                                                   \o stack[self]]
              /\ pc' = [pc EXCEPT ![self] = "db_chk"]
              /\ UNCHANGED << mem, sb, mutex, acc, alloc, gpok, gpw, gps, cs, 
                              online, goff, held, wq, htAlive, destroying, 
                              items, growMax, done, err, errA, rv, ra, rb, rs, 
                              osz, nsz, oi, olast, fbr, hjob, ncreate, pnt, pk, 
                              pstart, plen, ppl, pcov, pn, pg, kind, tv, gsz, 
                              lg, lsz, lcnt, csz, cg, hsz, ksz, i, op, n, sz, 
                              g, nchk, res, woff, hn, hg, cur >>

w_fsc(self) == /\ pc[self] = "w_fsc"
               /\ err' = (IF rv[self] = 0 THEN err ELSE err \cup {"destroy_cb_nonempty"})
               /\ IF Accounting
                     THEN /\ acc' = Ev(self, "scfree", "-", 0, 0, 0)
                     ELSE /\ TRUE
                          /\ acc' = acc
               /\ pc' = [pc EXCEPT ![self] = "w_unreg2"]
               /\ UNCHANGED << mem, sb, mutex, alloc, gpok, gpw, gps, cs, 
                               online, goff, held, wq, htAlive, destroying, 
                               items, growMax, done, errA, rv, ra, rb, rs, osz, 
                               nsz, oi, olast, fbr, hjob, ncreate, pnt, pk, 
                               pstart, plen, ppl, pcov, pn, pg, stack, kind, 
                               tv, gsz, lg, lsz, lcnt, csz, cg, hsz, ksz, i, 
                               op, n, sz, g, nchk, res, woff, hn, hg, cur >>

w_unreg2(self) == /\ pc[self] = "w_unreg2"
                  /\ online' = [online EXCEPT ![self] = FALSE]
                  /\ gpw' = [p \in Procs |-> IF cs[self] THEN gpw[p] ELSE gpw[p] \ {self}]
                  /\ acc' = Ev(self, "unreg", "-", 0, 0, 0)
                  /\ pc' = [pc EXCEPT ![self] = "w_fht"]
                  /\ UNCHANGED << mem, sb, mutex, alloc, gpok, gps, cs, goff, 
                                  held, wq, htAlive, destroying, items, 
                                  growMax, done, err, errA, rv, ra, rb, rs, 
                                  osz, nsz, oi, olast, fbr, hjob, ncreate, pnt, 
                                  pk, pstart, plen, ppl, pcov, pn, pg, stack, 
                                  kind, tv, gsz, lg, lsz, lcnt, csz, cg, hsz, 
                                  ksz, i, op, n, sz, g, nchk, res, woff, hn, 
                                  hg, cur >>

w_fht(self) == /\ pc[self] = "w_fht"
               /\ htAlive' = FALSE
               /\ acc' = Ev(self, "htfree", "-", 0, 0, 0)
               /\ pc' = [pc EXCEPT ![self] = "w_wait"]
               /\ UNCHANGED << mem, sb, mutex, alloc, gpok, gpw, gps, cs, 
                               online, goff, held, wq, destroying, items, 
                               growMax, done, err, errA, rv, ra, rb, rs, osz, 
                               nsz, oi, olast, fbr, hjob, ncreate, pnt, pk, 
                               pstart, plen, ppl, pcov, pn, pg, stack, kind, 
                               tv, gsz, lg, lsz, lcnt, csz, cg, hsz, ksz, i, 
                               op, n, sz, g, nchk, res, woff, hn, hg, cur >>

worker(self) == w_wait(self) \/ w_disp(self) \/ w_lock(self) \/ w_reg(self)
                   \/ w_do(self) \/ w_unreg(self) \/ w_unlock(self)
                   \/ w_wfree(self) \/ w_oreg(self) \/ w_olock(self)
                   \/ w_odo(self) \/ w_ounlock(self) \/ w_ounreg(self)
                   \/ w_reg2(self) \/ w_db(self) \/ w_fsc(self)
                   \/ w_unreg2(self) \/ w_fht(self)

Next == (\E self \in ProcSet:  \/ partition(self) \/ do_resize(self)
                               \/ target_grow(self) \/ lazy_launch(self)
                               \/ lazy_grow(self) \/ lazy_count(self)
                               \/ check_resize(self) \/ ht_count_add(self)
                               \/ ht_count_del(self) \/ delete_bucket(self))
           \/ (\E self \in Flushers: flusher(self))
           \/ (\E self \in Threads: thr(self))
           \/ (\E self \in Helpers: helper(self))
           \/ (\E self \in {W}: worker(self))

Spec == /\ Init /\ [][Next]_vars
        /\ \A self \in Flushers : WF_vars(flusher(self))
        /\ \A self \in Threads : /\ WF_vars(thr(self))
                                 /\ WF_vars(do_resize(self))
                                 /\ WF_vars(check_resize(self))
                                 /\ WF_vars(ht_count_add(self))
                                 /\ WF_vars(ht_count_del(self))
                                 /\ WF_vars(delete_bucket(self))
                                 /\ WF_vars(partition(self))
                                 /\ WF_vars(target_grow(self))
                                 /\ WF_vars(lazy_launch(self))
                                 /\ WF_vars(lazy_grow(self))
                                 /\ WF_vars(lazy_count(self))
        /\ \A self \in Helpers : /\ WF_vars(helper(self))
                                 /\ WF_vars(check_resize(self))
                                 /\ WF_vars(target_grow(self))
                                 /\ WF_vars(lazy_launch(self))
                                 /\ WF_vars(lazy_grow(self))
        /\ \A self \in {W} : /\ WF_vars(worker(self))
                             /\ WF_vars(do_resize(self))
                             /\ WF_vars(delete_bucket(self))
                             /\ WF_vars(partition(self))
                             /\ WF_vars(target_grow(self))
                             /\ WF_vars(lazy_launch(self))
                             /\ WF_vars(lazy_grow(self))
                             /\ WF_vars(check_resize(self))

\* END TRANSLATION

ThreadsDone == \A t \in Threads : pc[t] = "Done"
AllDone == ThreadsDone /\ wq = <<>> /\ pc[W] = "w_wait" /\ (\A p \in Procs : sb[p] = <<>>) /\ \A h \in Helpers : pc[h] = "hp_reg"
DeadlockFree == AllDone \/ ENABLED Next
\* model checking: quiescence is the only state without a successor (TLC's own deadlock check replaces DeadlockFree)
MCNext == Next \/ (AllDone /\ UNCHANGED vars)
MCSpec == Init /\ [][MCNext]_vars
\* At quiescence a table that is not being destroyed has reached its target -- unless the lazy-resize flag is (still)
\* set although no resize is queued or running (observation O2: __cds_lfht_resize_lazy_launch stores resize_initiated = 1
\* AFTER queueing the work, possibly after the worker has already finished it).
QuiescentConverged == (AllDone /\ htAlive /\ mem["in_progress_destroy"] = 0) =>
                         (mem["size"] = mem["resize_target"] \/ mem["resize_initiated"] = 1)
\* strict form (negative control: TLC must find the lost lazy resize)
QuiescentConvergedStrict == (AllDone /\ htAlive /\ mem["in_progress_destroy"] = 0) => mem["size"] = mem["resize_target"]
\* documented arbitration: a lazy grow is not overridden by a concurrent lazy shrink
GrowWins == (CheckGrowWins /\ AllDone /\ htAlive /\ mem["in_progress_destroy"] = 0) => mem["resize_target"] >= growMax
\* a destroyed table is released exactly by the destroy path, after everything queued before it
DestroyOK == (AllDone /\ \E t \in Threads : \E k \in DOMAIN Prog[t] : Prog[t][k].op = "destroy") =>
                (~htAlive \/ items # 0)
FairSpec == Spec
Returns == <>ThreadsDone                                          \* every call of every scenario thread returns
Quiesces == <>[](ThreadsDone /\ wq = <<>> /\ pc[W] = "w_wait")    \* ... and the queued work (resize, destroy) completes

\* partition_resize_helper(): the partitions handed to the helper threads plus the single-threaded leftover cover
\* [0, len) exactly once, for every pthread_create failure position (pure arithmetic of the C code)
PartCover(len, ncpumask, mpo, failAt) ==
  IF ncpumask < 0 \/ len < 2 * Pow2(mpo) THEN <<{}, [start |-> 0, len |-> len]>>                \* goto fallback
  ELSE LET nt == PartThreads(len, ncpumask, mpo)
           pl == len \div Pow2(Order(nt))
           created == IF failAt >= 0 /\ failAt < nt THEN failAt ELSE nt
           parts == {[start |-> k * pl, len |-> pl] : k \in 0..(created - 1)}
           start == IF created < nt THEN created * pl ELSE 0
           rest == IF created < nt THEN len - start ELSE len IN
       IF start = 0 /\ created > 0 THEN <<parts, [start |-> 0, len |-> 0]>> ELSE <<parts, [start |-> start, len |-> rest]>>
PartExact(len, ncpumask, mpo, failAt) ==
  LET pc_ == PartCover(len, ncpumask, mpo, failAt)
      segs == pc_[1] \cup (IF pc_[2].len > 0 THEN {pc_[2]} ELSE {})
      cover(j) == Cardinality({s \in segs : s.start <= j /\ j < s.start + s.len}) IN
  \A j \in 0..(len - 1) : cover(j) = 1
PartitionOK == \A o \in 1..6 : \A m \in {0 - 2, 0, 1, 3} : \A mpo \in 0..3 : \A f \in (0 - 1)..4 : PartExact(Pow2(o - 1), m, mpo, f)
=============================================================================
