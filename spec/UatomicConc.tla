----------------------------- MODULE UatomicConc -----------------------------
(* C20, schedule dimension, design level: what "uatomic read-modify-write operations are atomic and
   uatomic_xchg / successful uatomic_cmpxchg / uatomic_add_return / uatomic_sub_return are full memory barriers"
   means on x86-TSO (per-thread FIFO store buffers, loads snoop the own buffer, a LOCK'ed instruction executes with
   the issuing thread's buffer drained and reads-modifies-writes memory in one step).

   Scenario "counter": every thread applies Iters operations Op to one location; returned values are collected in
   ghost logs; in every terminal state the logs must satisfy the SAME explainability predicate (UatomicExplain!RmwOK)
   that TLC evaluates on the results of the real 8-thread hammer.
   Scenario "sb": store-buffering litmus  store mine; <Fence op on a private location>; load other.  With a LOCK'ed
   operation the outcome "both loads return 0" is unreachable.

   Negative controls (the plugin requires TLC to FIND the violation): Atomic = FALSE splits the read-modify-write
   into a load and a buffered store (what `xadd' without the `lock' prefix is); Fence = "none", or Locked = FALSE in
   scenario "sb", lets both loads overtake the buffered stores. *)
EXTENDS UatomicExplain, TLC

CONSTANTS TSeq,        \* sequence of thread names, e.g. <<"t1", "t2">>
          Iters,       \* operations per thread
          W,           \* width of the location in bytes
          InitV, DV,   \* initial content and operand (W-byte values)
          Scenario,    \* "counter" | "sb"
          Op,          \* counter: "add_return" | "sub_return" | "cmpxchg" | "xchg"
          Atomic,      \* counter: TRUE = locked instruction, FALSE = separate load and store
          Fence,       \* sb: "none" | "xchg" | "cmpxchg" | "add_return" | "sub_return"
          Locked,      \* sb: the fence operation is a locked instruction
          SBMax        \* bound on the store buffers

Threads == {TSeq[k] : k \in 1..Len(TSeq)}
TIdx(t) == CHOOSE k \in 1..Len(TSeq) : TSeq[k] = t
FlId(t) == "F:" \o t
FlThr(f) == CHOOSE t \in Threads : FlId(t) = f
Mine(t)  == IF TIdx(t) = 1 THEN "x" ELSE "y"
Other(t) == IF TIdx(t) = 1 THEN "y" ELSE "x"
Priv(t)  == "z:" \o t
Locs == {"c", "x", "y"} \cup {Priv(t) : t \in Threads}
Tok(t, k) == NatV(1 + (TIdx(t) - 1) * Iters + (k - 1), W)        \* unique xchg tokens, all different from InitV = 0

(* --algorithm UatomicConc {
  variables mem = [l \in Locs |-> IF l = "c" THEN InitV ELSE ZeroV(W)],
            sb  = [t \in Threads |-> <<>>],          \* store buffers: sequences of <<location, value>>
            res = [t \in Threads |-> <<>>],          \* ghost: values returned to t, in program order
            put = [t \in Threads |-> <<>>],          \* ghost: values stored by t's xchg operations
            rd  = [t \in Threads |-> <<>>];          \* sb: value loaded
  define {
    Drained(t) == sb[t] = <<>>
    Hits(t, l) == {k \in 1..Len(sb[t]) : sb[t][k][1] = l}
    View(t, l) == IF Hits(t, l) = {} THEN mem[l]                     \* a load snoops the own store buffer first
                  ELSE sb[t][CHOOSE k \in Hits(t, l) : \A k2 \in Hits(t, l) : k2 <= k][2]
    Arg(t, k)  == IF Op = "xchg" THEN Tok(t, k) ELSE DV
    SemOp      == IF Op = "cmpxchg" THEN "add" ELSE Op               \* the counter built on cmpxchg(old, old + d)
    NewOf(o, t, k) == Sem(SemOp, o, Arg(t, k), Arg(t, k)).new
    RetOf(o, t, k) == IF Op = "cmpxchg" THEN o ELSE Sem(SemOp, o, Arg(t, k), Arg(t, k)).ret
    FenceSem   == IF Fence = "cmpxchg" THEN "add" ELSE Fence
  }

  process (thr \in Threads)
    variables i = 1, old = <<>>;
  {
  t_top:
    while (i <= Iters) {
      if (Scenario = "sb") {
  s_st:                                                              \* CMM_STORE_SHARED(mine, 1)
        sb[self] := Append(sb[self], <<Mine(self), OneV(W)>>);
  s_op:                                                              \* uatomic_<Fence>(z, ...)  (nothing when "none")
        if (Fence # "none") {
          if (Locked) {
            await Drained(self);
            mem[Priv(self)] := Sem(FenceSem, mem[Priv(self)], OneV(W), OneV(W)).new;
          } else {
            sb[self] := Append(sb[self], <<Priv(self), Sem(FenceSem, View(self, Priv(self)), OneV(W), OneV(W)).new>>);
          }
        };
  s_ld:                                                              \* r = CMM_LOAD_SHARED(other)
        rd[self] := View(self, Other(self));
      } else {
  c_read:                                                            \* cmpxchg loop only: o = uatomic_read(p)
        if (Op = "cmpxchg") { old := View(self, "c") };
  c_rmw:
        if (Atomic) {                                                \* lock; xadd / xchg / lock; cmpxchg
          await Drained(self);
          if (Op = "cmpxchg" /\ mem["c"] # old) {
            goto c_read;                                             \* failed: retry
          } else {
            res[self] := Append(res[self], RetOf(mem["c"], self, i));
            put[self] := Append(put[self], Arg(self, i));
            mem["c"]  := NewOf(mem["c"], self, i);
          }
        } else {                                                     \* NOT atomic: the load ...
          if (Op = "cmpxchg" /\ View(self, "c") # old) {
            goto c_read;
          } else {
            old := View(self, "c");
  c_store:                                                           \* ... and, later, the (buffered) store
            res[self] := Append(res[self], RetOf(old, self, i));
            put[self] := Append(put[self], Arg(self, i));
            sb[self]  := Append(sb[self], <<"c", NewOf(old, self, i)>>);
          }
        }
      };
  t_next:
      i := i + 1;
    }
  }

  process (flusher \in {FlId(t) : t \in Threads})
  {
  f_top:
    while (TRUE) {
      await sb[FlThr(self)] # <<>>;
      mem[sb[FlThr(self)][1][1]] := sb[FlThr(self)][1][2] || sb[FlThr(self)] := Tail(sb[FlThr(self)]);
    }
  }
} *)
\* BEGIN TRANSLATION
VARIABLES pc, mem, sb, res, put, rd

(* define statement *)
Drained(t) == sb[t] = <<>>
Hits(t, l) == {k \in 1..Len(sb[t]) : sb[t][k][1] = l}
View(t, l) == IF Hits(t, l) = {} THEN mem[l]
              ELSE sb[t][CHOOSE k \in Hits(t, l) : \A k2 \in Hits(t, l) : k2 <= k][2]
Arg(t, k)  == IF Op = "xchg" THEN Tok(t, k) ELSE DV
SemOp      == IF Op = "cmpxchg" THEN "add" ELSE Op
NewOf(o, t, k) == Sem(SemOp, o, Arg(t, k), Arg(t, k)).new
RetOf(o, t, k) == IF Op = "cmpxchg" THEN o ELSE Sem(SemOp, o, Arg(t, k), Arg(t, k)).ret
FenceSem   == IF Fence = "cmpxchg" THEN "add" ELSE Fence

VARIABLES i, old

vars == << pc, mem, sb, res, put, rd, i, old >>

ProcSet == (Threads) \cup ({FlId(t) : t \in Threads})

Init == (* Global variables *)
        /\ mem = [l \in Locs |-> IF l = "c" THEN InitV ELSE ZeroV(W)]
        /\ sb = [t \in Threads |-> <<>>]
        /\ res = [t \in Threads |-> <<>>]
        /\ put = [t \in Threads |-> <<>>]
        /\ rd = [t \in Threads |-> <<>>]
        (* Process thr *)
        /\ i = [self \in Threads |-> 1]
        /\ old = [self \in Threads |-> <<>>]
        /\ pc = [self \in ProcSet |-> CASE self \in Threads -> "t_top"
                                        [] self \in {FlId(t) : t \in Threads} -> "f_top"]

t_top(self) == /\ pc[self] = "t_top"
               /\ IF i[self] <= Iters
                     THEN /\ IF Scenario = "sb"
                                THEN /\ pc' = [pc EXCEPT ![self] = "s_st"]
                                ELSE /\ pc' = [pc EXCEPT ![self] = "c_read"]
                     ELSE /\ pc' = [pc EXCEPT ![self] = "Done"]
               /\ UNCHANGED << mem, sb, res, put, rd, i, old >>

t_next(self) == /\ pc[self] = "t_next"
                /\ i' = [i EXCEPT ![self] = i[self] + 1]
                /\ pc' = [pc EXCEPT ![self] = "t_top"]
                /\ UNCHANGED << mem, sb, res, put, rd, old >>

s_st(self) == /\ pc[self] = "s_st"
              /\ sb' = [sb EXCEPT ![self] = Append(sb[self], <<Mine(self), OneV(W)>>)]
              /\ pc' = [pc EXCEPT ![self] = "s_op"]
              /\ UNCHANGED << mem, res, put, rd, i, old >>

s_op(self) == /\ pc[self] = "s_op"
              /\ IF Fence # "none"
                    THEN /\ IF Locked
                               THEN /\ Drained(self)
                                    /\ mem' = [mem EXCEPT ![Priv(self)] = Sem(FenceSem, mem[Priv(self)], OneV(W), OneV(W)).new]
                                    /\ sb' = sb
                               ELSE /\ sb' = [sb EXCEPT ![self] = Append(sb[self], <<Priv(self), Sem(FenceSem, View(self, Priv(self)), OneV(W), OneV(W)).new>>)]
                                    /\ mem' = mem
                    ELSE /\ TRUE
                         /\ UNCHANGED << mem, sb >>
              /\ pc' = [pc EXCEPT ![self] = "s_ld"]
              /\ UNCHANGED << res, put, rd, i, old >>

s_ld(self) == /\ pc[self] = "s_ld"
              /\ rd' = [rd EXCEPT ![self] = View(self, Other(self))]
              /\ pc' = [pc EXCEPT ![self] = "t_next"]
              /\ UNCHANGED << mem, sb, res, put, i, old >>

c_read(self) == /\ pc[self] = "c_read"
                /\ IF Op = "cmpxchg"
                      THEN /\ old' = [old EXCEPT ![self] = View(self, "c")]
                      ELSE /\ TRUE
                           /\ old' = old
                /\ pc' = [pc EXCEPT ![self] = "c_rmw"]
                /\ UNCHANGED << mem, sb, res, put, rd, i >>

c_rmw(self) == /\ pc[self] = "c_rmw"
               /\ IF Atomic
                     THEN /\ Drained(self)
                          /\ IF Op = "cmpxchg" /\ mem["c"] # old[self]
                                THEN /\ pc' = [pc EXCEPT ![self] = "c_read"]
                                     /\ UNCHANGED << mem, res, put >>
                                ELSE /\ res' = [res EXCEPT ![self] = Append(res[self], RetOf(mem["c"], self, i[self]))]
                                     /\ put' = [put EXCEPT ![self] = Append(put[self], Arg(self, i[self]))]
                                     /\ mem' = [mem EXCEPT !["c"] = NewOf(mem["c"], self, i[self])]
                                     /\ pc' = [pc EXCEPT ![self] = "t_next"]
                          /\ old' = old
                     ELSE /\ IF Op = "cmpxchg" /\ View(self, "c") # old[self]
                                THEN /\ pc' = [pc EXCEPT ![self] = "c_read"]
                                     /\ old' = old
                                ELSE /\ old' = [old EXCEPT ![self] = View(self, "c")]
                                     /\ pc' = [pc EXCEPT ![self] = "c_store"]
                          /\ UNCHANGED << mem, res, put >>
               /\ UNCHANGED << sb, rd, i >>

c_store(self) == /\ pc[self] = "c_store"
                 /\ res' = [res EXCEPT ![self] = Append(res[self], RetOf(old[self], self, i[self]))]
                 /\ put' = [put EXCEPT ![self] = Append(put[self], Arg(self, i[self]))]
                 /\ sb' = [sb EXCEPT ![self] = Append(sb[self], <<"c", NewOf(old[self], self, i[self])>>)]
                 /\ pc' = [pc EXCEPT ![self] = "t_next"]
                 /\ UNCHANGED << mem, rd, i, old >>

thr(self) == t_top(self) \/ t_next(self) \/ s_st(self) \/ s_op(self)
                \/ s_ld(self) \/ c_read(self) \/ c_rmw(self)
                \/ c_store(self)

f_top(self) == /\ pc[self] = "f_top"
               /\ sb[FlThr(self)] # <<>>
               /\ /\ mem' = [mem EXCEPT ![sb[FlThr(self)][1][1]] = sb[FlThr(self)][1][2]]
                  /\ sb' = [sb EXCEPT ![FlThr(self)] = Tail(sb[FlThr(self)])]
               /\ pc' = [pc EXCEPT ![self] = "f_top"]
               /\ UNCHANGED << res, put, rd, i, old >>

flusher(self) == f_top(self)

Next == (\E self \in Threads: thr(self))
           \/ (\E self \in {FlId(t) : t \in Threads}: flusher(self))

Spec == Init /\ [][Next]_vars

\* END TRANSLATION

AllDone  == \A t \in Threads : pc[t] = "Done" /\ Drained(t)
SBBound  == \A t \in Threads : Len(sb[t]) <= SBMax
DeadlockFree == AllDone \/ ENABLED Next

(* the ghost logs in the shape of a hammer location record *)
LocRec == [off |-> 0, n |-> Len(TSeq), init |-> InitV, d |-> DV, final |-> mem["c"],
           res |-> [k \in 1..Len(TSeq) |-> res[TSeq[k]]], put |-> [k \in 1..Len(TSeq) |-> put[TSeq[k]]]]
Explainable == (Scenario = "counter" /\ AllDone) => RmwOK(Op, LocRec, Iters)
NoRelaxedOutcome == (Scenario = "sb" /\ \A t \in Threads : pc[t] = "Done")
                       => ~(\A t \in Threads : rd[t] = ZeroV(W))
=============================================================================
