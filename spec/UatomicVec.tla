----------------------------- MODULE UatomicVec -----------------------------
(* C20, input dimension, spec -> code: TLC ENUMERATES the test vectors for the uatomic macros and computes, with the
   semantics of module Uatomic, the memory image and the returned value every vector must produce.

   Coordinates of a vector
     op    every operation of Uatomic!OpNames
     w     width of the location 1,2,4,8            ts   location type signed?
     ow,os C type of the operand(s): 1,2,4,8 bytes, signed?   (operand wider / narrower / other signedness than
           the location: truncation and extension are part of the documented semantics)
     off   every aligned offset of the 16-byte image
     old content of the location and operand(s): byte classes {00,01,7f,80,ff} on the least and the most
           significant byte, {all 00, all ff, seeded fill} on the bytes in between; the rest of the 16-byte image is
           a seeded fill (never 00 / ff, so a clobbered neighbour cannot go unnoticed)
     cmpxchg: the old content is DERIVED from the `old' operand: equal after conversion (success, also when the
           operand is wider than the location and differs beyond it), differing in the lowest / highest / second
           byte only (failure), or an independent class value; `new' from the classes again.
   Enumerated exhaustively: op, w, ts, ow, os, the two extreme-byte classes of the old content and of the first
   operand (and the cmpxchg variant / low class of `new').  Derived from two seeded linear hashes of these
   coordinates (orthogonal-array style, so every value of a derived coordinate meets every value of each
   enumerated one): off, the middle-byte classes, the high class of `new'.  read/inc/dec have few vectors and
   enumerate off and the middle class exhaustively.  K > 1 keeps the slice H1 % K = 0 of the product (quick tier);
   for K <= 5 the class coordinate with unit coefficient guarantees that every (op, w, ts, operand type), every
   literal and -- through H1 \div K -- every offset is still hit, whatever the seed (checked again by the plugin).

   State graph: root -> 96 group states (op, w, ts) -> one state per vector; the invariant Emit prints every vector
   with its expected result as a flat tuple of integers (consumed by tools/props/c20.py and harness/d_uatomic.c). *)
EXTENDS Uatomic, TLC
CONSTANTS Seed,       \* 0 .. 99999
          K           \* sampling modulus (1 = the whole product)

E      == <<0, 1, 127, 128, 255>>
NE     == 5
Width(wi) == 2 ^ (wi - 1)

FillB(s, j) == 1 + ((s * 31 + j * 101 + j * j * 7) % 253)            \* 1 .. 253
FillMem(s)  == [j \in 1..MemSize |-> FillB(s, j)]

(* value of n bytes from classes: lo / hi index into E, mid in 0..2 *)
ClassVal(n, lo, hi, mid, s) ==
    [i \in 1..n |-> IF i = 1 THEN E[lo]
                    ELSE IF i = n THEN E[hi]
                    ELSE IF mid = 0 THEN 0 ELSE IF mid = 1 THEN 255 ELSE FillB(s + 3, i + 20)]
Pad8(x) == [i \in 1..8 |-> IF i <= Len(x) THEN x[i] ELSE 0]
HiSet(n) == IF n = 1 THEN {1} ELSE 1..NE         \* a single byte has one class coordinate only

H1(opi, wi, ts, owi, os, mlo, mhi, alo, ahi, x, y) ==
    Seed + 11 * opi + 7 * wi + 3 * ts + 5 * owi + 13 * os + mlo + 2 * mhi + 3 * alo + 5 * ahi + 7 * x + y
H2(opi, wi, ts, owi, os, mlo, mhi, alo, ahi, x, y) ==
    (Seed \div 7) + 3 * opi + wi + 5 * ts + 7 * owi + os + 2 * mlo + 3 * mhi + 5 * alo + alo * mlo + 7 * ahi
    + 11 * x + 2 * y + x * y

MkVecI(op, w, off, ts, ow, os, a, b, old, s, imm) ==
    [op |-> op, w |-> w, off |-> off, ts |-> ts, ow |-> ow, os |-> os, imm |-> imm,
     a |-> Pad8(a), b |-> Pad8(b), m0 |-> Store(FillMem(s), off, old)]

MkVec(op, w, off, ts, ow, os, a, b, old, s) == MkVecI(op, w, off, ts, ow, os, a, b, old, s, 0)

(* literal operands: in the driver these are compile-time constants, which take the immediate-operand alternatives
   of the asm constraints ("iq", "ir", "er") / constant folding of the builtins.  Same table as LITS in
   harness/d_uatomic.c: C literal, its type (bytes, signed), its bytes; nxt = literal used as cmpxchg `new'. *)
Lits == << [ow |-> 4, os |-> 1, v |-> <<0, 0, 0, 0>>,         nxt |-> 2],     \* 0
           [ow |-> 4, os |-> 1, v |-> <<1, 0, 0, 0>>,         nxt |-> 3],     \* 1
           [ow |-> 4, os |-> 1, v |-> <<255, 255, 255, 255>>, nxt |-> 4],     \* -1
           [ow |-> 4, os |-> 1, v |-> <<127, 0, 0, 0>>,       nxt |-> 5],     \* 0x7f
           [ow |-> 4, os |-> 1, v |-> <<128, 0, 0, 0>>,       nxt |-> 6],     \* 0x80
           [ow |-> 4, os |-> 1, v |-> <<255, 0, 0, 0>>,       nxt |-> 7],     \* 0xff
           [ow |-> 4, os |-> 1, v |-> <<255, 255, 255, 127>>, nxt |-> 8],     \* 0x7fffffff
           [ow |-> 4, os |-> 1, v |-> <<0, 0, 0, 128>>,       nxt |-> 1],     \* (-0x7fffffff - 1)
           [ow |-> 4, os |-> 0, v |-> <<0, 0, 0, 128>>,       nxt |-> 9],     \* 0x80000000U
           [ow |-> 8, os |-> 0, v |-> <<255, 255, 255, 255, 0, 0, 0, 0>>, nxt |-> 10],   \* 0xffffffffUL
           [ow |-> 8, os |-> 0, v |-> <<0, 0, 0, 0, 0, 0, 0, 128>>,       nxt |-> 11],   \* 0x8000000000000000UL
           [ow |-> 8, os |-> 1, v |-> <<127, 255, 255, 255, 255, 255, 255, 255>>, nxt |-> 12] >>   \* -129L

VARIABLES ph, grp, vec
vars == <<ph, grp, vec>>

Groups == {<<o, wi, ts>> : o \in 1..Len(OpNames), wi \in 1..4, ts \in 0..1}

(* vectors of an operation with one operand *)
OneArg(opi, wi, ts) ==
    \E owi \in 1..4, os \in 0..1, mlo \in 1..NE, alo \in 1..NE :
    \E mhi \in HiSet(Width(wi)), ahi \in HiSet(Width(owi)) :
       LET h1 == H1(opi, wi, ts, owi, os, mlo, mhi, alo, ahi, 0, 0)
           h2 == H2(opi, wi, ts, owi, os, mlo, mhi, alo, ahi, 0, 0)
           w  == Width(wi)   ow == Width(owi)
           s  == h1 % 10007
       IN /\ h1 % K = 0
          /\ vec' = MkVec(OpNames[opi], w, w * ((h1 \div K) % (MemSize \div w)), ts, ow, os,
                          ClassVal(ow, alo, ahi, (h2 \div 3) % 3, s + 1), <<>>,
                          ClassVal(w, mlo, mhi, h2 % 3, s), s)

(* read / inc / dec: no operand (ow, os reported as the location's own type) *)
NoArg(opi, wi, ts) ==
    \E mlo \in 1..NE, mid \in 0..2, offi \in 0..(MemSize \div Width(wi)) - 1 :
    \E mhi \in HiSet(Width(wi)) :
       LET w == Width(wi)
           s == H1(opi, wi, ts, 0, 0, mlo, mhi, 0, 0, mid, offi) % 10007
       IN /\ (mid = 0 \/ w > 2)                \* widths 1, 2 have no middle byte
          /\ vec' = MkVec(OpNames[opi], w, w * offi, ts, w, ts, <<>>, <<>>, ClassVal(w, mlo, mhi, mid, s), s)

(* cmpxchg: variant mv 1 = equal (success), 2/3/4 = lowest / highest / second byte differs, 5..9 = independent *)
Bump(v, i, d) == [v EXCEPT ![i] = (v[i] + d) % 256]
Cas(opi, wi, ts) ==
    \E owi \in 1..4, os \in 0..1, alo \in 1..NE, mv \in 1..9, blo \in 1..NE :
    \E ahi \in HiSet(Width(owi)) :
       LET h1 == H1(opi, wi, ts, owi, os, 0, 0, alo, ahi, mv, blo)
           h2 == H2(opi, wi, ts, owi, os, 0, 0, alo, ahi, mv, blo)
           w  == Width(wi)   ow == Width(owi)
           s  == h1 % 10007
           a  == ClassVal(ow, alo, ahi, (h2 \div 3) % 3, s + 1)
           b  == ClassVal(ow, blo, 1 + ((h2 \div 9) % NE), (h2 \div 45) % 3, s + 2)
           eq == Conv(a, os, w)
           old == CASE mv = 1 -> eq
                    [] mv = 2 -> Bump(eq, 1, 1)
                    [] mv = 3 -> Bump(eq, w, 128)
                    [] mv = 4 -> Bump(eq, IF w > 1 THEN 2 ELSE 1, 255)
                    [] OTHER  -> ClassVal(w, mv - 4, IF w = 1 THEN 1 ELSE 1 + (h2 % NE), (h2 \div 5) % 3, s)
       IN /\ h1 % K = 0
          /\ vec' = MkVec(OpNames[opi], w, w * ((h1 \div K) % (MemSize \div w)), ts, ow, os, a, b, old, s)

(* literal operand(s); cmpxchg variants as in Cas, 5 = independent class value *)
Imm(opi, wi, ts) ==
    \E k \in 1..Len(Lits), mlo \in 1..NE, mv \in 1..5 :
    \E mhi \in HiSet(Width(wi)) :
       LET isCas == OpNames[opi] \in TwoArgOps
           h1 == H1(opi, wi, ts, 9, 0, mlo, mhi, k, 0, mv, 0)
           h2 == H2(opi, wi, ts, 9, 0, mlo, mhi, k, 0, mv, 0)
           w  == Width(wi)
           s  == h1 % 10007
           L  == Lits[k]
           eq == Conv(L.v, L.os, w)
           cls == ClassVal(w, mlo, mhi, h2 % 3, s)
           old == IF ~isCas THEN cls
                  ELSE CASE mv = 1 -> eq
                         [] mv = 2 -> Bump(eq, 1, 1)
                         [] mv = 3 -> Bump(eq, w, 128)
                         [] mv = 4 -> Bump(eq, IF w > 1 THEN 2 ELSE 1, 255)
                         [] OTHER  -> cls
       IN /\ (isCas \/ mv = 1)
          /\ (isCas /\ mv < 5) => (mlo = 1 /\ mhi = 1)
          /\ (Seed + k + mlo + mhi + mv) % K = 0          \* K <= 5: every literal stays covered for every (op, w, ts)
          /\ vec' = MkVecI(OpNames[opi], w, w * (h1 % (MemSize \div w)), ts, L.ow, L.os,
                           L.v, IF isCas THEN Lits[L.nxt].v ELSE <<>>, old, s, k)

Init == ph = 0 /\ grp = <<0, 0, 0>> /\ vec = <<>>
Next == \/ /\ ph = 0 /\ ph' = 1 /\ grp' \in Groups /\ vec' = <<>>
        \/ /\ ph = 1 /\ ph' = 2 /\ grp' = grp
           /\ LET op == OpNames[grp[1]] IN
              IF op \in NoArgOps THEN NoArg(grp[1], grp[2], grp[3])
              ELSE IF op \in TwoArgOps THEN Cas(grp[1], grp[2], grp[3]) \/ Imm(grp[1], grp[2], grp[3])
              ELSE OneArg(grp[1], grp[2], grp[3]) \/ Imm(grp[1], grp[2], grp[3])
Spec == Init /\ [][Next]_vars

OpIndex(op) == CHOOSE i \in 1..Len(OpNames) : OpNames[i] = op
Expected(v) == Exec(v.m0, v.op, v.w, v.off, v.ts, v.ow, v.os, v.a, v.b)
Flat(v) == LET x == Expected(v) IN
           <<777001, OpIndex(v.op), v.w, v.off, v.ts, v.ow, v.os, v.imm>> \o v.a \o v.b \o v.m0
           \o x.mem \o <<IF v.op \in RetOps THEN 1 ELSE 0>> \o x.ret \o <<777002>>

WellFormed(v) == /\ v.op \in OpSet /\ v.w \in WidthSet /\ v.ow \in WidthSet /\ Aligned(v.off, v.w)
                 /\ IsValue(v.a, 8) /\ IsValue(v.b, 8) /\ IsValue(v.m0, MemSize)
                 /\ \A i \in 1..8 : i > v.ow => v.a[i] = 0 /\ v.b[i] = 0
(* sanity of the semantics itself on every enumerated vector: neighbours untouched, width respected *)
SemSane(v) == LET x == Expected(v) IN
              /\ IsValue(x.mem, MemSize) /\ IsValue(x.ret, 8)
              /\ \A j \in 1..MemSize : (j <= v.off \/ j > v.off + v.w) => x.mem[j] = v.m0[j]
              /\ (v.op \in RetOps /\ v.ts = 0) => \A i \in 1..8 : i > v.w => x.ret[i] = 0
Emit == ph = 2 => /\ WellFormed(vec) /\ SemSane(vec) /\ PrintT(Flat(vec))
=============================================================================
