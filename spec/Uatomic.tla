------------------------------ MODULE Uatomic ------------------------------
(* C20 -- byte-level sequential semantics of the uatomic_* operations of <urcu/uatomic.h> as documented in
   doc/uatomic-api.md ("type uatomic_xxx(type * addr, type v)"):

     * memory is a tuple of 16 bytes; an operation of width w in {1,2,4,8} at the aligned offset `off` reads and
       writes exactly the bytes off+1 .. off+w of that tuple (little endian: tuple index 1 = least significant
       byte = lowest address), every other byte is left untouched;
     * an operand supplied as a C expression of an integer type of `ow` bytes, signed (os = 1) or unsigned
       (os = 0), is first converted to the type of the location ("type v"): truncated when ow >= w, sign- or
       zero-extended according to the OPERAND's signedness when ow < w;
     * arithmetic is modulo 2^w with carry propagating through the w bytes and nowhere else;
     * the returned value has the type of the location: w bytes, and -- when the caller widens it to 64 bits -- it
       is sign-extended iff the location's type is signed (ts = 1).

   8-byte quantities never appear as one integer (TLC integers are 32 bits): every value is a tuple of bytes.
   The module is purely constant-level (no variables, no constants): it is extended by UatomicVec (TLC enumerates
   the test vectors and the expected results), UatomicTrace (TLC validates what the real macros did),
   UatomicHammer (explainability of concurrent results) and UatomicConc (atomicity / fence model under x86-TSO). *)
EXTENDS Naturals, Sequences

Byte      == 0..255
OpNames   == <<"set", "read", "xchg", "cmpxchg", "add_return", "sub_return",
               "add", "sub", "inc", "dec", "and", "or">>
OpSet     == {OpNames[i] : i \in 1..Len(OpNames)}
RetOps    == {"read", "xchg", "cmpxchg", "add_return", "sub_return"}     \* operations that return a value
NoArgOps  == {"read", "inc", "dec"}                                      \* operations without operand
TwoArgOps == {"cmpxchg"}
WidthSet  == {1, 2, 4, 8}
MemSize   == 16

----------------------------------------------------------------------------
(* bitwise operations on bytes: 4-bit table, two nibbles per byte *)
Bit(x, k)  == (x \div (2 ^ k)) % 2
NibAndTab  == [x \in 0..15 |-> [y \in 0..15 |->
                  Bit(x,0)*Bit(y,0) + 2*Bit(x,1)*Bit(y,1) + 4*Bit(x,2)*Bit(y,2) + 8*Bit(x,3)*Bit(y,3)]]
ByteAnd(x, y) == NibAndTab[x % 16][y % 16] + 16 * NibAndTab[x \div 16][y \div 16]
ByteOr(x, y)  == x + y - ByteAnd(x, y)

----------------------------------------------------------------------------
(* values = little-endian byte tuples of equal length *)
ZeroV(n)   == [i \in 1..n |-> 0]
OneV(n)    == [i \in 1..n |-> IF i = 1 THEN 1 ELSE 0]
IsValue(x, n) == /\ Len(x) = n /\ \A i \in 1..n : x[i] \in Byte

RECURSIVE AddC(_, _, _, _)
AddC(a, b, i, c) ==                       \* bytes i..Len(a) of a+b with incoming carry c; the last carry is dropped
    IF i > Len(a) THEN <<>>
    ELSE LET s == a[i] + b[i] + c IN <<s % 256>> \o AddC(a, b, i + 1, s \div 256)
AddV(a, b) == AddC(a, b, 1, 0)
NotV(a)    == [i \in 1..Len(a) |-> 255 - a[i]]
NegV(a)    == AddV(NotV(a), OneV(Len(a)))                 \* two's complement
SubV(a, b) == AddV(a, NegV(b))
AndV(a, b) == [i \in 1..Len(a) |-> ByteAnd(a[i], b[i])]
OrV(a, b)  == [i \in 1..Len(a) |-> ByteOr(a[i], b[i])]

(* C integer conversion of the value x (Len(x) bytes, signed iff sg = 1) to a type of n bytes *)
Conv(x, sg, n) == [i \in 1..n |-> IF i <= Len(x) THEN x[i]
                                  ELSE IF sg = 1 /\ x[Len(x)] >= 128 THEN 255 ELSE 0]
Low(x, n) == [i \in 1..n |-> x[i]]

(* n * d (mod 2^Len(d)) for a small natural n <= 2^22: byte-wise with carry, every intermediate < 2^31 *)
RECURSIVE ScaleC(_, _, _, _)
ScaleC(d, n, i, c) == IF i > Len(d) THEN <<>>
                      ELSE LET s == d[i] * n + c IN <<s % 256>> \o ScaleC(d, n, i + 1, s \div 256)
ScaleV(d, n) == ScaleC(d, n, 1, 0)

----------------------------------------------------------------------------
(* memory images *)
Load(m, off, w)  == [i \in 1..w |-> m[off + i]]
Store(m, off, v) == [j \in 1..Len(m) |-> IF j > off /\ j <= off + Len(v) THEN v[j - off] ELSE m[j]]
Aligned(off, w)  == off % w = 0 /\ off + w <= MemSize

(* the operation proper, on values of the location's width; a, b already converted to that width.
   new = content of the location afterwards, ret = returned value (meaningful for RetOps only) *)
Sem(op, old, a, b) ==
    CASE op = "set"        -> [new |-> a,                          ret |-> old]
      [] op = "read"       -> [new |-> old,                        ret |-> old]
      [] op = "xchg"       -> [new |-> a,                          ret |-> old]
      [] op = "cmpxchg"    -> [new |-> IF old = a THEN b ELSE old, ret |-> old]   \* old value also on failure
      [] op = "add_return" -> [new |-> AddV(old, a),               ret |-> AddV(old, a)]
      [] op = "sub_return" -> [new |-> SubV(old, a),               ret |-> SubV(old, a)]
      [] op = "add"        -> [new |-> AddV(old, a),               ret |-> old]
      [] op = "sub"        -> [new |-> SubV(old, a),               ret |-> old]
      [] op = "inc"        -> [new |-> AddV(old, OneV(Len(old))),  ret |-> old]
      [] op = "dec"        -> [new |-> SubV(old, OneV(Len(old))),  ret |-> old]
      [] op = "and"        -> [new |-> AndV(old, a),               ret |-> old]
      [] op = "or"         -> [new |-> OrV(old, a),                ret |-> old]

(* One call  uatomic_<op>(p, (O) a [, (O) b])  where p = mem + off has type pointer-to-T,  with sizeof(T) = w, T signed iff ts = 1,
   sizeof(O) = ow, O signed iff os = 1; araw/braw = the ow bytes of the operands.
   Result: memory image afterwards, and the returned value widened to 8 bytes as C does for type T
   (all-zero for operations returning void). *)
Exec(m, op, w, off, ts, ow, os, araw, braw) ==
    LET old == Load(m, off, w)
        s   == Sem(op, old, Conv(Low(araw, ow), os, w), Conv(Low(braw, ow), os, w))
    IN  [mem |-> Store(m, off, s.new),
         ret |-> IF op \in RetOps THEN Conv(s.ret, ts, 8) ELSE ZeroV(8)]

(* n-fold application of one operand-taking arithmetic operation (closed form used for the big hammer runs) *)
RECURSIVE Iter(_, _, _, _)
Iter(op, v, a, n) == IF n = 0 THEN v ELSE Iter(op, Sem(op, v, a, a).new, a, n - 1)
Delta(op, a) == CASE op \in {"add_return", "add"} -> a
                  [] op \in {"sub_return", "sub"} -> NegV(a)
                  [] op = "inc" -> OneV(Len(a))
                  [] op = "dec" -> NegV(OneV(Len(a)))
IterClosed(op, v, a, n) == AddV(v, ScaleV(Delta(op, a), n))
=============================================================================
