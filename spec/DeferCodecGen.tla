---------------------------- MODULE DeferCodecGen ----------------------------
(***************************************************************************)
(* C13, spec -> code: behaviours of DeferCodec as inputs and expected       *)
(* observations for the real defer_rcu() / rcu_defer_barrier_thread().      *)
(* hist records, for every step, the call made, the (function, argument)    *)
(* pairs the specification invokes during it and the ring image after it.   *)
(* Model checking (breadth-first) with GenLen = k emits EVERY behaviour of  *)
(* k steps; `tlc -simulate` emits random long ones.  tools/props/c13.py     *)
(* replays them through harness/d_defer.c (codec mode) and compares.        *)
(***************************************************************************)
EXTENDS DeferCodec, Sequences, Json

CONSTANT GenLen      \* number of steps of the emitted behaviours
VARIABLE hist
gvars == <<cvars, hist>>

Rec(op, f, p, cb) == [op |-> op, f |-> f, p |-> p, cb |-> cb, img |-> Image(ring', head', tail', lfi', lfo')]
GInit == Init /\ hist = <<[op |-> "case", h0 |-> head]>>
GNext == /\ Len(hist) <= GenLen
         /\ \/ \E f \in FAlpha, p \in PAlpha :
                 Defer(f, p) /\ hist' = Append(hist, Rec("d", f, p, IF Sub(head, tail) >= Q - 2 THEN Drain.calls ELSE <<>>))
            \/ Barrier /\ hist' = Append(hist, Rec("b", "-", "-", Drain.calls))
GSpec == GInit /\ [][GNext]_gvars
Emit == (Len(hist) = GenLen + 1) => PrintT(<<"SEQ", ToJson(hist), ToJson([pend |-> pend])>>)
=============================================================================
