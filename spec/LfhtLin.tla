------------------------------- MODULE LfhtLin -------------------------------
(***************************************************************************)
(* The cds_lfht hash table as an ATOMIC object for linearizability         *)
(* checking of concurrent histories (C05/C06/C07): a multiset per key,     *)
(* represented as the set of user nodes present (every node has a fixed    *)
(* hash and key: NodeHash, NodeKey).  Same sequential semantics as         *)
(* LfhtAbs (C08) with the list ORDER abstracted away: under concurrency    *)
(* the position of a node inside an equal-hash run is not observable       *)
(* atomically (add appends, add_unique prepends), so                       *)
(*   lookup(h, k)   returns SOME present node with hash h and key k, NULL  *)
(*                  iff there is none;                                     *)
(*   add_unique(n)  inserts n and returns it iff no node matches, else     *)
(*                  returns SOME matching node;                            *)
(*   add_replace(n) inserts n and returns NULL if no node matches, else    *)
(*                  atomically replaces THE matching node and returns it   *)
(*                  (scenarios keep keys used with add_replace unique);    *)
(*   replace(o, n)  0 iff o is present (n takes its place), -ENOENT        *)
(*                  otherwise (-EINVAL: hash / key of o and n differ);     *)
(*   del(n)         0 iff n is present, -ENOENT otherwise (also for NULL); *)
(*   destroy        0 iff the table is empty, -EPERM otherwise.            *)
(* Set-valued results are encoded as strings "L:n1,n3" / "U:n1,n3" and     *)
(* compared with the node actually returned by ResOk, so that the shared   *)
(* LinMon module (deterministic Apply) is used unchanged: Return keeps the *)
(* configurations of LinMon's closure whose recorded result ACCEPTS the    *)
(* returned value.                                                         *)
(***************************************************************************)
EXTENDS Naturals, Sequences, FiniteSets, TLC

CONSTANTS Threads,    \* set of thread ids (strings)
          NodeHash,   \* [user node name -> hash (small natural)]
          NodeKey     \* [user node name -> key (string)]

NULL == "NULL"
UserNodes == DOMAIN NodeHash

RECURSIVE Join(_)
Join(s) == IF s = <<>> THEN "" ELSE IF Len(s) = 1 THEN s[1] ELSE s[1] \o "," \o Join(Tail(s))
Elems(s) == {s[j] : j \in DOMAIN s}
\* a fixed enumeration of the user nodes (any one: it only makes the encoding of sets canonical)
NodeOrder == CHOOSE s \in [1..Cardinality(UserNodes) -> UserNodes] : \A a, b \in 1..Cardinality(UserNodes) : a # b => s[a] # s[b]
EncSet(S) == Join(SelectSeq(NodeOrder, LAMBDA x : x \in S))
SetOf == [e \in {"L:" \o EncSet(S) : S \in SUBSET UserNodes} \cup {"U:" \o EncSet(S) : S \in SUBSET UserNodes} |->
            CHOOSE S \in SUBSET UserNodes : e \in {"L:" \o EncSet(S), "U:" \o EncSet(S)}]
\* result d recorded by the abstract object accepts the value r returned by the implementation
ResOk(d, r) == IF d \in DOMAIN SetOf THEN (IF SetOf[d] = {} THEN r = NULL ELSE r \in SetOf[d]) ELSE d = r

Matching(abs, h, k) == {m \in abs : NodeHash[m] = h /\ NodeKey[m] = k}
MatchN(abs, n) == Matching(abs, NodeHash[n], NodeKey[n])

HApply(abs, o, stage, t) ==
  CASE o.op = "add"     -> [abs |-> abs \cup {o.n}, res |-> "ok"]
    [] o.op = "addu"    -> IF MatchN(abs, o.n) = {} THEN [abs |-> abs \cup {o.n}, res |-> o.n]
                           ELSE [abs |-> abs, res |-> "U:" \o EncSet(MatchN(abs, o.n))]
    [] o.op = "addr"    -> IF MatchN(abs, o.n) = {} THEN [abs |-> abs \cup {o.n}, res |-> NULL]
                           ELSE LET m == CHOOSE x \in MatchN(abs, o.n) : TRUE IN [abs |-> (abs \ {m}) \cup {o.n}, res |-> m]
    [] o.op = "repl"    -> IF o.old = NULL THEN [abs |-> abs, res |-> "-ENOENT"]
                           ELSE IF NodeHash[o.old] # NodeHash[o.n] \/ NodeKey[o.old] # NodeKey[o.n] THEN [abs |-> abs, res |-> "-EINVAL"]
                           ELSE IF o.old \in abs THEN [abs |-> (abs \ {o.old}) \cup {o.n}, res |-> "0"]
                           ELSE [abs |-> abs, res |-> "-ENOENT"]
    [] o.op = "del"     -> IF o.n # NULL /\ o.n \in abs THEN [abs |-> abs \ {o.n}, res |-> "0"] ELSE [abs |-> abs, res |-> "-ENOENT"]
    [] o.op = "lookup"  -> [abs |-> abs, res |-> "L:" \o EncSet(Matching(abs, o.h, o.k))]
    [] o.op = "destroy" -> [abs |-> abs, res |-> IF abs = {} THEN "0" ELSE "-EPERM"]
    [] OTHER            -> [abs |-> abs, res |-> "-"]

LM == INSTANCE LinMon WITH Apply <- HApply, Thr <- Threads
\* thread t returns r: LinMon!AfterReturn with result ACCEPTANCE instead of equality
HReturn(cfgs, pend, t, r) == {[c EXCEPT !.done[t] = LM!NL] : c \in {d \in LM!Close(cfgs, pend) : ResOk(d.done[t], r)}}
\* operations that take part in the history (the others -- traversals, reclaim, resize, wait -- have no atomic specification)
LinOps == {"add", "addu", "addr", "repl", "del", "lookup", "destroy"}
=============================================================================
