---- MODULE LfhtNew ----
(* C08: parameter normalisation of _cds_lfht_new_with_alloc() (src/rculfhash.c:1651-1712) and of the three
   alloc_cds_lfht() plugins (rculfhash-mm-order.c:65, -chunk.c:63, -mmap.c:180).  Pure operators, no state.

   All accepted sizes are powers of two, so the normalised values are given as ORDERS (log2); this also keeps the
   "infinite" maximum of the order allocator (1UL << (MAX_TABLE_ORDER - 1) = 2^63) inside TLC's 32-bit integers.
   Raw inputs are small integers (<= 2^30).

   Platform constants come with the recorded trace (record `plat`): pbo = log2(getpagesize() / sizeof(struct
   cds_lfht_node)), mto = MAX_TABLE_ORDER.  *)
EXTENDS Integers

MaxI(a, b) == IF a > b THEN a ELSE b
MinI(a, b) == IF a < b THEN a ELSE b

IsPow2(x) == x > 0 /\ \E k \in 0..30 : x = 2^k            \* x && !(x & (x - 1))
Log2(x) == CHOOSE k \in 0..30 : x = 2^k                   \* cds_lfht_get_count_order_ulong of a power of two

MmNames == {"order", "chunk", "mmap"}                     \* "default" = NULL mm argument

Rejected == [ok |-> FALSE, mm |-> "-", sizeo |-> 0, mino |-> 0, maxo |-> 0, nchunks |-> 0]

(* get_mm_type(max_nr_buckets), 64-bit build: mmap when 0 < max <= 2^32 (every raw input here), else order *)
DefaultMm(max) == IF max # 0 THEN "mmap" ELSE "order"

Norm(init, min, max, mm, plat) ==
  IF ~IsPow2(min) THEN Rejected                                           \* rculfhash.c:1665
  ELSE IF ~IsPow2(init) THEN Rejected                                     \* :1669
  ELSE LET mm1 == IF mm = "default" THEN DefaultMm(max) ELSE mm           \* :1675
           inf == mm1 = "order" /\ max = 0                                \* :1679  max := 1UL << (MAX_TABLE_ORDER - 1)
       IN IF ~inf /\ ~IsPow2(max) THEN Rejected                           \* :1683
          ELSE LET mino0 == Log2(min)                                     \* max(min, MIN_TABLE_SIZE = 1): no effect
                   inito == Log2(init)
                   maxo == MaxI(IF inf THEN plat.mto - 1 ELSE Log2(max), mino0)    \* :1691 max = max(max, min)
                   sizeo == MinI(inito, maxo)                                      \* :1692 init = min(init, max)
                   \* per-allocator adjustment of min_nr_alloc_buckets in alloc_cds_lfht()
                   mino == CASE mm1 = "order" -> mino0
                             [] mm1 = "chunk" -> MaxI(mino0, maxo - 10)           \* max(min, max / MAX_CHUNK_TABLE)
                             [] mm1 = "mmap" -> IF maxo <= plat.pbo THEN maxo      \* small table: min := max
                                                ELSE MaxI(mino0, plat.pbo)         \* large table: at least one page
                   nchunks == IF mm1 = "chunk" THEN 2^(maxo - mino) ELSE 0         \* max / min_nr_alloc_buckets
               IN [ok |-> TRUE, mm |-> mm1, sizeo |-> sizeo, mino |-> mino, maxo |-> maxo, nchunks |-> nchunks]

(* Properties of the normalisation, checked by TLC over the whole input grid (LfhtGen!NormOK) *)
NormSane(c) == c.ok => /\ c.mm \in MmNames
                       /\ 0 <= c.sizeo /\ c.sizeo <= c.maxo
                       /\ 0 <= c.mino /\ c.mino <= c.maxo
                       /\ (c.mm = "chunk" => c.nchunks >= 1 /\ c.nchunks <= 1024)
====
