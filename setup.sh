#!/bin/sh
# Offline setup: verify the tools the checks need; everything else is rebuilt by each check from /repo's working tree.
set -e
cd "$(dirname "$0")"
command -v java >/dev/null && command -v gcc >/dev/null && command -v python3 >/dev/null
test -f /opt/veriftools/tla/tla2tools.jar
mkdir -p build out evidence spec/gen
gcc -O1 -g -D_GNU_SOURCE -I harness -c harness/vrt.c -o build/vrt_probe.o
echo "setup ok"
