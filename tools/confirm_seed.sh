#!/bin/sh
# usage: tools/confirm_seed.sh <worktree> <k> <seed-id>
# Confirms a seeded change produced by a mutation agent in its scratch worktree (OUT/patch<k>.diff, OUT/demo<k>/run.sh,
# OUT/meta<k>.json): applies it, rebuilds, runs the existing test suite (must pass), runs the demonstration (must fail),
# reverts, rebuilds, runs the demonstration again (must pass).  On success the change is stored as /verif/seeded/<seed-id>/.
set -u
wt=$1; k=$2; id=$3
V=$(cd "$(dirname "$0")/.." && pwd)
log=$wt/OUT/confirm$k.log
: > "$log"
cd "$wt" || exit 2
git checkout -q -- . 2>/dev/null
git apply --check "OUT/patch$k.diff" || { echo "$id: patch does not apply"; exit 1; }
git apply "OUT/patch$k.diff"
make -j4 >> "$log" 2>&1 || { echo "$id: does not build"; git checkout -q -- .; exit 1; }
make -k check > "OUT/confirm_check$k.log" 2>&1; crc=$?
tot=$(grep -E "^# (TOTAL|PASS|FAIL|ERROR):" "OUT/confirm_check$k.log" | sort -u | tr '\n' ' ')
fails=$(grep -E "^# (FAIL|ERROR): +[1-9]" "OUT/confirm_check$k.log" | wc -l)
timeout 600 sh "OUT/demo$k/run.sh" "$wt" >> "$log" 2>&1; d1=$?
git checkout -q -- .
make -j4 >> "$log" 2>&1
timeout 600 sh "OUT/demo$k/run.sh" "$wt" >> "$log" 2>&1; d2=$?
echo "$id: suite rc=$crc failing-summaries=$fails [$tot] demo-with-change rc=$d1 demo-without rc=$d2"
if [ $crc -eq 0 ] && [ $fails -eq 0 ] && [ $d1 -ne 0 ] && [ $d2 -eq 0 ]; then
	d=$V/seeded/$id; rm -rf "$d"; mkdir -p "$d"
	cp "OUT/patch$k.diff" "$d/patch.diff"; cp -r "OUT/demo$k" "$d/demo"
	python3 - "$wt/OUT/meta$k.json" "$d/meta.json" "$id" "$tot" "$d1" "$d2" <<'E'
import json, sys
src, dst, sid, tot, d1, d2 = sys.argv[1:7]
try: m = json.load(open(src))
except Exception: m = {}
m["seed_id"] = sid
m["confirmed_by_coordinator"] = {"suite_with_change": tot.strip(), "demo_with_change_rc": int(d1), "demo_without_change_rc": int(d2),
  "procedure": "git apply patch.diff in a scratch worktree; make; make -k check (all pass); demo/run.sh <tree> (fails); git checkout -- .; make; demo/run.sh <tree> (passes)"}
json.dump(m, open(dst, "w"), indent=1)
E
	echo "$id: CONFIRMED -> $d"
else
	echo "$id: NOT confirmed"
fi
