#!/bin/sh
# usage: tools/seedtest.sh <patch.diff> <property-id> [tier]
# Runs ./check <id> against a scratch copy of /repo's working tree with the seeded change applied (the copy lives under
# /tmp/seed_<pid>_$$ and is removed afterwards; /repo itself is not touched, so running builders/checks are not disturbed).
# Prints the check's verdict lines; exit status = the check's (1 = detected).
set -u
patch=$(readlink -f "$1"); pid=$2; tier=${3:-quick}
d=/tmp/seed_${pid}_$$
mkdir -p "$d/repo" && cp -a /repo/include /repo/src "$d/repo/" || exit 2
( cd "$d/repo" && patch -p1 -s < "$patch" ) || { echo "patch does not apply"; rm -rf "$d"; exit 2; }
cd "$(dirname "$0")/.." || exit 2
VERIF_REPO="$d/repo" VERIF_WORK="$d/w" ./check "$pid" --tier "$tier" > "$d/log" 2>&1
rc=$?
grep -E "^(VIOLATION|KNOWN-FINDING|PASS|FAIL|CHECK-ERROR|  detail)" "$d/log" | cut -c1-500
if [ "${KEEP:-0}" = 1 ]; then echo "kept: $d"; else rm -rf "$d"; fi
exit $rc
