#!/usr/bin/env python3
"""Counterexample confirmation for the QSBR component (DESIGN 2.5 / 2.6).

A fence removed or a seq_cst store weakened in urcu-qsbr breaks C01/C02 only under store-buffer delays that seeded
schedulers reach rarely; the recorded trace, however, shows the missing event in every execution.  This tool turns that
syntactic difference into a semantic verdict: TLC checks the scenario with the corresponding label in Skip / Weak; a
counterexample is converted into a VSCHED schedule (thread steps and store-buffer flushes) and forced onto the real code
(normally a mutated scratch copy selected with VERIF_REPO) under software TSO.

  usage: VERIF_REPO=/tmp/copy tools/qsbr_confirm.py <scenario> [--skip l1,l2] [--weak l1] [--faults n]
  exit 0: counterexample found and the real code hit an oracle along it (violation confirmed)
       1: counterexample found, but the real code did not fail along it (model more permissive than the executed code)
       2: TLC found no counterexample within the bounds (the difference is drift-verified for this scenario)
"""
import sys, os, json, re, argparse
sys.path.insert(0, os.path.dirname(os.path.abspath(__file__)))
from vlib import *
import conc
from props.qsbr_parts import qsbr_component

SILENT = {"t_ret", "t_end", "s_run", "s_ret"}      # no scheduling point of the runtime corresponds to these labels
# t_top (an operation is called) is the vrt_yield() the driver makes before every operation under QSBR_OP_YIELD=1


def schedule_from_counterexample(cex, skip, sc):
    sched = []
    s0_prog = lambda t: sc["threads"][t]
    for pre, act, post in cex["action"]:
        name = act["name"]; who = act.get("context", {}).get("self")
        s0 = pre[1]
        if name == "fl":
            t = who[2:]
            head = s0["sb"][t][0]
            if str(head[0]).endswith(".state") and head[1] == 2:
                continue                 # the plain store of URCU_WAIT_RUNNING is committed at once by the executed code
            sched.append("F:" + t)
        elif name in SILENT or name in skip or (name == "t_top" and s0["i"][who] > len(s0_prog(who))):
            continue
        else:
            sched.append("T:" + who)
    return sched


def confirm(scenario, skip=(), weak=(), faults=0, outdir=None, timeout=1800):
    comp = qsbr_component(fault_budget=faults, skip=skip, weak=weak)
    sc = load_scenario(scenario)
    outdir = outdir or os.path.join(OUT, "qsbr_confirm"); os.makedirs(outdir, exist_ok=True)
    c = conc.consts_for(comp, sc, True, False)
    mod = gen_mc(sc, "cex_" + comp["name"], c, cfg_lines=["SPECIFICATION Spec"] + ["INVARIANT " + i for i in comp["invariants"] + comp["mc_invariants"]] +
                 ["CONSTRAINT SBBound", "CHECK_DEADLOCK FALSE"])
    cj = os.path.join(outdir, mod + ".json")
    if os.path.exists(cj):
        os.unlink(cj)
    r = run_tlc(mod, timeout=timeout, heap="8g", extra=["-dumpTrace", "json", cj], workers=int(os.environ.get("VERIF_TLC_WORKERS", "4")))
    res = {"scenario": scenario, "skip": list(skip), "weak": list(weak), "tlc": r.violation or ("ok" if r.ok else r.error), "distinct_states": r.distinct, "tlc_wall_s": round(r.wall, 1)}
    if not r.violation or not os.path.exists(cj):
        res["verdict"] = "no counterexample within the bounds"
        return res
    sched = schedule_from_counterexample(json.load(open(cj))["counterexample"], set(skip), sc)
    res["counterexample_steps"] = len(sched)
    comp0 = qsbr_component(fault_budget=faults)
    exe = build_driver(comp0["drvname"], comp0["driver"], defines=comp0["defines"], tag="qsbr_confirm_" + re.sub(r"\W", "_", REPO))
    pf = conc.program_file(comp0, sc, os.path.join(outdir, "prog_%s.txt" % scenario))
    sp = os.path.join(outdir, "sched_%s.txt" % mod)
    with open(sp, "w") as f:
        f.write("#auto-benign\n" + "\n".join(sched) + "\n")
    tp = os.path.join(outdir, "trace_%s.ndjson" % mod)
    env = dict(comp0["env"]); env["VRT_SCHED"] = sp; env["QSBR_OP_YIELD"] = 1
    rc, so, se = run_driver(exe, [0, 1, tp, pf], env=env, timeout=60)
    ev = read_trace(tp) if os.path.exists(tp) else []
    m = re.search(r"VRT-FAIL (.*)", se)
    res.update({"repo": REPO, "replay_rc": rc, "oracle": m.group(1) if m else None, "schedule": sp, "trace": tp,
                "replay_diverged": any(e.get("op") == "replay_diverged" for e in ev)})
    res["verdict"] = "violation confirmed on the real code" if rc == 3 else "real code did not fail along the counterexample"
    return res


if __name__ == "__main__":
    ap = argparse.ArgumentParser()
    ap.add_argument("scenario"); ap.add_argument("--skip", default=""); ap.add_argument("--weak", default=""); ap.add_argument("--faults", type=int, default=0)
    a = ap.parse_args()
    res = confirm(a.scenario, tuple(x for x in a.skip.split(",") if x), tuple(x for x in a.weak.split(",") if x), a.faults)
    print(json.dumps(res, indent=1))
    sys.exit(2 if "counterexample_steps" not in res else 0 if res.get("replay_rc") == 3 else 1)
