"""Generic check for a concurrent component: TLC model checking of scenario configs + code->spec trace validation
+ spec->code schedule replay.  Components describe themselves with a small dict (see props/c10.py)."""
import os, json, re, time, shutil, concurrent.futures as cf
from vlib import *

MAXV = 3     # stop looking after this many distinct violation reports
RESET = {"t": "-", "op": "reset", "var": "-", "a": "-", "b": "-", "r": "-"}


def consts_for(comp, sc, tso, tracing):
    c = dict(comp["consts"](sc))
    c["TSO"] = "TRUE" if tso else "FALSE"
    c["Tracing"] = "TRUE" if tracing else "FALSE"
    return c


def model_check(ctx, comp, sc, timeout=3000):
    if COV:         # anchor coverage pass: only the drivers matter
        r = TlcResult(); r.ok = True; return r
    c = consts_for(comp, sc, True, False)
    mod = gen_mc(sc, "mc" + comp.get("variant", ""), c, cfg_lines=["SPECIFICATION " + comp.get("mc_spec", "Spec")] + ["INVARIANT " + i for i in comp["invariants"] + comp.get("mc_invariants", [])] +
                 ["CONSTRAINT " + x for x in comp.get("constraints", [])] + ["CHECK_DEADLOCK FALSE"])
    r = run_tlc(mod, coverage=True, timeout=timeout, heap=comp.get("heap", "16g"))
    ctx.add_tlc(r, mod, {k: v for k, v in c.items() if len(v) < 200})
    if r.violation:
        d = ctx.viol_dir(); shutil.copy(r.log, os.path.join(d, "tlc.log"))
        ctx.violation("TLC: %s violated in %s (design-level counterexample in tlc.log)" % (r.violation, mod), d)
    elif not r.ok:
        if r.error == "timeout":
            ctx.notes.append("%s: TLC timed out after %ds with %d distinct states (not exhaustive)" % (mod, timeout, r.distinct))
        else:
            raise RuntimeError("TLC failed on %s: %s\n%s" % (mod, r.error, r.out[-1500:]))
    return r


def program_file(comp, sc, path):
    with open(path, "w") as f:
        f.write(comp["program"](sc))
    return path


def run_batch(ctx, comp, exe, sc, tso, seeds, workdir, env_extra=None):
    """Run the driver for each seed; returns (list of (seed, events), failures)."""
    pf = program_file(comp, sc, os.path.join(workdir, "prog_%s.txt" % sc["name"]))
    res = []; fails = []
    for seed in seeds:
        tp = os.path.join(workdir, "t_%s_%d_%d.ndjson" % (sc["name"], tso, seed))
        env = {"VRT_MODE": "uniform" if seed % 3 == 2 else "pct", "VRT_DEPTH": 1 + seed % 4, "VRT_LEN": comp.get("pct_len", 120)}
        env.update(comp.get("env", {}))
        if env_extra:
            env.update(env_extra)
        rc, so, se = run_driver(exe, [seed, tso, tp, pf], env=env, timeout=comp.get("run_timeout", 30))
        ev = read_trace(tp) if os.path.exists(tp) else []
        if rc != 0:
            fails.append({"seed": seed, "tso": tso, "rc": rc, "stderr": se[-500:], "trace": tp, "env": env, "scenario": sc["name"]})
        else:
            res.append((seed, ev))
            os.unlink(tp)
    return res, fails, pf


def validate(ctx, comp, sc, tso, runs, workdir, tag):
    """Validate a list of (seed, events) against the trace spec in one TLC run; on rejection bisect to the execution."""
    if not runs or len(ctx.violations) >= MAXV:
        return
    if COV:
        ctx.traces += len(runs); return
    c = consts_for(comp, sc, tso, True); c["__spec__"] = comp["spec"]
    c.update(comp.get("trace_consts", {}))
    mod = gen_trace_module(comp["trace"], comp["spec"], "TV_%s%s_%d" % (sc["name"], comp.get("variant", ""), tso), c, invariants=comp["invariants"])
    allev = []; bounds = []
    for seed, ev in runs:
        n = normalize(ev, **comp.get("normalize", {}))
        bounds.append((len(allev) + 1, len(allev) + len(n), seed))
        allev += n + [RESET]
    tp = os.path.join(workdir, "%s.ndjson" % tag)
    write_ndjson(tp, allev)
    v = validate_trace_file(mod, tp, tag=tag, timeout=comp.get("tv_timeout", 900))
    if v.error:
        raise RuntimeError("trace validation failed to run (%s): %s\n%s" % (mod, v.error, v.tlc.out[-1500:]))
    ctx.states += v.tlc.distinct; ctx.transitions += v.tlc.states
    if v.accepted:
        ctx.traces += len(runs); ctx.events += len(allev) - len(runs)
        try:
            os.unlink(v.tlc.log)        # TLC prints the whole accepted behaviour (hundreds of MB per batch): keep logs of rejections only
        except OSError:
            pass
        return
    # locate the execution
    pos = v.maxl
    bad = None
    for lo, hi, seed in bounds:
        if lo <= pos <= hi + 1:
            bad = (lo, hi, seed)
    ok_runs = [b for b in bounds if b[1] < pos]
    ctx.traces += len(ok_runs)
    lo, hi, seed = bad if bad else bounds[-1]
    one = allev[lo - 1:hi]
    d = ctx.viol_dir()
    tp1 = os.path.join(d, "trace.ndjson"); write_ndjson(tp1, one)
    v1 = validate_trace_file(mod, tp1, tag=tag + "_one", timeout=300)     # report only if a re-run repeats it
    if v1.error:
        raise RuntimeError("trace validation of the isolated execution failed to run (%s): %s\n%s" % (mod, v1.error, v1.tlc.out[-1500:]))
    if v1.accepted:
        ctx.notes.append("rejection of seed %d did not repeat in isolation (ignored)" % seed)
        shutil.rmtree(d, ignore_errors=True)
        return validate(ctx, comp, sc, tso, [r for r in runs if r[0] != seed and r[0] > seed], workdir, tag)
    shutil.copy(v1.tlc.log, os.path.join(d, "tlc.log"))
    k = v1.maxl
    what = v1.violation
    meta = {"scenario": sc["name"], "tso": tso, "seed": seed, "driver": comp["driver"], "driver_name": comp.get("drvname", ""), "component": comp.get("name", ""), "trace_module": mod, "first_unmatched_event_index": k,
            "first_unmatched_event": one[k - 1] if 0 < k <= len(one) else None, "context": one[max(0, k - 6):k]}
    json.dump(meta, open(os.path.join(d, "meta.json"), "w"), indent=1)
    shutil.copy(os.path.join(workdir, "prog_%s.txt" % sc["name"]), os.path.join(d, "prog.txt"))
    if what:
        ctx.violation("property invariant %s violated on a recorded execution of the real code (scenario %s, seed %d, tso=%d)" % (what, sc["name"], seed, tso), d)
    else:
        ctx.violation("recorded execution is not a behaviour of %s: scenario %s seed %d tso=%d, first unexplained event #%d %s" % (
            comp["spec"], sc["name"], seed, tso, k, json.dumps(meta["first_unmatched_event"])), d)
    # keep validating the rest
    rest = [r for r in runs if r[0] > seed]
    if rest and len(ctx.violations) < MAXV:
        validate(ctx, comp, sc, tso, rest, workdir, tag)


def report_failures(ctx, comp, fails):
    setup = [f for f in fails if f["rc"] == 2 and "VRT-FAIL" not in f["stderr"]]
    if setup:       # exit status 2 = the driver could not even start (missing program file, too many threads): machinery error, never a verdict
        raise RuntimeError("driver setup error (scenario %s seed %d): %s" % (setup[0]["scenario"], setup[0]["seed"], setup[0]["stderr"][-300:]))
    for f in fails[:max(0, MAXV - len(ctx.violations))]:
        d = ctx.viol_dir()
        if os.path.exists(f["trace"]):
            shutil.move(f["trace"], os.path.join(d, "trace.ndjson"))
        f.setdefault("driver_name", comp.get("drvname", "")); f.setdefault("component", comp.get("name", ""))
        json.dump(f, open(os.path.join(d, "meta.json"), "w"), indent=1)
        pf = os.path.join(os.path.dirname(f["trace"]), "prog_%s.txt" % f["scenario"])
        if os.path.exists(pf):
            shutil.copy(pf, os.path.join(d, "prog.txt"))
        m = re.search(r"VRT-FAIL (.*)", f["stderr"])
        ctx.violation("oracle failure on the real code: %s (scenario %s seed %d tso=%d rc=%d)" % (m.group(1) if m else f["stderr"][-200:], f["scenario"], f["seed"], f["tso"], f["rc"]), d)
    for f in fails:
        if os.path.exists(f["trace"]):
            os.unlink(f["trace"])


def spec_to_code(ctx, comp, exe, sc, tso, n, workdir):
    """tlc -simulate behaviours -> schedules -> forced onto the real code; the resulting traces are validated too."""
    c = consts_for(comp, sc, tso, True)
    base = gen_mc(sc, "simbase%s_%d" % (comp.get("variant", ""), tso), c, cfg_lines=[])
    t = open(os.path.join(SPEC, "trace", "Sim.tla.in")).read()
    mod = "SIM_%s%s_%d" % (sc["name"], comp.get("variant", ""), tso)
    with open(os.path.join(GEN, mod + ".tla"), "w") as f:
        f.write(t.replace("@MODULE@", mod).replace("@BASE@", base).replace("@NEXT@", comp.get("mc_next", "Next")))
    cfgtxt = open(os.path.join(GEN, base + ".cfg")).read()
    with open(os.path.join(GEN, mod + ".cfg"), "w") as f:
        f.write("SPECIFICATION SSpec\n" + cfgtxt + "INVARIANT Emit\nCHECK_DEADLOCK FALSE\n")
    r = run_tlc(mod, workers=4, simulate=max(1, n // 4), depth=comp.get("sim_depth", 400), timeout=600, tag=mod,
                extra=["-seed", str(ctx.seed)])
    scheds = []
    for m in re.finditer(r'"SCHED", "(\[.*?\])"', r.out):
        try:
            scheds.append(json.loads(m.group(1).replace('\\"', '"')))
        except Exception:
            pass
    uniq = []
    seen = set()
    for s in scheds:
        k = tuple(s)
        if k not in seen:
            seen.add(k); uniq.append(s)
    uniq = uniq[:n]
    pf = program_file(comp, sc, os.path.join(workdir, "prog_%s.txt" % sc["name"]))
    runs = []; fails = []
    for i, s in enumerate(uniq):
        sp = os.path.join(workdir, "sched_%d.txt" % i)
        with open(sp, "w") as f:
            f.write("#auto-benign\n" + "\n".join(s) + "\n")
        tp = os.path.join(workdir, "r_%s_%d_%d.ndjson" % (sc["name"], tso, i))
        env = dict(comp.get("env", {})); env["VRT_SCHED"] = sp
        rc, so, se = run_driver(exe, [0, tso, tp, pf], env=env, timeout=30)
        if rc != 0:
            fails.append({"seed": 100000 + i, "tso": tso, "rc": rc, "stderr": se[-500:], "trace": tp, "env": env, "scenario": sc["name"], "schedule": s})
        else:
            ev = read_trace(tp)
            if any(e.get("op") == "replay_diverged" for e in ev):
                ctx.extra["spec_behaviours_not_followed_exactly"] = ctx.extra.get("spec_behaviours_not_followed_exactly", 0) + 1
            runs.append((100000 + i, ev)); os.unlink(tp)
        os.unlink(sp)
    for f in fails[:max(0, min(2, MAXV - len(ctx.violations)))]:
        d = ctx.viol_dir()
        if os.path.exists(f["trace"]):
            shutil.move(f["trace"], os.path.join(d, "trace.ndjson"))
        json.dump(f, open(os.path.join(d, "meta.json"), "w"), indent=1)
        m = re.search(r"VRT-FAIL (.*)", f["stderr"])
        ctx.violation("the real code cannot follow a behaviour of %s (scenario %s, tso=%d): %s" % (comp["spec"], sc["name"], tso, m.group(1) if m else f["stderr"][-200:]), d)
    before = ctx.traces
    validate(ctx, comp, sc, tso, runs, workdir, "tvr_%s_%d" % (sc["name"], tso))
    ctx.replays += ctx.traces - before
    if uniq:
        ctx.sample({"kind": "TLC behaviour replayed into the real code", "scenario": sc["name"], "tso": tso, "schedule": uniq[0][:40]})
    return len(uniq)


def run_component(ctx, comp, scenarios, nseeds, nsim, mc=True, mc_timeout=3000):
    wd = os.path.join(ctx.outdir, "work"); shutil.rmtree(wd, ignore_errors=True); os.makedirs(wd)
    exe = build_driver(comp.get("drvname", comp["driver"][:-2]), comp["driver"], defines=comp.get("defines", ()), lb=comp.get("lb", True), tag=ctx.pid + "_" + comp.get("drvname", comp["driver"][:-2]))
    only = os.environ.get("VERIF_SCEN")
    for scn in scenarios:
        if only and scn not in only.split(","):
            continue
        sc = load_scenario(scn)
        if len(ctx.violations) >= MAXV:
            break
        if mc:
            r = model_check(ctx, comp, sc, timeout=mc_timeout)
            log("  [TLC] %s: %d distinct states, %.0fs, %s" % (sc["name"], r.distinct, r.wall, "ok" if r.ok else (r.violation or r.error)))
            zero = [k for k, v in r.coverage.items() if v[1] == 0 and k not in ("Terminating",)]     # never generated a successor state at all
            ctx.extra.setdefault("actions_never_taken", {})[sc["name"]] = zero
        for tso in (0, 1):
            if len(ctx.violations) >= MAXV:
                break
            seeds = [ctx.seed * 100003 + i for i in range(nseeds)]
            runs, fails, pf = run_batch(ctx, comp, exe, sc, tso, seeds, wd)
            report_failures(ctx, comp, fails)
            if runs:
                ctx.sample({"kind": "recorded execution of the real code (first events)", "scenario": sc["name"], "tso": tso, "seed": runs[0][0],
                            "events": [e for e in runs[0][1][:12]]})
            validate(ctx, comp, sc, tso, runs, wd, "tv_%s_%d" % (sc["name"], tso))
            if nsim:
                spec_to_code(ctx, comp, exe, sc, tso, nsim, wd)
        log("  [conf] %s: traces validated so far %d, events %d, replays %d, violations %d" % (sc["name"], ctx.traces, ctx.events, ctx.replays, len(ctx.violations)))
    shutil.rmtree(wd, ignore_errors=True)


def replay(ctx, comp, path):
    """Re-run one recorded violation (same scenario, seed/schedule, mode) on the current tree and re-validate its trace."""
    meta = json.load(open(os.path.join(path, "meta.json")))
    sc = load_scenario(meta["scenario"])
    wd = os.path.join(ctx.outdir, "replay_work"); shutil.rmtree(wd, ignore_errors=True); os.makedirs(wd)
    exe = build_driver(comp.get("drvname", comp["driver"][:-2]), comp["driver"], defines=comp.get("defines", ()), lb=comp.get("lb", True), tag=ctx.pid + "_" + comp.get("drvname", comp["driver"][:-2]))
    tso = meta["tso"]
    if "schedule" in meta:
        pf = program_file(comp, sc, os.path.join(wd, "prog_%s.txt" % sc["name"]))
        sp = os.path.join(wd, "sched.txt"); open(sp, "w").write("#auto-benign\n" + "\n".join(meta["schedule"]) + "\n")
        tp = os.path.join(wd, "t.ndjson"); env = dict(comp.get("env", {})); env["VRT_SCHED"] = sp
        rc, so, se = run_driver(exe, [0, tso, tp, pf], env=env)
        runs = [(meta["seed"], read_trace(tp))] if rc == 0 else []
        fails = [] if rc == 0 else [{"seed": meta["seed"], "tso": tso, "rc": rc, "stderr": se[-500:], "trace": tp, "env": env, "scenario": sc["name"], "schedule": meta["schedule"]}]
    else:
        runs, fails, pf = run_batch(ctx, comp, exe, sc, tso, [meta["seed"]], wd, env_extra=meta.get("env"))
    report_failures(ctx, comp, fails)
    validate(ctx, comp, sc, tso, runs, wd, "tv_replay")
    log("replay of %s: %s" % (path, "violation reproduced" if ctx.violations else "no violation on the current tree"))
