"""Shared machinery for the /verif checks: scenario -> TLA+ generation, TLC runs, driver builds, trace
validation, evidence writing.  Python 3 standard library only."""
import json, os, re, subprocess, sys, time, shutil, hashlib, glob

VERIF = os.path.dirname(os.path.dirname(os.path.abspath(__file__)))
REPO = os.environ.get("VERIF_REPO", "/repo")
SPEC = os.path.join(VERIF, "spec")
# VERIF_WORK=<dir>: keep every generated file (TLA+ modules, builds, run output, evidence) of this run under <dir> instead of /verif,
# so that a second run (mutation experiment on a scratch copy selected with VERIF_REPO, background sweep) never disturbs the first
WORK = os.environ.get("VERIF_WORK")
GEN = os.path.join(WORK, "gen") if WORK else os.path.join(SPEC, "gen")
BUILD = os.path.join(WORK or VERIF, "build")
OUT = os.path.join(WORK or VERIF, "out")
EVID = os.path.join(WORK or VERIF, "evidence")
COV = os.environ.get("VERIF_COV") == "1"      # coverage builds of the drivers (anchor coverage pass, see tools/anchorcov.py)
HARNESS = os.path.join(VERIF, "harness")
TLA_JAR = "/opt/veriftools/tla/tla2tools.jar"
NCPU = os.cpu_count() or 4


def log(*a):
    print(*a, flush=True)


# ------------------------------------------------------------------ TLA+ value rendering
def tla(v):
    if isinstance(v, bool):
        return "TRUE" if v else "FALSE"
    if isinstance(v, int):
        return str(v)
    if isinstance(v, str):
        return '"%s"' % v
    if isinstance(v, list):
        return "<<" + ", ".join(tla(x) for x in v) + ">>"
    if isinstance(v, dict):
        if not v:
            return "<<>>"
        return "[" + ", ".join("%s |-> %s" % (k, tla(x)) for k, x in v.items()) + "]"
    if isinstance(v, (set, frozenset)):
        return "{" + ", ".join(tla(x) for x in sorted(v)) + "}"
    raise TypeError(v)


def tla_fun(d):
    """dict with arbitrary string keys -> TLA+ function (keys need not be identifiers)"""
    if not d:
        return "<<>>"
    return "(" + " @@ ".join("(%s :> %s)" % (tla(k), tla(v)) for k, v in d.items()) + ")"


def load_scenario(name):
    p = name if os.path.exists(name) else os.path.join(VERIF, "scenarios", name + ".json")
    with open(p) as f:
        return json.load(f)


def gen_mc(sc, variant, consts, extends=None, extra_defs="", cfg_lines=(), module=None):
    """Write spec/gen/<module>.tla/.cfg for scenario `sc`.  consts: dict name -> TLA+ expression text
    (substituted through definitions so any expression is allowed)."""
    os.makedirs(GEN, exist_ok=True)
    mod = module or ("MC_%s_%s" % (sc["name"], variant))
    ext = extends or sc["spec"]
    lines = ["---- MODULE %s ----" % mod, "EXTENDS %s" % ext]
    cfg = []
    for k, v in consts.items():
        lines.append("mc_%s == %s" % (k, v))
        cfg.append("  %s <- mc_%s" % (k, k))
    lines.append(extra_defs)
    lines.append("====")
    with open(os.path.join(GEN, mod + ".tla"), "w") as f:
        f.write("\n".join(lines) + "\n")
    with open(os.path.join(GEN, mod + ".cfg"), "w") as f:
        f.write("CONSTANTS\n" + "\n".join(cfg) + "\n" + "\n".join(cfg_lines) + "\n")
    return mod


# ------------------------------------------------------------------ TLC
class TlcResult:
    def __init__(self):
        self.ok = False; self.states = 0; self.distinct = 0; self.depth = 0; self.violation = None
        self.error = None; self.out = ""; self.wall = 0.0; self.coverage = {}; self.rc = None; self.log = None


def run_tlc(module, workdir=None, workers=None, timeout=3600, simulate=None, depth=None, env=None, extra=(), heap="8g",
            deadlock=False, coverage=False, tag=None, dfs=False):
    """Run TLC on spec/gen/<module>.  Returns TlcResult."""
    workdir = workdir or GEN
    tag = tag or module
    meta = os.path.join(OUT, "tlc", tag)
    shutil.rmtree(meta, ignore_errors=True)
    os.makedirs(meta, exist_ok=True)
    cmd = tlc_cmd(heap, dfs)
    cmd += ["-metadir", meta, "-workers", str(workers or int(os.environ.get("VERIF_TLC_WORKERS", "0")) or NCPU), "-config", module + ".cfg", "-noGenerateSpecTE"]
    if coverage:
        cmd += ["-coverage", "1"]
    if simulate:
        cmd += ["-simulate", "num=%d" % simulate]
        if depth:
            cmd += ["-depth", str(depth)]
    cmd += list(extra) + [module + ".tla"]
    e = dict(os.environ)
    if env:
        e.update(env)
    t0 = time.time()
    r = TlcResult()
    logp = os.path.join(meta, "tlc.log")
    try:
        with open(logp, "w") as lf:
            p = subprocess.run(cmd, cwd=workdir, env=e, stdout=lf, stderr=subprocess.STDOUT, timeout=timeout)
        r.rc = p.returncode
    except subprocess.TimeoutExpired:
        r.rc = -9; r.error = "timeout"
    r.wall = time.time() - t0
    r.log = logp
    with open(logp, errors="replace") as lf:
        r.out = lf.read()
    parse_tlc(r)
    shutil.rmtree(os.path.join(meta, "states"), ignore_errors=True)
    for d in glob.glob(os.path.join(meta, "*")):
        if os.path.isdir(d):
            shutil.rmtree(d, ignore_errors=True)
    return r


_TLC_CP = None


def tlc_cmd(heap, dfs):
    """java command line equivalent to the `tlc` wrapper (keeps CommunityModules on the classpath)."""
    global _TLC_CP
    if _TLC_CP is None:
        cp = [TLA_JAR]
        w = shutil.which("tlc")
        if w:
            try:
                txt = open(w).read()
                m = re.search(r"-cp\s+\"?([^\s\"]+)", txt)
                if m:
                    cp = [m.group(1)]
            except Exception:
                pass
        for j in glob.glob("/opt/veriftools/tla/*.jar"):
            if j not in cp[0]:
                cp.append(j)
        _TLC_CP = ":".join(cp)
    cmd = ["java", "-XX:+UseParallelGC", "-Xmx" + heap, "-Xss32m", "-DTLA-Library=" + SPEC]
    if dfs:
        cmd.append("-Dtlc2.tool.queue.IStateQueue=StateDeque")
    cmd += ["-cp", _TLC_CP, "tlc2.TLC"]
    return cmd


def parse_tlc(r):
    o = r.out
    m = re.search(r"(\d+) states generated, (\d+) distinct states found", o)
    if m:
        r.states = int(m.group(1)); r.distinct = int(m.group(2))
    m = re.search(r"The depth of the complete state graph search is (\d+)", o)
    if m:
        r.depth = int(m.group(1))
    if "Model checking completed. No error has been found" in o:
        r.ok = True
    m = re.search(r"Error: Invariant (\S+) is violated", o)
    if m:
        r.violation = "invariant " + m.group(1)
    elif "Error: Deadlock reached" in o:
        r.violation = "deadlock"
    elif "Temporal properties were violated" in o or re.search(r"Temporal property \S+ was violated", o):
        r.violation = "temporal property"
    elif re.search(r"Error: Action property (\S+)", o):
        r.violation = "action property"
    elif "The first argument of Assert evaluated to FALSE" in o or "Assertion failed" in o.replace("failure", "failed"):
        r.violation = "assertion"
    elif "Error:" in o and not r.ok:
        m = re.search(r"Error: (.*)", o)
        r.error = r.error or (m.group(1)[:300] if m else "error")
    # coverage: "<label line ... of module X>: taken:generated"
    for m in re.finditer(r"<(\w+) line \d+, col \d+ to line \d+, col \d+ of module (\w+)>: (\d+):(\d+)", o):
        r.coverage[m.group(1)] = (int(m.group(3)), int(m.group(4)))


# ------------------------------------------------------------------ C builds
def sh(cmd, **kw):
    return subprocess.run(cmd, shell=isinstance(cmd, str), **kw)


def config_h_flags(bdir):
    """-include of the autoconf config.h and presence of urcu/config.h: use /repo's if present, else generate defaults."""
    inc = []
    cfg = os.path.join(REPO, "include", "config.h")
    ucfg = os.path.join(REPO, "include", "urcu", "config.h")
    gen = os.path.join(bdir, "geninc")
    if not os.path.exists(ucfg):
        os.makedirs(os.path.join(gen, "urcu"), exist_ok=True)
        with open(os.path.join(gen, "urcu", "config.h"), "w") as f:
            f.write("#define CONFIG_RCU_SMP 1\n#define CONFIG_RCU_TLS 1\n#define CONFIG_RCU_HAVE_CLOCK_GETTIME 1\n"
                    "#define CONFIG_RCU_EMIT_LEGACY_MB 1\n#define CONFIG_RCU_HAVE_MULTIFLAVOR 1\n")
        inc += ["-I", gen]
    if os.path.exists(cfg):
        inc += ["-include", cfg]
    else:
        os.makedirs(gen, exist_ok=True)
        with open(os.path.join(gen, "config.h"), "w") as f:
            f.write("#define HAVE_SCHED_GETCPU 1\n#define HAVE_SYSCONF 1\n#define HAVE_SCHED_SETAFFINITY 1\n"
                    "#define HAVE_CPU_SET_T 1\n#define HAVE_CPU_ZERO 1\n#define HAVE_CPU_SET 1\n#define SCHED_SETAFFINITY_ARGS 3\n"
                    "#define HAVE_MMAP 1\n#define HAVE_GETTID 1\n")
        inc += ["-include", os.path.join(gen, "config.h")]
    return inc


def build_driver(name, src, defines=(), lb=True, opt="-O1", extra_src=(), libs=(), hooks=True, tag=None):
    """Compile harness/<src> (which #includes the real library sources from REPO) + vrt.c -> build/<tag>/<name>."""
    bdir = os.path.join(BUILD, tag or name)
    os.makedirs(bdir, exist_ok=True)
    exe = os.path.join(bdir, name)
    inc = config_h_flags(bdir) + ["-I", os.path.join(REPO, "include"), "-I", os.path.join(REPO, "src"), "-I", HARNESS]
    base = ["gcc", "-g", opt, "-fno-omit-frame-pointer", "-D_GNU_SOURCE", "-DREPO_SRC(x)=#x", "-Wall", "-Wno-unused-function", "-Wno-unused-variable"]
    rt = os.path.join(bdir, "vrt.o")
    r = sh(["gcc", "-g", "-O1", "-D_GNU_SOURCE"] + (["-DVRT_COV"] if COV else []) + ["-I", HARNESS, "-c", os.path.join(HARNESS, "vrt.c"), "-o", rt], capture_output=True, text=True)
    if r.returncode:
        raise RuntimeError("runtime build failed:\n" + r.stderr)
    objs = [rt]
    for s in [src] + list(extra_src):
        o = os.path.join(bdir, os.path.basename(s) + ".o")
        cmd = base + inc + (["-DURCU_VERIF"] if hooks else []) + ["-D" + d for d in defines]
        if COV:
            cmd += ["--coverage"]
        if lb and not COV:      # coverage counters would show up as plain stores (and drain the software store buffers): no L-B in coverage builds
            cmd += ["-fsanitize=thread"]
        cmd += ["-c", s if os.path.isabs(s) else os.path.join(HARNESS, s), "-o", o]
        r = sh(cmd, capture_output=True, text=True)
        if r.returncode:
            raise RuntimeError("driver build failed (%s):\n%s" % (s, r.stderr[-4000:]))
        objs.append(o)
    r = sh(["gcc", "-g", "-o", exe] + (["--coverage"] if COV else []) + objs + ["-lpthread"] + list(libs), capture_output=True, text=True)
    if r.returncode:
        raise RuntimeError("driver link failed:\n" + r.stderr[-4000:])
    return exe


# ------------------------------------------------------------------ running drivers
def run_driver(exe, args, env=None, timeout=60):
    e = dict(os.environ)
    if env:
        e.update({k: str(v) for k, v in env.items()})
    try:
        p = subprocess.run([exe] + [str(a) for a in args], env=e, capture_output=True, text=True, timeout=timeout)
        return p.returncode, p.stdout, p.stderr
    except subprocess.TimeoutExpired as ex:
        return -9, "", "TIMEOUT (hung outside the scheduler)"


def read_trace(path):
    ev = []
    with open(path, errors="replace") as f:
        for ln in f:
            ln = ln.strip()
            if not ln:
                continue
            try:
                ev.append(json.loads(ln))
            except Exception:
                ev.append({"op": "garbled", "raw": ln[:200]})
    return ev


def write_ndjson(path, events):
    with open(path, "w") as f:
        for e in events:
            f.write(json.dumps(e, separators=(",", ":")) + "\n")


# ------------------------------------------------------------------ evidence
def write_evidence(pid, tier, seed, level, coverage, assumptions, wall, violations):
    os.makedirs(EVID, exist_ok=True)
    ev = {"property_id": pid, "tier": tier, "seed": int(seed), "level": level, "coverage": coverage,
          "assumptions": assumptions, "wall_s": round(wall, 2), "violations": int(violations)}
    with open(os.path.join(EVID, pid + ".json"), "w") as f:
        json.dump(ev, f, indent=1)
    return ev


def load_known_findings():
    p = os.path.join(VERIF, "known_findings.jsonl")
    res = []
    if os.path.exists(p):
        for ln in open(p):
            ln = ln.strip()
            if ln and not ln.startswith("#"):
                res.append(json.loads(ln))
    return res


# ------------------------------------------------------------------ trace validation (code -> spec)
def init_conjuncts(spec_path):
    """Parse the PlusCal translation's Init into [(var, expr_text)]."""
    txt = open(spec_path).read()
    m = re.search(r"^Init == (.*?)^\S", txt, re.S | re.M)
    if not m:
        raise RuntimeError("no Init in " + spec_path)
    body = m.group(1)
    res = []
    cur = None
    for ln in body.split("\n"):
        mm = re.match(r"^\s*/\\ (\w+) = (.*)$", ln)
        if mm and (ln.index("/\\") <= 8):
            cur = [mm.group(1), mm.group(2)]
            res.append(cur)
        elif cur is not None and ln.strip() and not ln.strip().startswith("(*"):
            cur[1] += "\n" + ln
    return [(a, b) for a, b in res]


def gen_reset(spec_path, extra=""):
    cj = init_conjuncts(spec_path)
    return "ResetAll ==\n" + "\n".join("  /\\ %s' = %s" % (v, e) for v, e in cj) + ("\n" + extra if extra else "")


def gen_trace_module(template, base, module, consts, invariants=(), extra_cfg=()):
    """Instantiate spec/trace/<template>.tla.in for MC module `base` -> spec/gen/<module>.tla/.cfg"""
    os.makedirs(GEN, exist_ok=True)
    t = open(os.path.join(SPEC, "trace", template + ".tla.in")).read()
    spec_mod = consts.pop("__spec__")
    t = t.replace("@MODULE@", module).replace("@BASE@", spec_mod).replace("@RESET@", gen_reset(os.path.join(SPEC, spec_mod + ".tla")))
    defs = "\n".join("tmc_%s == %s" % (k, v) for k, v in consts.items())
    t = t.replace("====", defs + "\n====")
    with open(os.path.join(GEN, module + ".tla"), "w") as f:
        f.write(t)
    with open(os.path.join(GEN, module + ".cfg"), "w") as f:
        f.write("SPECIFICATION TSpec\nCONSTANTS\n" + "\n".join("  %s <- tmc_%s" % (k, k) for k in consts) + "\n")
        f.write("INVARIANT NotAccepted\n" + "".join("INVARIANT %s\n" % i for i in invariants))
        f.write("POSTCONDITION Post\nCHECK_DEADLOCK FALSE\n" + "\n".join(extra_cfg) + "\n")
    return module


FIELDS = {"ld": ("r",), "st": ("a",), "xchg": ("a", "r"), "cas": ("a", "b", "r"), "addret": ("a", "r"), "add": ("a", "r"), "or": ("a", "r"),
          "and": ("a", "r"), "inc": ("r",), "dec": ("r",), "flush": ("a",), "fwait": ("a", "r"), "fwoke": ("r",), "fwake": ("r",), "ret": ("r",),
          "trylock": ("r",)}


def normalize(events, drop_ops=("end", "spawn", "blocked", "replay_diverged", "solo_begin", "solo_end", "solo_skip"), keep_vars=None, extra_fields=()):
    """Uniform records for TLC: every event has t, op, var, a, b, r (missing -> "-"), plus call fields."""
    out = []
    for e in events:
        op = e.get("op")
        if op in drop_ops:
            continue
        if keep_vars is not None and op in FIELDS and op not in ("ret",) and e.get("var") not in keep_vars and e.get("var") not in (None, "-"):
            continue
        n = {"t": e.get("t", "-"), "op": op, "var": e.get("var", "-"), "a": "-", "b": "-", "r": "-"}
        for f in FIELDS.get(op, ()):
            if f in e:
                n[f] = e[f]
        if op == "call":
            for k in ("api", "q", "s", "n", "blk", "lck"):
                n[k] = e.get(k, "-")
        if op == "fail":
            n["what"] = e.get("what", "")
        for k in extra_fields:
            n[k] = e.get(k, "-")
        out.append(n)
    return out


class TraceVerdict:
    def __init__(self):
        self.accepted = False; self.maxl = 0; self.total = 0; self.violation = None; self.error = None; self.tlc = None


def validate_trace_file(module, trace_path, tag=None, timeout=600, heap="4g"):
    """Run the trace spec on one ndjson file (possibly many executions separated by reset events)."""
    r = run_tlc(module, workers=1, timeout=timeout, env={"TRACE": trace_path}, tag=tag or ("tv_" + module), heap=heap, dfs=True)
    v = TraceVerdict(); v.tlc = r
    m = re.search(r'"MAXL", (\d+), (\d+)', r.out)
    if m:
        v.maxl = int(m.group(1)); v.total = int(m.group(2))
    if r.violation == "invariant NotAccepted":
        v.accepted = True
    elif r.violation:
        v.violation = r.violation
    elif r.error:
        v.error = r.error
    return v
