"""C16 helpers shared by tools/props/c16.py: scenario -> TLA+ constants / driver program, projection of recorded traces
onto the events spec/Fork.tla speaks about, construction of the child's trace (parent prefix + child suffix)."""
import json, os, re
from vlib import *

OPS = ("call", "sync", "barrier", "rl", "ru", "reg", "unreg", "create", "setthr", "setcpu", "cpu", "before", "fork", "after", "before2", "after2",
       "bpbefore", "bpafter", "waitf", "waitb", "post", "wait", "add", "resize", "htwait", "htexit", "offline", "online", "qs")


def norm_ops(sc):
    """scenario threads with uniform op records [op, n, x, w]; htexit (teardown of the worker) is driver-only"""
    thr = {}
    for t, ops in sc["threads"].items():
        out = []
        for o in ops:
            assert o["op"] in OPS, o
            if o["op"] == "htexit":
                continue
            out.append({"op": o["op"], "n": int(o.get("n", 0)), "x": int(o.get("x", 0)), "w": o.get("w", "b")})
        thr[t] = out
    return thr


def consts(sc, follow="P", mut=()):
    thr = norm_ops(sc)
    fl = sc.get("flavor", "mb")
    return {"Threads": tla(set(thr)), "Prog": tla_fun(thr), "SBMax": str(sc.get("sbmax", 1)),
            "Flavor": tla("bp" if fl == "bp" else "mb"), "RFence": tla(bool(sc.get("rfence", fl in ("mb", "qsbr")))),
            "NCrd": str(sc.get("ncrd", 2)), "NHelp": str(sc.get("nhelp", 3)), "NCpu": str(sc.get("ncpu", 2)),
            "Ht": tla(bool(sc.get("ht", False))), "HtMax": str(sc.get("htmax", 8)), "Follow": tla(follow), "Mut": tla(set(mut) | set(sc.get("mut", [])))}


def program(sc):
    out = []
    if sc.get("ht"):
        out.append("ht %d" % sc.get("htmax", 8))
        if any(o["op"] == "before2" for ops in sc["threads"].values() for o in ops):
            out.append("ht2")          # a second table on a second flavor (registers the rculfhash atfork handlers with that flavor too)
    for t, ops in sc["threads"].items():
        out.append("thread %s %d" % (t, sc.get("cpu", {}).get(t, 0)))
        for o in ops:
            a = [o["op"]]
            if o["op"] in ("call", "cpu", "resize", "post", "wait"):
                a.append(str(o["n"]))
            elif o["op"] in ("create", "setthr"):
                a.append(str(o["x"]))
            elif o["op"] == "add":
                a.append(str(o["k"]))
            elif o["op"] == "setcpu":
                a += [str(o["n"]), str(o["x"])]
            if o.get("w", "b") != "b":
                a.append("@" + o["w"])
            out.append(" ".join(a))
    return "\n".join(out) + "\n"


# ------------------------------------------------------------------ projection
NAMED = re.compile(r"^(c\d+\.(flags|futex|qlen|tail)|Hc\d+\.next|n\d+\.next|w\d+\.next|rw\d+\.next|wq\.(flags|futex|qlen|tail)|Hwq\.next|dflt|k\d+\.count|"
                   r"ht\.(size|target|init)|rctr\.\w+)$")
MUTEXES = {"call_rcu.mutex", "gp.lock", "registry.lock", "lfht.fork_mutex", "resize_mutex", "bp.init_lock"}
FIELDS16 = {"ld": ("r",), "st": ("a",), "xchg": ("a", "r"), "cas": ("a", "b", "r"), "addret": ("a", "r"), "add": ("a", "r"), "or": ("a", "r"),
            "and": ("a", "r"), "inc": ("r",), "dec": ("r",), "flush": ("a",), "fwait": ("a", "r"), "fwoke": ("r",), "fwake": ("r",)}


def sval(v, var=""):
    if isinstance(v, str):
        if v.startswith("x"):          # unsigned long printed in hex by the runtime: masks of uatomic_and
            try:
                n = int(v[1:], 16)
                if n >= 1 << 31:
                    n -= 1 << 32 if n < (1 << 32) else 1 << 64
                return str(n)
            except ValueError:
                return v
        return v
    if isinstance(v, int):
        if var.endswith(".futex") and v < -2:
            v = -2                      # abstraction of the specification: futex values below -2 are identified with -2
        return str(v)
    return str(v)


def project(events, flavor, cut_at_htexit=True, sc_as_tso=False):
    """recorded events -> uniform records (t, op, var, a, b, r: all strings).  Dropped: fences, relax/poll, accesses to
    sc_as_tso: the execution was recorded WITHOUT software store buffers; a flush event is inserted right after every store that the
    TSO runtime would have buffered (memory order below seq_cst), so that the execution -- sequential consistency is the TSO behaviour in
    which every store is committed at once -- can be validated against the TSO instance of the specification.
    unnamed locations, loads of reader words, the internals of synchronize_rcu of the non-bp flavors (first xchg on gp_waiters
    becomes gp_begin), driver bookkeeping events; everything from `call htexit` on (teardown of the worker)."""
    out = []
    gpst = {}          # thread -> "maybe" | "leader"
    inhtw = set()      # threads inside the harness operation htwait (its lookups are the driver's oracle, not part of the model)
    for e in events:
        op = e.get("op"); t = e.get("t", "-"); var = e.get("var", "-")
        if op == "call" and e.get("api") == "htwait":
            inhtw.add(t)
        elif op == "ret" and e.get("api") == "htwait":
            inhtw.discard(t)
        elif t in inhtw and op not in ("fail", "garbled"):
            continue
        if op in ("end", "blocked", "replay_diverged", "mb", "rmb", "wmb", "relax", "poll", "sysmb", "proj", "child", "join"):
            continue
        if gpst.get(t) == "maybe" and op in ("ret", "call", "cb", "fork", "exit", "sigmask"):
            gpst[t] = None
        if op == "call" and e.get("api") == "htexit" and cut_at_htexit:
            break
        n = {"t": t, "op": op, "var": "-", "a": "-", "b": "-", "r": "-"}
        if op == "call":
            n["var"] = e.get("api", "-"); n["a"] = str(e.get("n", 0)) if n["var"] == "call" else "-"
        elif op == "ret":
            n["var"] = e.get("api", "-")
        elif op in ("fork", "waitf", "waitb", "allcb", "exit", "gp_begin"):
            pass
        elif op in ("post", "wait"):
            n["a"] = str(e.get("n", 0))
        elif op == "sigmask":
            n["r"] = str(e.get("r"))
        elif op in ("spawn", "alloc", "free", "cb", "walloc"):
            n["var"] = var
        elif op in ("lock", "unlock"):
            if var not in MUTEXES:
                continue
            if flavor != "bp":
                st = gpst.get(t)
                if st == "maybe":
                    gpst[t] = "leader" if (op == "lock" and var == "gp.lock") else None
                    st = gpst[t]
                if st == "leader":
                    if op == "unlock" and var == "gp.lock":
                        gpst[t] = None
                    continue
            n["var"] = var
        elif op in ("fail", "garbled"):
            n["var"] = "-"
        elif op in FIELDS16:
            if var == "gpw":
                if flavor != "bp" and op == "xchg" and not gpst.get(t):
                    gpst[t] = "maybe"
                    out.append({"t": t, "op": "gp_begin", "var": "-", "a": "-", "b": "-", "r": "-"})
                continue
            if not NAMED.match(var or ""):
                continue
            if var.startswith("rctr."):
                if op == "ld":
                    continue
                if op == "st":
                    v = e.get("a")
                    n["a"] = str((v & 0xffff) if isinstance(v, int) else v)
                n["var"] = var
                out.append(n)
                if sc_as_tso and op == "st" and e.get("mo", 0) < 5:
                    out.append({"t": t, "op": "flush", "var": var, "a": "-", "b": "-", "r": "-"})
                continue
            if gpst.get(t) == "maybe":
                gpst[t] = None
            n["var"] = var
            for f in FIELDS16[op]:
                if f in e:
                    n[f] = sval(e[f], var)
        else:
            continue
        out.append(n)
        if sc_as_tso and op == "st" and e.get("mo", 0) < 5:
            out.append({"t": t, "op": "flush", "var": n["var"], "a": n["a"], "b": "-", "r": "-"})
    return out


def child_trace(parent_events, child_events):
    """the child's execution = the parent's up to its fork event, then the child's own (its first event is the fork event)"""
    pre = []
    for e in parent_events:
        if e.get("op") == "fork":
            break
        pre.append(e)
    return pre + list(child_events)
